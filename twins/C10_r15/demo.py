"""Equivalence demo for r15 (how the names `ls` prints - and paths are matched
against - are derived from the raw names on a disc:
structural.Image.make_safe_name, used by make_safe_names_routine and
make_export_name).

The method as currently in the tree is compared with an inline copy of the
ORIGINAL implementation:
  * on every single character U+0000..U+04FF plus samples of higher planes,
    alone, doubled, between letters, and after / before a colon or a blank;
  * on hand-written edge cases (empty, blanks only, quotes only, colon forms
    "A:", ":A", "A::B", " :", partition-like names, separators, control
    characters, very long names) and 20000 pseudo-random strings over an
    alphabet rich in special characters;
  * with is_file omitted / True / False / by keyword / odd values;
  * on non-str arguments (bytes, None, int, list, str subclass): same value
    or same exception type and message;
  * on an Image subclass that overrides the two regex class attributes, and
    on an instance where they are shadowed by instance attributes (the
    attributes are still looked up through `self` at call time);
  * through make_export_name and make_safe_names_routine (duplicate names
    get the same counters);
  * end to end: ls_action on a synthetic Image tree whose raw names contain
    quotes, colons, slashes, blanks and duplicates, and on an AKAI image, for
    the printed names, variations of them, and unrelated paths, with the
    original method patched onto Image versus the tree's method: same stdout.
Exit 0 when all agree, else 1.
"""
import contextlib
from dataclasses import dataclass
import io
import os
import random
import shutil
import sys
import tempfile

import smpl_extract.actions as actions
from smpl_extract.akai.data_types import AKAI_PARTITION_MAGIC
from smpl_extract.akai.data_types import AKAI_SAT_ENTRY_CNT
from smpl_extract.akai.data_types import AKAI_SECTOR_SIZE
from smpl_extract.akai.data_types import AKAI_VOLUME_ENTRY_CNT
from smpl_extract.akai.data_types import FILE_TABLE_END_FLAG
from smpl_extract.base import ElementTypes
from smpl_extract.elements import LeafElement
from smpl_extract.structural import Image
from smpl_extract.structural import Traversable
import re


# ---- ORIGINAL implementation (verbatim) -----------------------------------
def orig_make_safe_name(self, name, is_file=True) -> str:
    del is_file
    safe_name = self._INVALID_CHARS_REMOVE.sub("", name)
    safe_name = self._INVALID_CHARS_REPLACE.sub(" ", safe_name)
    safe_name = safe_name.strip()
    return safe_name


new_make_safe_name = Image.make_safe_name


@contextlib.contextmanager
def original_world():
    saved = Image.make_safe_name
    Image.make_safe_name = orig_make_safe_name
    try:
        yield
    finally:
        Image.make_safe_name = saved


class BareImage(Image):
    name = "Bare"
    type_name = "Bare Image"

    def __init__(self):
        pass


class OtherRegexImage(BareImage):
    _INVALID_CHARS_REMOVE = re.compile(r"[aeiou]+")
    _INVALID_CHARS_REPLACE = re.compile(r"\d")


class StrSub(str):
    def strip(self, *args):
        return "stripped-by-subclass"


def outcome(func, owner, *args, **kwargs):
    try:
        value = func(owner, *args, **kwargs)
        return ("ok", type(value).__name__, value)
    except BaseException as exc:  # noqa: B902
        # the pasted copy necessarily carries another function name
        message = str(exc).replace("orig_make_safe_name()", "f()")
        message = message.replace("Image.make_safe_name()", "f()")
        return ("exc", type(exc).__name__, message)


def candidate_names():
    chars = [chr(c) for c in range(0x500)]
    chars += [chr(c) for c in range(0x2000, 0x2070)]
    chars += ["\u3000", "\u4e2d", "\ufeff", "\uff1a", "\U0001f3b5",
              "\U000e0041", "\ud800"]
    for ch in chars:
        yield ch
        yield ch + ch
        yield "a" + ch + "b"
        yield ch + "A"
        yield "A" + ch
        yield ":" + ch
        yield ch + ":"
        yield " " + ch + " "
        yield "A" + ch + ":" + ch + "B"
    yield from [
        "", " ", "   ", "\t", "\n", "'", "\"", "`", "'\"`", "' '", "A:", ":A",
        "A::B", " :", ": ", "::", ":::A", "A :B", "A: B", "A:B:C", "a:/b",
        "A/B", "A\\B", "A\\\\B", "/", "\\", "//", ".", "..", "...", "-", "--",
        "_", "__x", "=", "@", "#", "&", "+", "a+b=c", "50% off", "x*y", "<>",
        "(1)", "[1]", "{1}", "PIANO L", "PIANO -L", "PIANO R ", "  lead  ",
        "tab\tname", "new\nline", "nul\x00nul", "\x7f", "caf\u00e9",
        "\u00e4\u00f6\u00fc", "na\u0303o", "VOLUME 001", "A" * 300,
        ":" * 50, "'" * 50, "/" * 50, " x " * 40, "it's", "say \"hi\"",
        "`tick`", "a'b\"c`d", "':'", "\":\"", "' :", "\u2603", "\u2603:",
        ":\u2603", "1:2", "_:_", "é:é", "-:", ".:", "@:", "#:x",
    ]
    rng = random.Random(1510)
    alphabet = "abcXYZ019 _-=:.@#&+'\"`/\\*?<>|()[]{}!$%^~,;\t\n\u00e4\u2603"
    for _ in range(20000):
        length = rng.randint(0, 14)
        yield "".join(rng.choice(alphabet) for _ in range(length))


# ---- synthetic tree for the end-to-end part -------------------------------
@dataclass
class FakeLeaf(LeafElement):
    name: str = ""
    type_name: str = "Leaf"
    size: int = 7
    type_id = ElementTypes.SampleEntry


class FakeImage(Image):
    name = "Fake Image"
    type_name = "Fake Image"
    type_id = ElementTypes.DirectoryEntry

    def __init__(self, spec):
        Traversable.__init__(self, lambda ctx: self._make(spec, ctx, self))

    @staticmethod
    def _make(spec, ctx, parent):
        routines = ctx["_elem_routines"]
        made = []
        for entry in spec:
            if isinstance(entry, tuple):
                raw, sub = entry
                node = Traversable(
                    (lambda sub: lambda c: FakeImage._make(sub, c, None))(sub),
                    routines=routines, path=[raw], parent=parent,
                    type_name="Dir",
                )
                node.name = raw
            else:
                node = FakeLeaf(name=entry)
            made.append(node)
        return made


RAW_SPEC = [
    ("VOL'1", ["it's", "its", "say \"hi\"", "a:b", ":lead", "x/y", "x\\y"]),
    ("VOL 1", ["", " ", "''", "PIANO -L", "PIANO -R", "PIANO -L"]),
    ("A:", ["`", "caf\u00e9", "\u2603", "a*b", "a?b", "a b"]),
    (":B", []),
    "top'leaf",
    "top leaf",
    "topleaf",
    "  padded  ",
    "semi;colon",
]


def printed_names(listing):
    names = []
    # to_string() ends with a newline and print() adds one: drop that last
    # empty line, it is not a (blank-named) row
    rows = listing.splitlines()[2:]
    if listing.endswith("\n\n") and rows and rows[-1] == "":
        rows = rows[:-1]
    for line in rows:
        names.append(line[:20].rstrip() if len(line) >= 20 else line.rstrip())
    return names


def ls_paths(image_factory):
    """Paths built from what is printed plus variations and junk."""
    buf = io.StringIO()
    with contextlib.redirect_stdout(buf):
        actions.ls_action(image_factory(), "")
    top = printed_names(buf.getvalue())
    paths = ["", " ", "/", "\\", "nope", "\u2603", "'", ":", "a:b", "A:"]
    for name in top:
        paths += [name, " " + name + " ", name + "/", name.lower(),
                  name + "\\", name + "/nope", name[:-1], name + "x"]
        buf = io.StringIO()
        with contextlib.redirect_stdout(buf):
            actions.ls_action(image_factory(), name)
        for child in printed_names(buf.getvalue())[:8]:
            paths += [name + "/" + child, name + "\\" + child + "\\",
                      name + "/ " + child + " /", name + "/" + child.upper()]
    return paths


def run_ls(image, path):
    buf = io.StringIO()
    try:
        with contextlib.redirect_stdout(buf):
            actions.ls_action(image, path)
        return ("ok", buf.getvalue())
    except BaseException as exc:  # noqa: B902
        return ("exc", type(exc).__name__, str(exc), buf.getvalue())


def akai_name(text):
    out = []
    for ch in text.ljust(12)[:12]:
        if ch.isdigit():
            out.append(ord(ch) - ord("0"))
        elif "A" <= ch <= "Z":
            out.append(0x0B + ord(ch) - ord("A"))
        else:
            out.append({" ": 0x0A, "#": 0x25, "+": 0x26, "-": 0x27,
                        ".": 0x28}[ch])
    return bytes(out)


def make_partition(sectors, volumes=()):
    header = (
        sectors.to_bytes(2, "little") + b"\x00\x00" + AKAI_PARTITION_MAGIC
        + bytes([0x55, 0xBA]) + b"\x2f\x00"
    )
    sat = [0] * AKAI_SAT_ENTRY_CNT
    entries = b""
    bodies = {}
    next_sector = 4
    for n in range(AKAI_VOLUME_ENTRY_CNT):
        if n < len(volumes):
            name, vtype = volumes[n]
            entries += (
                akai_name(name) + vtype.to_bytes(2, "little")
                + next_sector.to_bytes(2, "little")
            )
            sat[next_sector] = 0xC000
            body = bytearray(AKAI_SECTOR_SIZE)
            body[8:10] = FILE_TABLE_END_FLAG.to_bytes(2, "little")
            bodies[next_sector] = bytes(body)
            next_sector += 1
        else:
            entries += bytes([0x0A] * 12) + b"\x00\x00\x00\x00"
    for s in range(4):
        sat[s] = 0x4000
    sat_bytes = b"".join(v.to_bytes(2, "little") for v in sat)
    blob = bytearray(sectors * AKAI_SECTOR_SIZE)
    head = header + entries + sat_bytes
    blob[:len(head)] = head
    for sector, body in bodies.items():
        blob[sector * AKAI_SECTOR_SIZE:(sector + 1) * AKAI_SECTOR_SIZE] = body
    return bytes(blob)


def main():
    failures = 0
    checked = 0

    def compare(label, owner, *args, **kwargs):
        nonlocal failures, checked
        expected = outcome(orig_make_safe_name, owner, *args, **kwargs)
        actual = outcome(new_make_safe_name, owner, *args, **kwargs)
        checked += 1
        if expected != actual:
            failures += 1
            if failures <= 5:
                print("MISMATCH", label, args, kwargs)
                print("  expected", expected)
                print("  actual  ", actual)
        return expected

    bare = BareImage()
    other = OtherRegexImage()
    shadowed = BareImage()
    shadowed._INVALID_CHARS_REMOVE = re.compile(r"x")
    shadowed._INVALID_CHARS_REPLACE = re.compile(r"(y)(z)?")
    changed = 0
    for n, name in enumerate(candidate_names()):
        result = compare("name", bare, name)
        if result[0] == "ok" and result[2] != name:
            changed += 1
        if n % 7 == 0:
            compare("is_file", bare, name, False)
            compare("is_file-kw", bare, name, is_file=None)
            compare("other-regex", other, name)
            compare("shadowed", shadowed, name + "xyzy")
    if changed < 1000:
        print("inputs hardly exercised the substitutions:", changed)
        failures += 1

    for odd in (b"bytes'", b"", None, 0, 1.5, ["a"], ("a",), bytearray(b"x"),
                StrSub("  sub'class  "), StrSub(""), object()):
        compare("odd", bare, odd)
        compare("odd", bare, odd, False)
    for args, kwargs in (
        ((), {}), (("a", True, "extra"), {}), ((), {"name": "k'w"}),
        (("a",), {"is_file": object()}), (("a",), {"nope": 1}),
    ):
        compare("signature", bare, *args, **kwargs)

    # users of make_safe_name
    export_cases = ["", "a.", "it's.", ":x", "'", "A:", "  b  ", "x-", "é"]
    with original_world():
        expected = [
            (bare.make_export_name(n), bare.make_export_name(n, False))
            for n in export_cases
        ]
    actual = [
        (bare.make_export_name(n), bare.make_export_name(n, False))
        for n in export_cases
    ]
    checked += 1
    if expected != actual:
        failures += 1
        print("MISMATCH make_export_name", expected, actual)

    def routine_names():
        leaves = [FakeLeaf(name=n) for n in (
            "a'b", "ab", "a b", "a:b", ":ab", "ab", "", "''", " ", "PIANO -L",
            "PIANO'-L", "PIANO -L (2)", "x/y", "x\\y", "x y",
        )]
        returned = bare.make_safe_names_routine(leaves)
        return returned is leaves, [leaf.safe_name for leaf in leaves]

    with original_world():
        expected = routine_names()
    actual = routine_names()
    checked += 1
    if expected != actual:
        failures += 1
        print("MISMATCH make_safe_names_routine", expected, actual)

    # end to end on the synthetic tree
    with original_world():
        paths = ls_paths(lambda: FakeImage(RAW_SPEC))
    saw_found = saw_not_found = 0
    for path in paths:
        with original_world():
            expected = run_ls(FakeImage(RAW_SPEC), path)
        actual = run_ls(FakeImage(RAW_SPEC), path)
        checked += 1
        if "was not found" in expected[-1]:
            saw_not_found += 1
        elif expected[0] == "ok":
            saw_found += 1
        if expected != actual:
            failures += 1
            if failures <= 5:
                print("MISMATCH ls", repr(path))
                print("  expected", expected)
                print("  actual  ", actual)
    if saw_found < 20 or saw_not_found < 20:
        print("synthetic tree paths:", saw_found, "found,", saw_not_found,
              "not found - too few")
        failures += 1

    # end to end on an AKAI image file
    root = tempfile.mkdtemp()
    try:
        vols = (("VOL.1", 1), ("VOL-1", 3), ("VOL.1", 1), ("A+B #2", 3))
        target = os.path.join(root, "akai.img")
        with open(target, "wb") as handle:
            handle.write(make_partition(8, vols) + make_partition(4))
        for path in ["", "A", "a:", "B:/", "A/VOL.1", "A/VOL.1 (2)/",
                     "A/VOL-1", "a/a+b #2", "A/A B  2", "A/VOL.1 (3)", "C",
                     "A/VOL 1"]:
            with original_world():
                expected = run_ls(target, path)
            actual = run_ls(target, path)
            checked += 1
            if expected != actual:
                failures += 1
                print("MISMATCH akai ls", repr(path), expected, actual)
    finally:
        shutil.rmtree(root, ignore_errors=True)

    print(f"checked {checked} cases, {failures} mismatches")
    return 1 if failures else 0


if __name__ == "__main__":
    sys.exit(main())
