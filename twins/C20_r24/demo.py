"""Equivalence evidence for r24: smpl_extract/roland/s7xx/sample_file.py,
SampleFileAdapter._decode_element (builds the SampleFile whose fields `ls`
prints for a Roland sample) and SampleFileListAdapter._decode (collects the
sample files of a patch, one per sample index).

The refactoring (a) hoists the two dataclasses whose fields are copied
(SampleParamCommon, SampleParamOptionsSection) into a module-level tuple and
fills ONE keyword dict in a loop over it (dict.update) instead of two
`get_common_field_args` temporaries expanded side by side; `parent` /
`parent_path` are read with one tuple assignment and the SampleFile is returned
without a temporary; (b) flattens the nested partial/sample loops of the list
adapter into one generator expression, inverts the membership test into a
`continue` guard (`in d` for `not in d.keys()`) and stores the decoded file
without a temporary.

Inline copies of the ORIGINAL adapters are compared with the live ones:
  1. _decode / _decode_element on 2500 random SampleEntry objects (every field
     random, parsed from random 48-byte parameter records) under different
     contexts: every field of the resulting SampleFile, its itemised tree and
     the text `ls` prints;
  2. stand-in entries / child infos that log the order of attribute reads,
     lack attributes or raise;
  3. the list adapter on random patches (0..5 partials, 0..6 samples each,
     repeated indexes, unhashable / odd indexes), with logging of every
     attribute read and decode call, and with entries that fail half-way.
Exit 0 = all agree, 1 = a difference was found.
"""
import io
import random
import struct
import sys
from dataclasses import fields
from typing import Any
from typing import Dict
from typing import cast

from construct.core import Adapter
from construct.core import Pass
from construct.lib.containers import Container

from smpl_extract.base import Element
from smpl_extract.roland.s7xx.patch_entry import PatchEntry
from smpl_extract.roland.s7xx.sample_entry import SampleEntry
from smpl_extract.roland.s7xx.sample_entry import SampleParamCommon
from smpl_extract.roland.s7xx.sample_entry import SampleParamEntryStruct
from smpl_extract.roland.s7xx.sample_entry import SampleParamLoopPoint
from smpl_extract.roland.s7xx.sample_entry import SampleParamOptionsSection
from smpl_extract.roland.s7xx.sample_file import SampleFile
from smpl_extract.roland.s7xx.sample_file import SampleFileAdapter
from smpl_extract.roland.s7xx.sample_file import SampleFileListAdapter
from smpl_extract.util.constructs import ChildInfo
from smpl_extract.util.constructs import ElementAdapter
from smpl_extract.util.dataclass import get_common_field_args


# --------------------------------------------------------------------------
# inline copy of the ORIGINAL implementation
# --------------------------------------------------------------------------
class OrigSampleFileAdapter(ElementAdapter):

    def _decode_element(
                self,
                obj,
                child_info: ChildInfo,
                context: Dict[str, Any],
                path: str
        ):
        del context, path  # unused

        sample_entry = cast(SampleEntry, obj)

        parent = child_info.parent
        element_path = child_info.parent_path

        name = sample_entry.name
        sample_path = element_path + [name]

        common_params = get_common_field_args(
            SampleParamCommon,
            sample_entry
        )
        options_params = get_common_field_args(
            SampleParamOptionsSection,
            sample_entry
        )
        sample_file = SampleFile(
            **common_params,
            **options_params,
            name=name,
            _data_stream=sample_entry._data_stream,
            _parent=parent,
            _path=sample_path
        )
        return sample_file


    def _encode(self, obj, context, path):
        raise NotImplementedError


DECODE_LOG = []


def make_orig_list_adapter(item_adapter_class):
    class OrigSampleFileListAdapter(Adapter):


        def _decode(self, obj, context, path):
            patch_entry = cast(PatchEntry, obj)
            sc = item_adapter_class(Pass)

            sample_files = {}
            for partial_entry in patch_entry.partial_entries:
                for sample_entry in partial_entry.sample_entries:
                    if sample_entry.index not in sample_files.keys():
                        sample_file = sc._decode(sample_entry, context, path)
                        sample_files[sample_entry.index] = sample_file

            return list(sample_files.values())


        def _encode(self, obj, context, path):
            raise NotImplementedError

    return OrigSampleFileListAdapter


OrigSampleFileListAdapter = make_orig_list_adapter(OrigSampleFileAdapter)


# --------------------------------------------------------------------------
failures = 0
checked = 0


def fail(*msg):
    global failures
    failures += 1
    if failures <= 5:
        print("MISMATCH", *[repr(m)[:400] for m in msg])


def same(tag, a, b, *extra):
    global checked
    checked += 1
    if a != b:
        fail(tag, a, b, *extra)
        return False
    return True


rng = random.Random(0xC20_24)


class Parent(Element):
    """minimal parent element"""
    type_name = "parent"

    def __init__(self, name, path):
        super().__init__(path=path)
        self.name = name

    def get_info(self):
        raise NotImplementedError

    def __repr__(self):
        return "Parent(%r)" % (self.name, )


def tree(t):
    if isinstance(t, dict):
        return ("dict", [(k, tree(v)) for k, v in t.items()])
    if isinstance(t, tuple):
        return ("tuple", [tree(v) for v in t])
    return (type(t).__name__, t)


def describe_file(sample_file):
    if not isinstance(sample_file, SampleFile):
        return ("other", type(sample_file).__name__, repr(sample_file))
    out = [("type", type(sample_file).__name__)]
    for f in fields(sample_file):
        value = getattr(sample_file, f.name)
        if f.name in ("_data_stream", "_parent"):
            out.append((f.name, type(value).__name__, id(value)))
        else:
            out.append((f.name, type(value).__name__, repr(value), str(value)))
    try:
        out.append(("items", tree(sample_file.itemize())))
        info = sample_file.get_info()
        out.append(("ls", info.header, info.to_string()))
        out.append(("path", list(sample_file.path), sample_file.safe_name,
                    sample_file.export_name, id(sample_file.parent)))
    except Exception as e:  # noqa
        out.append(("info-exc", type(e).__name__, str(e)))
    return out


# 1. real SampleEntry objects -----------------------------------------------
def make_record(wild=False):
    name = bytes(rng.randrange(32, 127) for _ in range(rng.randrange(0, 17)))
    name = name.ljust(16, b"\x00")
    points = b"".join(struct.pack("<I", rng.choice(
        [0, 255, 256, 0xFFFFFFFF, rng.randrange(1 << 32), rng.randrange(1 << 16)]))
        for _ in range(5))
    loop_mode = rng.randrange(0, 256) if wild else rng.randrange(0, 7)
    options = rng.randrange(0, 256) if wild else \
        (rng.randrange(0, 2) << 4) | rng.randrange(0, 6)
    rest = struct.pack("<BBBBHHBBH", loop_mode, rng.randrange(256),
                       rng.randrange(256), rng.randrange(256),
                       rng.randrange(65536), rng.randrange(65536),
                       options, rng.randrange(0, 128 if not wild else 256),
                       rng.randrange(65536))
    return name + points + rest


def make_entry(index, parent=None):
    """SampleEntry whose fields come from a random parsed parameter record"""
    while True:
        try:
            parsed = SampleParamEntryStruct.parse(make_record(), _index=index)
            break
        except Exception:  # noqa  (unmapped frequency code etc.)
            continue
    # the struct yields loop-point containers / dataclasses depending on the
    # adapter in use; normalise to the public dataclass
    kw = get_common_field_args(SampleParamCommon, parsed)
    for key, value in list(kw.items()):
        if hasattr(value, "fine") and hasattr(value, "address"):
            kw[key] = SampleParamLoopPoint(value.fine, value.address)
    kw.update(get_common_field_args(SampleParamOptionsSection, parsed.sample_options))
    return SampleEntry(
        **kw,
        directory_name="DIR %d" % index + rng.choice(["", " L", " R", "/x"]),
        parameter_name=parsed.name,
        index=index,
        _data_stream=io.BytesIO(b"data%d" % index),
        _parent=parent,
        _path=["img", "vol", "DIR %d" % index]
    )


def contexts(parent):
    return [
        Container(),
        Container(_elem_parent=parent),
        Container(_=Container(_elem_parent=parent, _elem_routines={})),
        Container(_elem_name="IGNORED?", _elem_parent=parent),
        Container(_=Container(_elem_name="OUTER", _elem_parent=None)),
        {"_elem_parent": parent, "_elem_routines": [1, 2]},
    ]


def observe(fn, *args):
    try:
        return ("ok", describe_file(fn(*args)))
    except Exception as e:  # noqa
        return ("exc", type(e).__name__, str(e))


live_item = SampleFileAdapter(Pass)
orig_item = OrigSampleFileAdapter(Pass)
files_ok = 0
for n in range(2500):
    parent = Parent("PERF %d" % n, ["img", "vol", "PERF %d" % n]) \
        if n % 5 else None
    entry = make_entry(rng.randrange(0x2000), parent)
    for context in contexts(parent)[: 1 + n % 6]:
        a = observe(live_item._decode, entry, context, "")
        b = observe(orig_item._decode, entry, context, "")
        same("entry %d" % n, a, b)
        files_ok += a[0] == "ok"
        if a[0] == "ok":
            text = dict((x[0], x) for x in a[1])["ls"][2]
            for needle in ("sampling_frequency", "loop_mode", "sample_mode",
                           "release_loop_end", "address", "fine"):
                if needle not in text:
                    fail("ls text lacks", needle, text)
if files_ok < 2500:
    fail("too few sample files", files_ok)


# 2. logging stand-ins --------------------------------------------------------
LOG = []
ENTRY_FIELDS = [f.name for f in fields(SampleParamCommon)] + \
    [f.name for f in fields(SampleParamOptionsSection)]


class Stub:
    """object that logs attribute reads; attributes may be missing / raise"""
    def __init__(self, tag, **kv):
        object.__setattr__(self, "_tag", tag)
        object.__setattr__(self, "_kv", kv)

    def __getattr__(self, name):
        LOG.append((object.__getattribute__(self, "_tag"), name))
        kv = object.__getattribute__(self, "_kv")
        if name not in kv:
            raise AttributeError(name)
        value = kv[name]
        if isinstance(value, Exception):
            raise value
        return value


def stub_entry():
    kv = {k: "v:" + k for k in ENTRY_FIELDS}
    kv.update(name=rng.choice(["NAME", "", 5, None, ["l"]]),
              _data_stream=io.BytesIO(b"x"), index=rng.randrange(5))
    for key in list(kv):
        r = rng.random()
        if r < 0.012:
            del kv[key]
        elif r < 0.024:
            kv[key] = rng.choice([ValueError("boom " + key), KeyError(key)])
    return kv


def stub_child_info():
    kv = dict(parent=rng.choice([None, "PARENT"]),
              parent_path=rng.choice([[], ["a", "b"], ("t", ), None, "str"]),
              next_path=["n"], routines=[], name="CI")
    for key in ("parent", "parent_path"):
        r = rng.random()
        if r < 0.08:
            del kv[key]
        elif r < 0.12:
            kv[key] = RuntimeError("ci " + key)
    return kv


def observe_logged(fn, *args):
    del LOG[:]
    try:
        res = fn(*args)
        if isinstance(res, list):
            out = ("ok", [describe_file(x) if isinstance(x, SampleFile)
                          else repr(x) for x in res])
        else:
            out = ("ok", describe_file(res))
    except Exception as e:  # noqa
        out = ("exc", type(e).__name__, str(e))
    return out, list(LOG)


stub_ok = 0
for n in range(3000):
    ekv, ckv = stub_entry(), stub_child_info()
    a = observe_logged(live_item._decode_element, Stub("e", **ekv),
                       Stub("c", **ckv), {}, "")
    b = observe_logged(orig_item._decode_element, Stub("e", **ekv),
                       Stub("c", **ckv), {}, "")
    same("stub %d" % n, a, b, sorted(ekv), ckv)
    stub_ok += a[0][0] == "ok"
if not 500 < stub_ok < 2900:
    fail("stub mix off", stub_ok)
for obj, ci in ((None, None), (5, ChildInfo(None, [], [], [], "n")),
                (make_entry(3), None), (make_entry(3), ChildInfo(None, None, [], [], "n")),
                (make_entry(3), ChildInfo("P", ("a", ), [], [], None))):
    same("plain", observe_logged(live_item._decode_element, obj, ci, None, None),
         observe_logged(orig_item._decode_element, obj, ci, None, None))
same("encode", observe(live_item._encode, None, None, None),
     observe(orig_item._encode, None, None, None))


# 3. the list adapter ---------------------------------------------------------
live_list = SampleFileListAdapter(Pass)
orig_list = OrigSampleFileListAdapter(Pass)


def make_patch(real=True):
    """patch -> partials -> sample entries, described as plain data first"""
    pool = [make_entry(i) for i in rng.sample(range(40), 8)] if real else None
    partials = []
    for _ in range(rng.randrange(0, 6)):
        entries = []
        for _ in range(rng.randrange(0, 7)):
            if real:
                entries.append(rng.choice(pool))
            else:
                kv = stub_entry()
                kv["index"] = rng.choice([0, 1, 2, 3, 1.0, True, "1", None,
                                          (1, 2), [1], {}])
                entries.append(kv)
        partials.append(entries)
    return partials


def build_real(partials):
    return Container(partial_entries=[
        Container(sample_entries=list(entries)) for entries in partials])


def build_stub(partials, drop_at=None):
    out = []
    for p, entries in enumerate(partials):
        kv = dict(sample_entries=[Stub("e%d.%d" % (p, i), **ekv)
                                  for i, ekv in enumerate(entries)])
        if drop_at == p:
            kv = {}
        out.append(Stub("p%d" % p, **kv))
    return Stub("patch", partial_entries=out)


lists_ok = 0
for n in range(600):
    partials = make_patch(real=True)
    parent = Parent("PERF", ["img", "PERF"])
    context = Container(_=Container(_elem_parent=parent, _elem_routines={}))
    a = observe_logged(live_list._decode, build_real(partials), context, "")
    b = observe_logged(orig_list._decode, build_real(partials), context, "")
    same("list %d" % n, a, b)
    if a[0][0] == "ok":
        lists_ok += 1
        want = []
        for entries in partials:
            for e in entries:
                if e.index not in want:
                    want.append(e.index)
        got = [dict((x[0], x) for x in f)["name"][2] for f in a[0][1]]
        if len(got) != len(want):
            fail("dedup", want, got)
if lists_ok < 600:
    fail("too few lists", lists_ok)

for n in range(1500):
    partials = make_patch(real=False)
    drop = rng.choice([None, None, 0, 1, 2])
    context = rng.choice([Container(), {}, None])
    a = observe_logged(live_list._decode, build_stub(partials, drop), context, "p")
    b = observe_logged(orig_list._decode, build_stub(partials, drop), context, "p")
    same("stub list %d" % n, a, b, partials)

for obj in (None, 5, Container(), Container(partial_entries=None),
            Container(partial_entries=[None]), Container(partial_entries=()),
            Container(partial_entries=[Container(sample_entries=None)]),
            Container(partial_entries=iter([Container(sample_entries=iter([]))]))):
    same("odd patch", observe_logged(live_list._decode, obj, Container(), ""),
         observe_logged(orig_list._decode, obj, Container(), ""))
same("list encode", observe(live_list._encode, None, None, None),
     observe(orig_list._encode, None, None, None))

print("r24 demo: %d comparisons (%d sample files, %d stub files, %d lists), "
      "%d failures" % (checked, files_ok, stub_ok, lists_ok, failures))
sys.exit(1 if failures else 0)
