"""Equivalence demo for r16: smpl_extract.util.stream.StreamWrapper.read.

StreamWrapper.read is the `stream.stream.read(size)` called by decode_frame
and PassthroughTranscoder.__next__ for every block.  The live method (also
inherited by StreamOffset, StreamReversed and SectorStream) is compared with
an inline copy of the ORIGINAL on random and hand-written sequences of
read / seek / readall / tell for each wrapper class, with end_of_file values
that are positive, zero, negative and None, sizes that are None, negative,
zero, bool and larger than the stream, and reversed streams whose reads are
misaligned (BadReadSize / BadAlign).  After every step the returned bytes or
exception, position, true_size and the exact sequence of tell / seek / read
operations on the underlying stream are compared.
Finally complete transcodings over wrapped streams are compared byte for
byte.  Exit 0 when everything agrees, 1 otherwise.
"""
from io import BytesIO
from io import SEEK_SET
import itertools
import sys
from unittest.mock import patch

import numpy as np

import smpl_extract.transcoder as T
from smpl_extract.data_streams import DataStream
from smpl_extract.data_streams import Endianess
from smpl_extract.data_streams import StreamEncoding
from smpl_extract.util.sector import SectorStream
from smpl_extract.util.stream import StreamOffset
from smpl_extract.util.stream import StreamReversed
from smpl_extract.util.stream import StreamWrapper


def read_ORIG(self, size):

    if size is None or size < 0:
        return self.readall()

    self.true_size = size
    if self.end_of_file is not None:  # as in the tree after the empty-view fix
        self.true_size = min(self.end_of_file - self.position, size)
    if self.true_size < 0:
        self.true_size = 0

    true_position = self.substream.tell()
    expected_position = self._translate_addr(self.position)
    if expected_position != true_position:
        self._seek(self.position)

    result = self._read(self.true_size)
    self.position += self.true_size
    return result


class StreamWrapper_ORIG(StreamWrapper):
    read = read_ORIG


class StreamOffset_ORIG(StreamOffset):
    read = read_ORIG


class StreamReversed_ORIG(StreamReversed):
    read = read_ORIG


class SectorStream_ORIG(SectorStream):
    read = read_ORIG


class LoggedBytesIO(BytesIO):
    """Underlying stream that records every tell / seek / read made on it."""

    def __init__(self, data):
        super().__init__(data)
        self.log = []

    def seek(self, offset, whence=SEEK_SET):
        self.log.append(("seek", offset, whence))
        return super().seek(offset, whence)

    def read(self, size=-1):
        self.log.append(("read", size))
        return super().read(size)

    def tell(self):
        self.log.append(("tell",))
        return super().tell()


def call(f, *args):
    try:
        r = f(*args)
    except BaseException as e:  # noqa
        return ("exc", type(e), str(e))
    return ("ok", type(r), r)


def run_script(make, data, script):
    parent = LoggedBytesIO(data)
    s = make(parent)
    out = []
    for step in script:
        if step[0] == "read":
            out.append(call(s.read, step[1]))
        elif step[0] == "seek":
            out.append(call(s.seek, step[1], step[2]))
        elif step[0] == "readall":
            out.append(call(s.readall))
        elif step[0] == "tell":
            out.append(call(s.tell))
        elif step[0] == "parent_seek":
            # somebody else moved the shared underlying stream
            BytesIO.seek(parent, step[1])
        elif step[0] == "set":
            setattr(s, step[1], step[2])
        out.append(("state", s.position, s.true_size, len(parent.log)))
    return out, parent.log


def transcode(make, specs, dest, block):
    def gnfp(stream, target_size=block):
        return max(1, target_size // stream.frame_size)

    with patch.object(T, "get_num_frames_possible", gnfp):
        try:
            parents = []
            streams = []
            for data, size, enc in specs:
                parent = LoggedBytesIO(data)
                parents.append(parent)
                streams.append(DataStream(make(parent, size, enc), enc))
            tr = T.make_transcoder(streams, dest)
            return (type(tr).__name__, [bytes(b) for b in tr],
                    [p.log for p in parents],
                    [s.stream.position for s in streams])
        except BaseException as e:  # noqa
            return ("exc", type(e), str(e))


def main():
    bad = 0
    n = 0
    rng = np.random.default_rng(16)
    image = rng.integers(0, 256, 4096, dtype=np.uint8).tobytes()

    # 1. scripted sequences on every wrapper class
    scripts = [
        [("read", None)],
        [("read", -1)],
        [("read", 0), ("read", True), ("read", False)],
        [("read", 5), ("parent_seek", 0), ("read", 5), ("tell",)],
        [("read", 10 ** 6), ("read", 1), ("read", 0)],
        [("seek", 0, 2), ("read", 4), ("seek", -4, 2), ("read", 8)],
        [("seek", 3, 0), ("read", 4), ("seek", -2, 1), ("read", 3)],
        [("set", "position", 500), ("read", 4)],
        [("set", "position", -3), ("read", 4)],
        [("set", "end_of_file", None), ("read", 7), ("read", 7)],
        [("set", "end_of_file", 0), ("read", 7), ("read", 7)],
        [("set", "end_of_file", -5), ("read", 7), ("read", 7)],
        [("read", 2.0)],
        [("read", "3")],
    ]
    for _ in range(500):
        script = []
        for _ in range(int(rng.integers(1, 9))):
            kind = int(rng.integers(0, 12))
            if kind < 6:
                script.append(("read", int(rng.integers(-1, 50))))
            elif kind < 9:
                script.append(("seek", int(rng.integers(-20, 200)),
                               int(rng.integers(0, 3))))
            elif kind == 9:
                script.append(("readall",))
            elif kind == 10:
                script.append(("parent_seek", int(rng.integers(0, 300))))
            else:
                script.append(("tell",))
        scripts.append(script)

    makers = []
    for size, avail in ((64, 4096), (100, 60), (0, 4096), (7, 7), (-4, 50)):
        makers += [
            (avail, "wrapper", size,
             lambda p, size=size: StreamWrapper_ORIG(p, size, buffer_length=13),
             lambda p, size=size: StreamWrapper(p, size, buffer_length=13)),
            (avail, "offset", size,
             lambda p, size=size: StreamOffset_ORIG(p, size, 11, buffer_length=13),
             lambda p, size=size: StreamOffset(p, size, 11, buffer_length=13)),
            (avail, "sector", size,
             lambda p, size=size: SectorStream_ORIG(p, size, 6, buffer_length=13),
             lambda p, size=size: SectorStream(p, size, 6, buffer_length=13)),
        ]
        for sw in (1, 2, 3, 4):
            makers.append(
                (avail, "reversed%d" % sw, size,
                 lambda p, size=size, sw=sw: StreamReversed_ORIG(
                     p, size, sw, buffer_length=12),
                 lambda p, size=size, sw=sw: StreamReversed(
                     p, size, sw, buffer_length=12)))
    # nested wrappers: reversed view of an offset view
    makers.append(
        (4096, "reversed-of-offset", 48,
         lambda p: StreamReversed_ORIG(
             StreamOffset_ORIG(p, 48, 20), 48, 2, buffer_length=12),
         lambda p: StreamReversed(StreamOffset(p, 48, 20), 48, 2,
                                  buffer_length=12)))

    for avail, name, size, mk_orig, mk_live in makers:
        data = image[:avail]
        for script in scripts:
            a = run_script(mk_orig, data, script)
            b = run_script(mk_live, data, script)
            n += 1
            if a != b:
                bad += 1
                print("MISMATCH", name, size, avail, script)

    # 2. end to end
    def mk(kind, orig):
        W, O, R = ((StreamWrapper_ORIG, StreamOffset_ORIG, StreamReversed_ORIG)
                   if orig else (StreamWrapper, StreamOffset, StreamReversed))
        if kind == "wrapper":
            return lambda p, size, enc: W(p, size)
        if kind == "offset":
            return lambda p, size, enc: O(p, size, 0)
        if kind == "offset+":
            return lambda p, size, enc: O(p, max(0, size - 9), 9)
        return lambda p, size, enc: R(p, size, enc.sample_width)

    orders = [Endianess.LITTLE, Endianess.BIG]
    for width in (1, 2, 4):
        for chans in ([1], [2], [1, 1], [2, 1], [1, 2, 3]):
            total = sum(chans)
            for ords in itertools.islice(
                    itertools.product(orders, repeat=len(chans)), 3):
                for frames, extra in ((40, 0), (40, 1), (0, 0), (300, 3)):
                    specs = []
                    for k, (c, o) in enumerate(zip(chans, ords)):
                        size = (frames + 2 * k) * c * width + extra
                        specs.append((
                            image[50 * k:50 * k + size], size,
                            StreamEncoding(o, width, c, True)))
                    for dest in (
                            StreamEncoding(Endianess.LITTLE, width, total),
                            StreamEncoding(Endianess.BIG, width, total)):
                        for kind in ("wrapper", "offset", "offset+",
                                     "reversed"):
                            for block in (1, 24, 4096):
                                a = transcode(
                                    mk(kind, True), specs, dest, block)
                                b = transcode(
                                    mk(kind, False), specs, dest, block)
                                n += 1
                                if a != b:
                                    bad += 1
                                    print("E2E MISMATCH", width, chans, ords,
                                          frames, extra, kind, block)

    print(f"{n} comparisons, {bad} mismatches")
    return 1 if bad else 0


if __name__ == "__main__":
    sys.exit(main())
