"""Equivalence demo for Image.sanitize_names_general (C06, r21).

The live method (with or without the refactoring) is compared against a
subclass carrying a verbatim inline copy of the ORIGINAL body.  Both are run
over many sibling-name multisets (hand written edge cases, exhaustive small
multisets over a hostile alphabet, random multisets) with the real
make_safe_name / make_export_name sanitisers, with logging callbacks, with
callbacks that raise, with unhashable sanitiser results and with a counter
helper that always collides (CouldNotDetermineName path).  For every run the
returned object identity, the sequence of f_sanitize / f_set calls, the names
assigned, and the exception type / message must agree.
Exit status 0 when everything agrees, 1 otherwise.
"""
import itertools
import random
import sys
from typing import Callable
from typing import Dict
from typing import List

from smpl_extract.base import ElementTypes
from smpl_extract.structural import CouldNotDetermineName
from smpl_extract.structural import Image


# --------------------------------------------------------------------------
# ORIGINAL implementation (verbatim body)
# --------------------------------------------------------------------------
class OriginalImage(Image):

    def sanitize_names_general(
            self,
            elements,
            f_sanitize,
            f_set
    ):
        candidate_names: Dict[str, List] = {}
        for element in elements:
            is_file = element.type_id != ElementTypes.DirectoryEntry
            candidate_name = f_sanitize(element.name, is_file)

            if candidate_name not in candidate_names.keys():
                candidate_names[candidate_name] = []
            candidate_names[candidate_name].append(element)

        assigned_names = set()
        for name, subelements in candidate_names.items():
            if len(subelements) == 1:
                element = subelements[0]
                f_set(element, name)
                continue

            i = 0
            for element in subelements:
                i += 1
                if i > 1:
                    next_name = self._add_count_to_name(name, i)
                    j = 0
                    while (next_name in candidate_names.keys()
                            or next_name in assigned_names):
                        i += 1
                        j += 1
                        next_name = self._add_count_to_name(name, i)
                        if j > len(candidate_names.keys()):
                            # This should never(?) happen
                            raise CouldNotDetermineName(
                                "Unable to determine proper (sanitized) "
                                f"name for {element.name}. Too many name "
                                "collisions."
                            )
                else:
                    next_name = name
                f_set(element, next_name)
                assigned_names.add(next_name)

        result = elements
        return result


class StuckCounterMixin:
    """_add_count_to_name ignores the counter: every retry collides."""

    def _add_count_to_name(self, name, count):
        del count
        return name + " (2)"


class LiveStuck(StuckCounterMixin, Image):
    pass


class OriginalStuck(StuckCounterMixin, OriginalImage):
    pass


FAILURES = []
N_CHECKS = 0


def check(label, left, right):
    global N_CHECKS
    N_CHECKS += 1
    if left != right:
        FAILURES.append(label)
        print("MISMATCH", label)
        print("   original:", repr(left)[:400])
        print("   live    :", repr(right)[:400])


class FakeElement:
    def __init__(self, name, type_id, log=None):
        self._name = name
        self._type_id = type_id
        self._log = log
        self.assigned = []

    @property
    def name(self):
        if self._log is not None:
            self._log.append(("name", self._name))
        return self._name

    @property
    def type_id(self):
        if self._log is not None:
            self._log.append(("type_id", self._name))
        return self._type_id


def make_image(cls):
    return cls(lambda context_additions: [])


def run(image_cls, specs, mode):
    """specs: list of (name, is_dir).  Returns a comparable outcome."""
    image = make_image(image_cls)
    log = []
    elements = [
        FakeElement(
            name,
            ElementTypes.DirectoryEntry if is_dir else ElementTypes.SampleEntry,
            log
        )
        for name, is_dir in specs
    ]
    index_of = {id(e): i for i, e in enumerate(elements)}

    if mode == "safe":
        sanitizer = image.make_safe_name
    elif mode == "export":
        sanitizer = image.make_export_name
    elif mode == "identity":
        sanitizer = lambda name, is_file: name
    elif mode == "constant":
        sanitizer = lambda name, is_file: "same"
    elif mode == "lower_dirflag":
        sanitizer = lambda name, is_file: name.lower() + ("" if is_file else "/")
    elif mode == "raise_third":
        state = {"n": 0}

        def sanitizer(name, is_file):
            state["n"] += 1
            if state["n"] == 3:
                raise KeyError("sanitize " + name)
            return name.strip()
    elif mode == "unhashable_second":
        state = {"n": 0}

        def sanitizer(name, is_file):
            state["n"] += 1
            if state["n"] == 2:
                return [name]
            return name
    else:
        raise AssertionError(mode)

    def f_sanitize(name, is_file):
        log.append(("sanitize", name, is_file))
        return sanitizer(name, is_file)

    set_state = {"n": 0}

    def f_set(element, name):
        set_state["n"] += 1
        log.append(("set", index_of[id(element)], name))
        element.assigned.append(name)

    def f_set_raising(element, name):
        set_state["n"] += 1
        log.append(("set", index_of[id(element)], name))
        if set_state["n"] == 2:
            raise ValueError("set " + name)
        element.assigned.append(name)

    outcome = {}
    for setter_label, setter in (("plain", f_set), ("raising", f_set_raising)):
        del log[:]
        set_state["n"] = 0
        for e in elements:
            del e.assigned[:]
        try:
            returned = image.sanitize_names_general(elements, f_sanitize, setter)
            status = ("ok", returned is elements, [index_of[id(e)] for e in returned])
        except Exception as exc:  # noqa: BLE001 - compared below
            status = ("exc", type(exc).__name__, str(exc))
        outcome[setter_label] = (
            status,
            list(log),
            [list(e.assigned) for e in elements],
        )
    return outcome


def compare(label, specs, mode, pair=(OriginalImage, Image)):
    original = run(pair[0], specs, mode)
    live = run(pair[1], specs, mode)
    check(f"{label} mode={mode} specs={specs!r}", original, live)


MODES = (
    "safe", "export", "identity", "constant", "lower_dirflag",
    "raise_third", "unhashable_second",
)


def main():
    hand_written = [
        [],
        [("a", False)],
        [("a", False), ("a", False)],
        [("a", False), ("a", True)],
        [("a", False), ("a", False), ("a (2)", False)],
        [("a (2)", False), ("a", False), ("a", False)],
        [("a", False), ("a", False), ("a (2)", False), ("a (2)", False)],
        [("a", False), ("a", False), ("a (2)", False), ("a (3)", False),
         ("a (4)", False)],
        [("a", False)] * 6 + [("a (3)", False)] * 3 + [("a (3) (2)", False)],
        [("PIANO -L", False), ("PIANO -R", False), ("PIANO -L", False),
         ("PIANO -R", False), ("PIANO", False), ("PIANO (2) L", False)],
        [("x L", False), ("x L", False), ("x (2) L", False), ("x  L", False)],
        [("a/b", False), ("a\\b", False), ("a:b", False), ("a b", False)],
        [("..", True), ("..", True), (".", True), ("", True), ("", False)],
        [("'quoted'", False), ('"quoted"', False), ("`quoted`", False),
         ("quoted", False)],
        [("\x00\x01", False), ("\x7f", False), ("\t", False), (" ", False)],
        [("name.", False), ("name", False), ("name .", True), ("name-", True)],
        [("été", False), ("été", True), ("ete", False)],
        [("same", True)] * 4,
        [("Same", False), ("same", False), ("SAME", True)],
    ]
    for i, specs in enumerate(hand_written):
        for mode in MODES:
            compare(f"hand[{i}]", specs, mode)

    # exhaustive small multisets over a hostile alphabet
    alphabet = ["a", "a (2)", "a (3)", "a -L", "a -R", "a.", "a/", "..", ""]
    for size in (1, 2, 3, 4):
        for combo in itertools.product(alphabet, repeat=size):
            specs = [(name, False) for name in combo]
            for mode in ("export", "identity"):
                compare("exhaustive", specs, mode)

    # random multisets
    rng = random.Random(2106)
    pieces = ["a", "B", " ", "-", "L", "R", "(", ")", "2", "3", ".", "/",
              "\\", "'", "\"", ":", "#", "\x01", "ü", "_"]
    for case in range(1500):
        pool = [
            "".join(rng.choice(pieces) for _ in range(rng.randint(0, 5)))
            for _ in range(rng.randint(1, 4))
        ]
        specs = [
            (rng.choice(pool), rng.random() < 0.25)
            for _ in range(rng.randint(0, 9))
        ]
        compare(f"random[{case}]", specs, rng.choice(MODES))

    # CouldNotDetermineName path: the counter helper always collides
    stuck_cases = [
        [("a", False), ("a", False), ("a (2)", False)],
        [("a", False), ("a", False), ("a", False)],
        [("b", True), ("a", False), ("a", False), ("a", False), ("a", False)],
        [("a", False), ("a", False)],
    ]
    for i, specs in enumerate(stuck_cases):
        for mode in ("identity", "export", "constant"):
            compare(f"stuck[{i}]", specs, mode, (OriginalStuck, LiveStuck))

    # the real routines on real-looking siblings: assigned attributes agree
    class Sibling:
        def __init__(self, name, type_id):
            self.name = name
            self.type_id = type_id
            self._safe_name = None
            self._export_name = None

    for case in range(300):
        pool = [
            "".join(rng.choice(pieces) for _ in range(rng.randint(0, 6)))
            for _ in range(rng.randint(1, 4))
        ]
        names = [rng.choice(pool) for _ in range(rng.randint(0, 8))]
        results = []
        for cls in (OriginalImage, Image):
            image = make_image(cls)
            siblings = [
                Sibling(n, ElementTypes.DirectoryEntry if k % 3 == 0
                        else ElementTypes.SampleEntry)
                for k, n in enumerate(names)
            ]
            out = image.make_safe_names_routine(siblings)
            out2 = image.make_export_names_routine(out)
            results.append((
                out is siblings, out2 is siblings,
                [(s._safe_name, s._export_name) for s in siblings],
            ))
        check(f"routines[{case}] {names!r}", results[0], results[1])

    print(f"{N_CHECKS} comparisons, {len(FAILURES)} mismatches")
    return 1 if FAILURES else 0


if __name__ == "__main__":
    sys.exit(main())
