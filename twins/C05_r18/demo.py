"""Equivalence demo for r18: data_streams.StreamEncoding.__eq__ (the chain of
early `return False` / final `return True` rewritten as a single exit with a
`result` variable and positive, nested conditions) versus an inline copy of
the ORIGINAL method.

1. every pair of encodings from a product of ordinary and odd field values
   (enum members, plain/numpy ints, bools, floats, nan, None, strings), and
   non-StreamEncoding right-hand sides (subclass instances, look-alikes,
   None, strings): same result object (True/False), same exceptions;
2. probe field values that log every __eq__/__ne__/__gt__/__bool__ call:
   same calls in the same order (same evaluation order and short-circuits);
3. `!=`, hash() and membership in dict/set built on __eq__ agree;
4. make_transcoder's pass-through decision (`len(streams) == 1 and
   streams[0].encoding == dest_encoding`) is the same for every single-stream
   source/destination combination, and the L/R sample merged by
   combine_stereo is written by export_wav (into a fresh temp dir) as the
   expected interleaved two-channel file.
Exit 0 when everything agrees, 1 otherwise.
"""
import io
import itertools
import os
import random
import shutil
import struct
import sys
import tempfile
from typing import cast

import numpy as np

from smpl_extract.data_streams import DataStream
from smpl_extract.data_streams import Endianess
from smpl_extract.data_streams import StreamEncoding
from smpl_extract.generalized.sample import combine_stereo
from smpl_extract.generalized.sample import Sample
from smpl_extract.generalized.wav import export_wav
from smpl_extract.transcoder import make_transcoder
from smpl_extract.transcoder import PassthroughTranscoder
from smpl_extract.transcoder import PipelineTranscoder


# verbatim copy of the ORIGINAL method
def original_eq(self, other: object) -> bool:
    if not isinstance(other, StreamEncoding):
        return False
    other = cast(StreamEncoding, other)
    common_checks = (
        self.endianess == other.endianess,
        self.sample_width == other.sample_width,
        self.is_signed == other.is_signed,
        self.is_interleaved == other.is_interleaved
    )
    if not all(common_checks):
        return False

    if self.is_interleaved:
        if self.num_interleaved_channels != other.num_interleaved_channels:
            return False

    return True


failures = []


def check(cond, what):
    if not cond:
        failures.append(what)
        if len(failures) <= 20:
            print("MISMATCH:", what)


def outcome(func, *args):
    try:
        return ("ok", func(*args))
    except BaseException as e:  # noqa
        return ("exc", type(e), str(e))


def same(a, b):
    if a[0] != b[0]:
        return False
    if a[0] == "ok":
        return a[1] is b[1]          # the singletons True / False
    return a[1:] == b[1:]


# --------------------------------------------------------------------------
# 1. products of field values
# --------------------------------------------------------------------------
class SubEncoding(StreamEncoding):
    pass


class LookAlike:
    endianess = Endianess.LITTLE
    sample_width = 1
    num_interleaved_channels = 1
    is_signed = True
    is_interleaved = False


endianess_values = [Endianess.LITTLE, Endianess.BIG, 1, 2, None, "LITTLE"]
width_values = [1, 2, 3, 4, 8, 0, -2, 2.0, np.int16(2), float("nan"), None, True]
channel_values = [0, 1, 2, 3, 6, -1, 1.5, 2.0, np.int64(2), np.int8(1), True, False,
                  float("nan"), float("inf")]
signed_values = [True, False, 1, 0, None]

encodings = []
for e, w, c, s in itertools.product(endianess_values, width_values, channel_values, signed_values):
    encodings.append((e, w, c, s))
rng = random.Random(1805)
rng.shuffle(encodings)
# raising field values (None > 1 raises TypeError when is_interleaved is read)
raising = [(Endianess.LITTLE, 2, None, True), (Endianess.BIG, 1, "2", False)]

subset = encodings[:420] + raising
objs = [StreamEncoding(*t) for t in subset] + [SubEncoding(*t) for t in subset[:25]]
num = 0
for a in objs:
    for b in objs:
        x = outcome(StreamEncoding.__eq__, a, b)
        y = outcome(original_eq, a, b)
        check(same(x, y), ("pair", a, b, x, y))
        num += 1
    for other in (None, "dummy", 0, LookAlike(), LookAlike, StreamEncoding, (1, 2), object()):
        x = outcome(StreamEncoding.__eq__, a, other)
        y = outcome(original_eq, a, other)
        check(same(x, y), ("foreign", a, other, x, y))
        num += 1

# systematic: all "ordinary" encodings against each other
ordinary = [
    StreamEncoding(e, w, c, s)
    for e in (Endianess.LITTLE, Endianess.BIG)
    for w in (1, 2, 3, 4, 8)
    for c in (0, 1, 2, 3, 4)
    for s in (True, False)
]
for a in ordinary:
    for b in ordinary:
        x = outcome(StreamEncoding.__eq__, a, b)
        y = outcome(original_eq, a, b)
        check(same(x, y), ("ordinary", a, b, x, y))
        # 3. operators, hashing and containers built on __eq__
        check((a == b) is y[1], ("== operator", a, b))
        check((a != b) is (not y[1]), ("!= operator", a, b))
        num += 1
    check(hash(a) == hash((a.endianess, a.sample_width, a.num_interleaved_channels, a.is_signed)),
          ("hash", a))
lookup = {}
for a in ordinary:
    lookup.setdefault(a, []).append(a)
expected_lookup = []
for a in ordinary:
    for key, members in expected_lookup:
        if hash(key) == hash(a) and original_eq(key, a):
            members.append(a)
            break
    else:
        expected_lookup.append((a, [a]))
check(
    [(id(k), [id(m) for m in v]) for k, v in lookup.items()]
    == [(id(k), [id(m) for m in v]) for k, v in expected_lookup],
    "dict grouping"
)


# --------------------------------------------------------------------------
# 2. evaluation order / short-circuit behaviour
# --------------------------------------------------------------------------
LOG = []


class Probe:
    """A field value whose comparisons are logged; the result of a
    comparison is itself a logged truth value."""

    def __init__(self, label, value):
        self.label = label
        self.value = value

    def _cmp(self, op, other, result):
        LOG.append((self.label, op, getattr(other, "label", other)))
        return Truth(self.label + op, result)

    def __eq__(self, other):
        return self._cmp("==", other, self.value == getattr(other, "value", other))

    def __ne__(self, other):
        return self._cmp("!=", other, self.value != getattr(other, "value", other))

    def __gt__(self, other):
        return self._cmp(">", other, self.value > getattr(other, "value", other))

    def __hash__(self):
        return hash(self.value)


class Truth:
    def __init__(self, label, value):
        self.label = label
        self.value = value

    def __bool__(self):
        LOG.append((self.label, "bool", self.value))
        return bool(self.value)

    def __eq__(self, other):
        LOG.append((self.label, "==", getattr(other, "label", other)))
        return Truth(self.label + "==", bool(self.value) == bool(getattr(other, "value", other)))

    def __hash__(self):
        return hash(self.value)


def probe_encoding(tag, e, w, c, s):
    return StreamEncoding(
        Probe(tag + ".endianess", e), Probe(tag + ".width", w),
        Probe(tag + ".channels", c), Probe(tag + ".signed", s)
    )


probe_values = list(itertools.product((1, 2), (1, 2), (1, 2, 3), (True, False)))
for ta in probe_values:
    for tb in probe_values:
        runs = []
        for func in (StreamEncoding.__eq__, original_eq):
            a = probe_encoding("a", *ta)
            b = probe_encoding("b", *tb)
            del LOG[:]
            res = outcome(func, a, b)
            runs.append((res[0], res[1] if res[0] == "ok" else res[1:], list(LOG)))
        check(runs[0][0] == runs[1][0] and runs[0][2] == runs[1][2]
              and (runs[0][1] is runs[1][1] or runs[0][1] == runs[1][1]),
              ("probe", ta, tb, runs))
        num += 1


# --------------------------------------------------------------------------
# 4. the consumers: make_transcoder's pass-through test, export of a merged
#    L/R pair
# --------------------------------------------------------------------------
simple = [
    StreamEncoding(e, w, c, s)
    for e in (Endianess.LITTLE, Endianess.BIG)
    for w in (1, 2, 4)
    for c in (0, 1, 2)
    for s in (True, False)
]
for src in simple:
    for dst in simple:
        data = bytes(range(48))
        res = outcome(make_transcoder, [DataStream(io.BytesIO(data), src)], dst)
        src_channels = max(1, src.num_interleaved_channels)
        if src_channels != dst.num_interleaved_channels:
            check(res[0] == "exc" and res[1].__name__ == "IncompatibleNumberOfChannels",
                  ("transcoder channels", src, dst, res))
            continue
        if src.num_interleaved_channels == 0:
            # frame size 0: get_buffer_sizes divides by it before the
            # pass-through test is reached
            check(res[0] == "exc" and res[1] is ZeroDivisionError,
                  ("transcoder zero frame", src, dst, res))
            continue
        expect_pass = original_eq(src, dst)
        expected_type = PassthroughTranscoder if expect_pass else PipelineTranscoder
        check(res[0] == "ok" and type(res[1]) is expected_type,
              ("transcoder kind", src, dst, res))
        num += 1

tmp_dir = tempfile.mkdtemp(prefix="r18_demo_")
try:
    for trial in range(40):
        width = rng.choice([1, 2])
        n_left = rng.randint(1, 5000)
        n_right = n_left if rng.random() < 0.7 else rng.randint(1, 5000)
        left_bytes = bytes(rng.getrandbits(8) for _ in range(n_left * width))
        right_bytes = bytes(rng.getrandbits(8) for _ in range(n_right * width))
        enc = StreamEncoding(Endianess.LITTLE, width, 1)
        left = Sample(name="S-L", data_streams=[DataStream(io.BytesIO(left_bytes), enc)])
        right = Sample(name="S-R", data_streams=[DataStream(io.BytesIO(right_bytes), enc)])
        merged = combine_stereo(left, right, "S")
        check(merged.num_channels == 2 and merged.data_streams[0] is left.data_streams[0]
              and merged.data_streams[1] is right.data_streams[0], ("merge", trial))
        path = os.path.join(tmp_dir, "S%d.wav" % trial)
        export_wav(merged, path)
        with open(path, "rb") as f:
            blob = f.read()
        pos = blob.find(b"fmt ")
        channel_cnt = struct.unpack("<H", blob[pos + 10:pos + 12])[0]
        check(channel_cnt == 2, ("wav channels", trial, channel_cnt))
        pos = blob.find(b"data")
        size = struct.unpack("<I", blob[pos + 4:pos + 8])[0]
        pcm = blob[pos + 8:pos + 8 + size]
        if n_left == n_right:
            dtype = {1: "int8", 2: "<i2"}[width]
            l_arr = np.frombuffer(left_bytes, dtype=dtype)
            r_arr = np.frombuffer(right_bytes, dtype=dtype)
            expected = np.stack([l_arr, r_arr], axis=1).reshape(-1).tobytes()
            check(pcm == expected, ("wav pcm", trial, len(pcm), len(expected)))
        else:
            frames = len(pcm) // (2 * width)
            got = np.frombuffer(pcm, dtype={1: "int8", 2: "<i2"}[width]).reshape(-1, 2)
            m = min(n_left, n_right, frames)
            # frames before the first short read are copied 1:1
            block = 0x1000 // width
            whole = (min(n_left, n_right) // block) * block
            l_arr = np.frombuffer(left_bytes, dtype={1: "int8", 2: "<i2"}[width])
            r_arr = np.frombuffer(right_bytes, dtype={1: "int8", 2: "<i2"}[width])
            check(np.array_equal(got[:whole, 0], l_arr[:whole])
                  and np.array_equal(got[:whole, 1], r_arr[:whole]),
                  ("wav pcm unequal", trial))
        num += 1
finally:
    shutil.rmtree(tmp_dir, ignore_errors=True)

print(f"r18 demo: {num} comparisons, {len(failures)} mismatches")
sys.exit(1 if failures else 0)
