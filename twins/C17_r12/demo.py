"""Equivalence demo for the refactoring of
smpl_extract.actions.attempt_parse_cue_sheet (property C17: the cue-sheet
attempt made by determine_image_type's ASCII text probe before it falls back
to reading the file as a binary image).

The live function is compared with an inline copy of the ORIGINAL function.
Both run against the same module globals of smpl_extract.actions, in which
`open`, `determine_image_type` and `CompactDiskAudioImageAdapter` are wrapped
by recorders, so that for every input we compare
  * the ordered trace of side effects: which bin file is opened (path, mode),
    which collaborator is then called, with which stream and which parsed cue
    sheet,
  * the returned object (identity of what the collaborator returned),
  * the raised exception (type, args, cause/context types),
in three regimes: everything succeeds (real files), the bin file is missing
(open raises), and the collaborators raise.
Then, without any recorders, determine_image_type / ls_action are run end to
end on real .cue/.bin pairs and compared with precomputed expectations that
do not depend on the refactoring (type of image, track titles, sample counts,
stream offsets and the bytes read through the track streams).
Exit status 0 when everything agrees, 1 otherwise.
"""
import contextlib
import dataclasses
import io
import itertools
import os
import random
import sys
import tempfile

import smpl_extract.actions as live
from smpl_extract.cuesheet import BadCueSheet


# ---- inline copy of the ORIGINAL implementation --------------------------
ORIGINAL_SRC = '''
def attempt_parse_cue_sheet(lines: List[str], directory = ""):
    cue_sheet_file = parse_cue_sheet(lines)
    binary_track = next(
        (x for x in cue_sheet_file.tracks if x.mode.lower() != "audio"),
        None
    )
    if binary_track:
        bin_file_path = os.path.join(directory, cue_sheet_file.bin_file_name)
        bin_file_stream = open(bin_file_path, "rb")
        bin_image = determine_image_type(bin_file_stream)
        return bin_image

    if all((x.mode.lower() == "audio" for x in cue_sheet_file.tracks)):
        bin_file_path = os.path.join(directory, cue_sheet_file.bin_file_name)
        bin_file_stream = open(bin_file_path, "rb")
        image = CompactDiskAudioImageAdapter.from_bin_cue(
            bin_file_stream,
            cue_sheet_file
        )
        return image

    raise BadCueSheet
'''


class _OverlayGlobals(dict):
    """Globals for the original function: its own def, else the live module's
    current globals (so that both functions see the same recorders)."""

    def __missing__(self, key):
        return live.__dict__[key]


_original_namespace = _OverlayGlobals()
_original_namespace["__builtins__"] = __builtins__
exec(compile(ORIGINAL_SRC, "<original actions.py>", "exec"), _original_namespace)
original_attempt_parse_cue_sheet = _original_namespace["attempt_parse_cue_sheet"]
# ---------------------------------------------------------------------------

failures = []
n_checks = 0


def check(label, a, b, what):
    global n_checks
    n_checks += 1
    if a != b:
        failures.append((label, what, a, b))


def plain(value):
    if dataclasses.is_dataclass(value) and not isinstance(value, type):
        return (type(value).__name__,
                tuple((f.name, plain(getattr(value, f.name)))
                      for f in dataclasses.fields(value)))
    if isinstance(value, (list, tuple)):
        return (type(value).__name__, tuple(plain(v) for v in value))
    return (type(value).__name__, value)


# --------------------------------------------------------------------------
# recorders
# --------------------------------------------------------------------------
class Recorder:
    def __init__(self):
        self.events = []
        self.opened = []
        self.fail_in = None          # name of the collaborator that must raise

    def open(self, *args, **kwargs):
        self.events.append(("open", args, tuple(sorted(kwargs.items()))))
        stream = open(*args, **kwargs)     # may raise: that is part of the test
        self.opened.append(stream)
        self.events.append(("opened", stream.name, stream.mode))
        return stream

    def _describe_stream(self, stream):
        return (type(stream).__name__, getattr(stream, "name", None),
                getattr(stream, "mode", None), stream.closed, stream.tell(),
                stream is self.opened[-1] if self.opened else None)

    def determine_image_type(self, file):
        self.events.append(("determine_image_type", self._describe_stream(file)))
        if self.fail_in == "determine_image_type":
            raise RuntimeError("boom in determine_image_type")
        return ("binary image of", file)

    def from_bin_cue(self, bin_file_stream, cue_file):
        self.events.append(("from_bin_cue", self._describe_stream(bin_file_stream),
                            plain(cue_file)))
        if self.fail_in == "from_bin_cue":
            raise BadCueSheet("boom in from_bin_cue")
        return ("audio image of", bin_file_stream, cue_file)

    def close_all(self):
        for stream in self.opened:
            stream.close()


@contextlib.contextmanager
def recording(fail_in=None):
    recorder = Recorder()
    recorder.fail_in = fail_in
    adapter = type("CompactDiskAudioImageAdapter", (),
                   {"from_bin_cue": staticmethod(recorder.from_bin_cue)})
    saved = {name: live.__dict__.get(name, _MISSING)
             for name in ("open", "determine_image_type",
                          "CompactDiskAudioImageAdapter")}
    live.open = recorder.open
    live.determine_image_type = recorder.determine_image_type
    live.CompactDiskAudioImageAdapter = adapter
    try:
        yield recorder
    finally:
        recorder.close_all()
        for name, value in saved.items():
            if value is _MISSING:
                del live.__dict__[name]
            else:
                live.__dict__[name] = value


_MISSING = object()


def describe_result(value, recorder):
    if isinstance(value, tuple) and value and isinstance(value[0], str):
        head = value[0]
        stream = value[1]
        rest = tuple(plain(v) for v in value[2:])
        return (head, stream is recorder.opened[-1], rest)
    return ("other", repr(value))


def run(function, lines, directory, fail_in, pass_directory=True):
    with recording(fail_in) as recorder:
        argument = list(lines)
        try:
            if pass_directory:
                value = function(argument, directory)
            else:
                value = function(argument)
            outcome = ("ok", describe_result(value, recorder))
        except BaseException as e:  # noqa: BLE001 - compare whatever is raised
            outcome = ("raise", type(e).__name__,
                       tuple(str(a) for a in e.args),
                       type(e.__cause__).__name__, type(e.__context__).__name__,
                       e.__suppress_context__)
        return outcome, tuple(recorder.events), tuple(argument)


# --------------------------------------------------------------------------
# inputs
# --------------------------------------------------------------------------
MODES = ["AUDIO", "audio", "Audio", "aUdIo", "MODE1/2352", "mode1/2048",
         "MODE2/2336", "CDG", "AUDIOX", "AUDI", "AUD/IO", "_audio", "AUDIO_",
         "[audio]", "AUDİO", "audıo", "ＡＵＤＩＯ", "AUDIO1", "0"]


def sheet(bin_name, modes, titles=True, file_keyword='FILE', kind="BINARY"):
    lines = ['%s "%s" %s\n' % (file_keyword, bin_name, kind)]
    for number, mode in enumerate(modes, start=1):
        lines.append("  TRACK %02d %s\n" % (number, mode))
        if titles and number % 2:
            lines.append('    TITLE "Title %d"\n' % number)
        lines.append("    INDEX 01 %02d:%02d:%02d\n" % (number - 1, 0, 0))
    return lines


def sheets(rng, present, absent):
    for bin_name in (present, absent):
        yield sheet(bin_name, [])                       # FILE without tracks
        for mode in MODES:
            yield sheet(bin_name, [mode])
        for pair in itertools.product(MODES[:9], repeat=2):
            yield sheet(bin_name, list(pair))
        for _ in range(150):
            yield sheet(bin_name, [rng.choice(MODES)
                                   for _ in range(rng.randrange(1, 7))],
                        titles=rng.random() < 0.5)
        # cosmetic variations named by the property
        base = sheet(bin_name, ["AUDIO", "MODE1/2352", "AUDIO"])
        for transform in (str.lower, str.upper, str.swapcase,
                          lambda s: "   " + s, lambda s: s.replace(" ", "\t")):
            # the bin file name must survive (case matters on disk)
            yield [base[0]] + [transform(line) for line in base[1:]]
        for position in range(len(base) + 1):
            for unknown in ("REM x\n", "\n", 'PERFORMER "p"\n', "FLAGS DCP\n",
                            "PREGAP 00:02:00\n"):
                yield base[:position] + [unknown] + base[position:]
        audio = sheet(bin_name, ["AUDIO", "audio", "Audio"])
        for position in range(len(audio) + 1):
            yield audio[:position] + ["REM y\n"] + audio[position:]
        # two FILE entries: only the first one counts
        yield sheet(bin_name, ["AUDIO"]) + sheet(absent, ["MODE1/2352"])
        yield sheet(bin_name, ["MODE1/2352"]) + sheet(absent, ["AUDIO"])
    # not cue sheets at all / broken
    yield []
    yield ["\n", "  \n"]
    yield ["hello world\n"]
    yield ["TRACK 01 AUDIO\n", "INDEX 01 00:00:00\n"]
    yield sheet(present, ["AUDIO"], kind="WAVE")
    yield sheet(present, ["AUDIO"], file_keyword="FILES")
    yield ['FILE "%s" BINARY\n' % present, "REM no track line follows\n"]
    yield ['FILE "%s" BINARY\n' % present, "TRACK xx AUDIO\n"]
    yield ['FILE "" BINARY\n', "TRACK 01 AUDIO\n"]      # opens the directory
    yield ['FILE "" BINARY\n', "TRACK 01 MODE1/2352\n"]
    yield ['FILE "sub/dir/x.bin" BINARY\n', "TRACK 01 AUDIO\n"]
    yield ['FILE "bad\x00name.bin" BINARY\n', "TRACK 01 AUDIO\n"]
    yield ['FILE "bad\x00name.bin" BINARY\n', "TRACK 01 MODE1/2352\n"]
    yield ['FILE "%s" BINARY\n' % present, "TRACK %s AUDIO\n" % ("9" * 5000)]


# --------------------------------------------------------------------------
# end-to-end (no recorders): expectations computed independently
# --------------------------------------------------------------------------
BYTES_PER_FRAME = 2352
SAMPLES_PER_FRAME = 588


def end_to_end(directory):
    n_frames_total = 40
    payload = bytes((i * 7 + (i >> 8)) & 0xFF
                    for i in range(n_frames_total * BYTES_PER_FRAME + 100))
    bin_path = os.path.join(directory, "audio.bin")
    with open(bin_path, "wb") as f:
        f.write(payload)

    starts = [0, 10, 25]                      # frames (INDEX 01 mm:ss:ff)
    cue_lines = ['REM GENRE test\n', 'file "audio.bin" binary\n']
    for number, start in enumerate(starts, start=1):
        cue_lines.append("  track %02d Audio\n" % number)
        cue_lines.append("    FLAGS DCP\n")
        if number != 2:
            cue_lines.append('    title "Song %d"\n' % number)
        cue_lines.append("\n")
        cue_lines.append("    INDEX 01 00:00:%02d\n" % start)
    cue_path = os.path.join(directory, "audio.cue")
    with open(cue_path, "w", encoding="ascii") as f:
        f.writelines(cue_lines)

    expected_titles = ["Song 1", "Untitled Track 2", "Song 3"]
    bounds = [f * BYTES_PER_FRAME for f in starts] + [len(payload)]

    for how in ("determine_image_type", "attempt_parse_cue_sheet"):
        if how == "determine_image_type":
            image = live.determine_image_type(cue_path)
        else:
            image = live.attempt_parse_cue_sheet(list(cue_lines), directory)
        check(how, type(image).__name__, "CompactDiskAudioImage", "image type")
        tracks = image.tracks
        check(how, [t.title for t in tracks], expected_titles, "titles")
        for i, track in enumerate(tracks):
            size = bounds[i + 1] - bounds[i]
            check(how, track.num_audio_samples,
                  SAMPLES_PER_FRAME * (size // BYTES_PER_FRAME), "sample count")
            stream = track._data_stream
            stream.seek(0)
            check(how, stream.read(size), payload[bounds[i]:bounds[i + 1]],
                  "bytes of track %d" % i)

    # ls_action prints the listing of the cue's image
    captured = io.StringIO()
    with contextlib.redirect_stdout(captured):
        live.ls_action(cue_path, "")
    listing = captured.getvalue()
    for title in expected_titles:
        check("ls_action", title in listing, True, "title listed: " + title)

    # a cue sheet with a data track hands the bin file to the binary probes:
    # the same object type / exception as probing the bin file directly
    data_cue = os.path.join(directory, "data.cue")
    with open(data_cue, "w", encoding="ascii") as f:
        f.writelines(['FILE "audio.bin" BINARY\n', "  TRACK 01 MODE1/2352\n",
                      "    INDEX 01 00:00:00\n", "  TRACK 02 AUDIO\n",
                      "    INDEX 01 00:00:20\n"])

    def outcome_of(argument):
        try:
            return ("ok", type(live.determine_image_type(argument)).__name__)
        except Exception as e:  # noqa: BLE001
            return ("raise", type(e).__name__, str(e))
    check("data cue", outcome_of(data_cue), outcome_of(bin_path),
          "cue with data track == probing the bin directly")

    # missing bin file: FileNotFoundError escapes (it is not a BadCueSheet)
    for mode in ("AUDIO", "MODE1/2352"):
        missing_cue = os.path.join(directory, "missing_%s.cue" % mode[:4])
        with open(missing_cue, "w", encoding="ascii") as f:
            f.writelines(['FILE "nowhere.bin" BINARY\n', "TRACK 01 %s\n" % mode,
                          "INDEX 01 00:00:00\n"])
        outcome = outcome_of(missing_cue)
        check("missing bin", outcome[:2], ("raise", "FileNotFoundError"), mode)

    # text that is not a cue sheet falls back to the binary probes
    text_path = os.path.join(directory, "plain.txt")
    with open(text_path, "w", encoding="ascii") as f:
        f.write("just some text\nTRACK 01 AUDIO\n")
    with open(text_path, "rb") as f:
        check("fallback", outcome_of(text_path), outcome_of(f),
              "text without FILE line is probed as binary")


def main():
    rng = random.Random(1712)
    n_inputs = 0
    with tempfile.TemporaryDirectory() as directory:
        present = "present.bin"
        with open(os.path.join(directory, present), "wb") as f:
            f.write(bytes(range(256)) * 64)
        absent = "absent.bin"

        all_sheets = list(sheets(rng, present, absent))
        for lines in all_sheets:
            for fail_in in (None, "determine_image_type", "from_bin_cue"):
                expected = run(original_attempt_parse_cue_sheet, lines,
                               directory, fail_in)
                actual = run(live.attempt_parse_cue_sheet, lines,
                             directory, fail_in)
                check("attempt_parse_cue_sheet/%s" % fail_in, expected, actual,
                      lines)
                n_inputs += 1
                # the original's trailing `raise BadCueSheet` is never reached:
                # whenever the sheet itself parses, BadCueSheet is not raised
                if fail_in is None:
                    try:
                        live.parse_cue_sheet(list(lines))
                    except BadCueSheet:
                        pass
                    except Exception:  # noqa: BLE001 - e.g. ValueError from int()
                        pass
                    else:
                        check("dead branch", expected[0][:2] == ("raise", "BadCueSheet"),
                              False, lines)
        # default directory argument ("" -> relative to the working directory)
        previous = os.getcwd()
        for cwd in (directory, previous):
            os.chdir(cwd)
            try:
                for lines in all_sheets[:60]:
                    expected = run(original_attempt_parse_cue_sheet, lines,
                                   None, None, pass_directory=False)
                    actual = run(live.attempt_parse_cue_sheet, lines,
                                 None, None, pass_directory=False)
                    check("attempt_parse_cue_sheet/default dir", expected,
                          actual, lines)
                    n_inputs += 1
            finally:
                os.chdir(previous)
        # odd directory arguments
        for odd in (None, 5, b"bytes", os.path.join(directory, "nope"),
                    directory + os.sep):
            for lines in (sheet(present, ["AUDIO"]), sheet(present, ["CDG"]),
                          ["nothing\n"]):
                expected = run(original_attempt_parse_cue_sheet, lines, odd, None)
                actual = run(live.attempt_parse_cue_sheet, lines, odd, None)
                check("attempt_parse_cue_sheet/odd directory", expected, actual,
                      (odd, lines))
                n_inputs += 1

        # sanity of the demo itself: the recorders did see both paths
        seen = set()
        for lines in all_sheets:
            _, events, _ = run(live.attempt_parse_cue_sheet, lines, directory, None)
            seen.update(event[0] for event in events)
        check("coverage", seen >= {"open", "opened", "determine_image_type",
                                   "from_bin_cue"}, True, sorted(seen))

        end_to_end(directory)

    print("inputs: %d; checks: %d; failures: %d"
          % (n_inputs, n_checks, len(failures)))
    for failure in failures[:10]:
        print("MISMATCH", repr(failure)[:700])
    return 1 if failures else 0


if __name__ == "__main__":
    sys.exit(main())
