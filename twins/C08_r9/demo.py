"""Equivalence demo for r9 (StreamWrapper.read).

The ORIGINAL body of StreamWrapper.read is pasted below into a mixin that is
put in front of every view class (plain wrapper, offset window, reversed view,
sector stream, chained file stream, raw-sector MDF view).  Identical stacks of
views (nesting depth 1..4) are built twice - once from the library classes,
once from the classes carrying the original read - over recording byte
streams, and identical seek/tell/read histories are run through both.
Compared: every return value, every exception (type and text), the state
attributes position/true_size/end_of_file of every layer after each step and
the exact sequence of seek/tell/read calls that reached the underlying image.
Where the stack has a simple byte model the result is also checked against it.
Exit 0 = all agree, 1 = mismatch.
"""
import itertools
import random
import sys
from io import BytesIO, SEEK_CUR, SEEK_END, SEEK_SET
from typing import Union

from smpl_extract.alcohol.mdf import MdfStream
from smpl_extract.util.fat import FileStream
from smpl_extract.util.sector import SectorStream
from smpl_extract.util.stream import StreamOffset
from smpl_extract.util.stream import StreamReversed
from smpl_extract.util.stream import StreamWrapper


class OrigRead:
    """Original StreamWrapper.read, verbatim."""

    def read(self, size: Union[int, None])->bytes:

        if size is None or size < 0:
            return self.readall()

        self.true_size = size
        if self.end_of_file is not None:  # as in the tree after the empty-view fix
            self.true_size = min(self.end_of_file - self.position, size)
        if self.true_size < 0:
            self.true_size = 0

        true_position = self.substream.tell()
        expected_position = self._translate_addr(self.position)
        if expected_position != true_position:
            self._seek(self.position)

        result = self._read(self.true_size)
        self.position += self.true_size
        return result


NEW = {
    "wrap": StreamWrapper, "off": StreamOffset, "rev": StreamReversed,
    "sec": SectorStream, "file": FileStream, "mdf": MdfStream,
}
OLD = {k: type("Orig" + c.__name__, (OrigRead, c), {}) for k, c in NEW.items()}


class Budget(Exception):
    """Raised identically on both sides when one call loops without end
    (an empty reversed view over a clamping view re-reads offset 0 forever
    in readall - library behaviour outside the property's 'non-empty')."""


class Recorder(BytesIO):
    LIMIT = 4000

    def __init__(self, data):
        super().__init__(data)
        self.log = []
        self.calls = 0

    def _tick(self):
        self.calls += 1
        if self.calls > self.LIMIT:
            raise Budget("too many calls on the image within one operation")

    def seek(self, *a):
        self._tick()
        r = super().seek(*a)
        self.log.append(("seek", a, r))
        return r

    def tell(self):
        self._tick()
        r = super().tell()
        self.log.append(("tell", r))
        return r

    def read(self, *a):
        self._tick()
        r = super().read(*a)
        self.log.append(("read", a, r))
        return r


def call(fn, *a, **k):
    try:
        return ("ok", fn(*a, **k))
    except Exception as e:  # noqa: BLE001
        return ("exc", type(e).__name__, str(e))


def random_layer(rng, length):
    """Return (spec, logical_length_of_the_new_view)."""
    kind = rng.choice(["wrap", "off", "rev", "sec", "file", "mdf"])
    if kind == "wrap":
        size = rng.choice([length, max(length - 1, 0), length + 2, 0])
        return ("wrap", dict(size=size)), min(size, length) if size > 0 else length
    if kind == "off":
        off = rng.randint(0, max(length, 1))
        size = rng.randint(0, max(length - off, 0) + 1)
        return ("off", dict(size=size, offset=off)), size
    if kind == "rev":
        width = rng.choice([1, 1, 2, 3, 4])
        size = rng.randint(0, length)
        if rng.random() < 0.8:
            size -= size % width
        return ("rev", dict(size=size, sample_width=width)), size
    if kind == "sec":
        sl = rng.randint(1, 9)
        size = rng.randint(0, length + 1)
        return ("sec", dict(size=size, sector_length=sl)), size
    if kind == "file":
        ss = rng.randint(1, 8)
        avail = length // ss
        n = rng.randint(0, min(avail, 6))
        chain = rng.sample(range(avail), n) if avail else []
        if chain and rng.random() < 0.1:
            chain[rng.randrange(len(chain))] = avail + 3   # beyond the parent
        return ("file", dict(sector_size=ss, sector_list=chain)), ss * len(chain)
    return ("mdf", dict()), (length // 2352) * 2048


def build(classes, base, specs, cursor):
    stream = base
    layers = []
    for (kind, kw), (pos, buf) in zip(specs, cursor):
        kw = dict(kw)
        if kind == "file":
            kw["sector_list"] = list(kw["sector_list"])
        stream = classes[kind](stream, position=pos, buffer_length=buf, **kw)
        layers.append(stream)
    return stream, layers


def state(layers):
    return [(l.position, l.true_size, l.end_of_file) for l in layers]


def random_ops(rng, length, n):
    ops = []
    for _ in range(n):
        r = rng.random()
        if r < 0.45:
            ops.append(("read", (rng.choice(
                [0, 1, 2, 3, 4, 5, 7, 8, 16, length, length + 1, max(length - 1, 0),
                 rng.randint(0, length + 3)]),)))
        elif r < 0.52:
            ops.append(("read", (rng.choice([None, -1, -5]),)))
        elif r < 0.60:
            ops.append(("tell", ()))
        elif r < 0.63:
            ops.append(("readall", ()))
        else:
            whence = rng.choice([SEEK_SET, SEEK_CUR, SEEK_END])
            off = rng.randint(-length - 2, length + 2)
            if rng.random() < 0.2:
                ops.append(("seek", (off,)))          # default whence
            else:
                ops.append(("seek", (off, whence)))
    return ops


def run_pair(data, specs, cursor, ops, label):
    base_new, base_old = Recorder(data), Recorder(data)
    made_new = call(build, NEW, base_new, specs, cursor)
    made_old = call(build, OLD, base_old, specs, cursor)
    if made_new[0] != made_old[0] or (made_new[0] == "exc" and made_new != made_old):
        print("MISMATCH construct", label, made_new, made_old)
        return False
    if base_new.log != base_old.log:
        print("MISMATCH construct log", label)
        return False
    if made_new[0] == "exc":
        return True
    (top_new, layers_new), (top_old, layers_old) = made_new[1], made_old[1]
    for i, (name, args) in enumerate(ops):
        base_new.calls = base_old.calls = 0
        res_new = call(getattr(top_new, name), *args)
        res_old = call(getattr(top_old, name), *args)
        if res_new != res_old:
            print("MISMATCH result", label, i, name, args, res_new, res_old)
            return False
        if res_new[0] == "ok" and type(res_new[1]) is not type(res_old[1]):
            print("MISMATCH type", label, i, name, args)
            return False
        if state(layers_new) != state(layers_old):
            print("MISMATCH state", label, i, name, args,
                  state(layers_new), state(layers_old))
            return False
        if base_new.log != base_old.log:
            print("MISMATCH base log", label, i, name, args)
            return False
    return True


def model_check():
    """Plain views against a bytes model (file semantics, clipped reads)."""
    ok = True
    rng = random.Random(808)
    for trial in range(400):
        data = bytes(rng.randrange(256) for _ in range(rng.randint(1, 60)))
        kind = rng.choice(["off", "sec", "file"])
        if kind == "off":
            off = rng.randint(0, len(data) - 1)
            size = rng.randint(1, len(data) - off)
            view = StreamOffset(BytesIO(data), size, off)
            logical = data[off:off + size]
        elif kind == "sec":
            sl = rng.randint(1, 7)
            size = rng.randint(1, len(data))
            view = SectorStream(BytesIO(data), size, sl)
            logical = data[:size]
        else:
            ss = rng.randint(1, 6)
            avail = len(data) // ss
            if not avail:
                continue
            chain = rng.sample(range(avail), rng.randint(1, avail))
            view = FileStream(BytesIO(data), ss, chain)
            logical = b"".join(data[s * ss:(s + 1) * ss] for s in chain)
        pos = 0
        for _ in range(40):
            if rng.random() < 0.5:
                n = rng.randint(0, len(logical) + 2)
                if kind == "file" and pos == len(logical) and n > 0 and False:
                    continue
                got = call(view.read, n)
                want = logical[pos:pos + n]
                if got[0] == "ok":
                    if got[1] != want or view.tell() != pos + len(want):
                        print("MODEL mismatch", kind, trial, pos, n)
                        ok = False
                    pos += len(want)
                else:
                    # the library's own known quirks raise; cursor model stops
                    break
            else:
                whence = rng.choice([SEEK_SET, SEEK_CUR, SEEK_END])
                off = rng.randint(-len(logical) - 1, len(logical) + 1)
                start = {SEEK_SET: 0, SEEK_CUR: pos, SEEK_END: len(logical)}[whence]
                want = min(max(start + off, 0), len(logical))
                got = call(view.seek, off, whence)
                if got[0] != "ok":
                    break
                if got[1] != want or view.tell() != want:
                    print("MODEL seek mismatch", kind, trial)
                    ok = False
                pos = want
    return ok


def main():
    ok = True
    rng = random.Random(20240909)

    # 1. exhaustive short histories over tiny single-layer views
    tiny = bytes(range(1, 13))
    tiny_specs = [
        [("wrap", dict(size=12))], [("wrap", dict(size=0))], [("wrap", dict(size=5))],
        [("off", dict(size=6, offset=3))], [("off", dict(size=0, offset=3))],
        [("rev", dict(size=12, sample_width=2))], [("rev", dict(size=12, sample_width=3))],
        [("rev", dict(size=6, sample_width=1))],
        [("sec", dict(size=10, sector_length=3))], [("sec", dict(size=12, sector_length=4))],
        [("file", dict(sector_size=3, sector_list=[2, 0, 3]))],
        [("file", dict(sector_size=4, sector_list=[1]))],
        [("file", dict(sector_size=4, sector_list=[]))],
        [("off", dict(size=9, offset=2)), ("file", dict(sector_size=3, sector_list=[1, 0]))],
        [("file", dict(sector_size=4, sector_list=[2, 0])), ("rev", dict(size=8, sample_width=2))],
    ]
    alphabet = [("read", (0,)), ("read", (1,)), ("read", (2,)), ("read", (3,)),
                ("read", (7,)), ("read", (None,)), ("read", (-1,)), ("tell", ()),
                ("seek", (0, SEEK_SET)), ("seek", (4, SEEK_SET)), ("seek", (-2, SEEK_CUR)),
                ("seek", (1,)), ("seek", (0, SEEK_END)), ("seek", (-3, SEEK_END)),
                ("seek", (99, SEEK_SET))]
    count = 0
    for specs in tiny_specs:
        cursor = [(0, 4)] * len(specs)
        for n in (1, 2, 3):
            for ops in itertools.product(alphabet, repeat=n):
                ok &= run_pair(tiny, specs, cursor, ops, ("tiny", specs))
                count += 1

    # 2. long random histories over random nestings up to depth 4
    for trial in range(1500):
        if rng.random() < 0.25:
            length = rng.choice([2352, 2352 * 2, 2352 * 3 + 100])
        else:
            length = rng.randint(0, 200)
        data = bytes(rng.randrange(256) for _ in range(length))
        specs, cursor, cur_len = [], [], length
        for depth in range(rng.randint(1, 4)):
            spec, cur_len = random_layer(rng, cur_len)
            specs.append(spec)
            cursor.append((rng.choice([0, 0, 0, 1, 3, cur_len]), rng.choice([1, 2, 5, 16, 0x1000])))
        ops = random_ops(rng, min(cur_len, 300), rng.randint(5, 60))
        ok &= run_pair(data, specs, cursor, ops, ("rand", trial, specs))
        count += 1

    # 3. odd argument types reach the same exceptions / values
    for specs in tiny_specs[:4]:
        for arg in (True, False, 2.0, 2.5, "3", b"1", [], float("nan"), float("inf")):
            ok &= run_pair(tiny, specs, [(0, 4)] * len(specs),
                           [("read", (arg,)), ("tell", ()), ("read", (1,))],
                           ("odd", specs, arg))
            count += 1

    ok &= model_check()
    print("compared", count, "histories:", "all agree" if ok else "MISMATCH")
    return 0 if ok else 1


if __name__ == "__main__":
    sys.exit(main())
