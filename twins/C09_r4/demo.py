"""Equivalence demo for r4 (smpl_extract/roland/s7xx/image.py:
is_roland_s7xx_image and its helper IdAreaAdapter._decode).

An inline copy of the ORIGINAL adapter and signature test is driven side by
side with the tree's versions.  Inputs: valid ID areas with many spellings of
the signature / version / copyright strings, near misses, every truncation,
single-byte corruptions (including non-ASCII bytes), random data, all of them
as plain streams and behind the MDF / MDX container streams, from several
initial stream positions, plus streams whose tell/seek/read fail.
Compared: return values, decoded IdArea objects, exception type and message,
final stream position and the full trace of tell/seek/read calls.
Exit status 0 when everything agrees, 1 otherwise.
"""
import io
import random
import re
import sys
from io import SEEK_SET
from typing import List, Match, cast

from construct.core import Adapter
from construct.core import ConstructError

from smpl_extract.alcohol.mdf import MDF_SECTOR_HEADER_MAGIC, MdfStream
from smpl_extract.alcohol.mdx import MdxHeaderConstruct, MdxStream
from smpl_extract.roland.s7xx import image as tree
from smpl_extract.roland.s7xx.image import IdArea, IdAreaContainer, IdAreaStruct


# ---- ORIGINAL implementation (verbatim copy) ------------------------------
class OrigIdAreaAdapter(Adapter):

    _S7XX_REGEX = re.compile(r"\s*S7\d\d\s+MR25A", flags=re.I)
    _VERSION_REGEX = re.compile(
        r"\s*([Ss][A-z]*-\d+)\s+([A-z\s\-]*?Disk)\s?([A-z\s]*?)\s+Ver\.?\s*(\d(\.\d+)?[\w-]*)\s*",
        flags=re.I
    )
    _COPYRIGHT_REGEX = re.compile(r"\s*Copyright\s+Roland", flags=re.I)

    def _decode(self, obj, context, path) -> IdArea:
        del context, path  # unused

        container = cast(IdAreaContainer, obj)

        verifications = (
            (container.s7xx_str, self._S7XX_REGEX),
            (container.version_str, self._VERSION_REGEX),
            (container.copyright_str, self._COPYRIGHT_REGEX)
        )
        match_results: List[Match[str]] = []

        for test_str, regex in verifications:
            match_result = regex.match(test_str)
            if not match_result:
                raise ConstructError

            match_results.append(match_result)

        model_version = match_results[1].groups()[0]
        disk_type = match_results[1].groups()[1]
        disk_version = match_results[1].groups()[3]

        result = IdArea(
            revision=container.revision,
            model_version=model_version,
            disk_type=disk_type,
            disk_version=disk_version,
            disk_name=container.disk_name,
            disk_capacity=container.disk_capacity,
            num_volumes=container.num_volumes,
            num_performances=container.num_performances,
            num_patches=container.num_patches,
            num_partials=container.num_partials,
            num_samples=container.num_samples
        )

        return result

    def _encode(self, obj, context, path):
        raise NotImplementedError


OrigIdAreaAdapterParser = OrigIdAreaAdapter(IdAreaStruct)


def orig_is_roland_s7xx_image(stream) -> bool:
    stream_head = stream.tell()
    stream.seek(0, SEEK_SET)

    result = True
    try:
        OrigIdAreaAdapterParser.parse_stream(stream)  # type: ignore
    except (ConstructError, UnicodeDecodeError) as e:
        result = False

    stream.seek(stream_head, SEEK_SET)
    return result


# ---------------------------------------------------------------------------
class Traced(io.BytesIO):
    def __init__(self, data, fail=None, fail_at=0):
        super().__init__(data)
        self.log = []
        self.fail = fail
        self.fail_at = fail_at
        self.count = {"tell": 0, "seek": 0, "read": 0}

    def _maybe_fail(self, op):
        self.count[op] += 1
        if self.fail == op and self.count[op] > self.fail_at:
            self.log.append(("fail", op))
            raise OSError(f"injected {op} failure")

    def tell(self):
        self._maybe_fail("tell")
        r = super().tell()
        self.log.append(("tell", r))
        return r

    def seek(self, *a):
        self._maybe_fail("seek")
        r = super().seek(*a)
        self.log.append(("seek", a, r))
        return r

    def read(self, *a):
        self._maybe_fail("read")
        r = super().read(*a)
        self.log.append(("read", a, len(r)))
        return r


def call(f, *a, **k):
    try:
        return ("ok", f(*a, **k))
    except Exception as e:  # noqa
        return ("exc", type(e).__name__, str(e))


failures = 0
checked = 0
outcomes = {}


def check(label, a, b):
    global failures, checked
    checked += 1
    if a != b:
        failures += 1
        print("MISMATCH", label, repr(a)[:300], repr(b)[:300])


def id_area(s7xx="S770 MR25A", version="S-770 Hard Disk Ver. 2.25",
            copyright_="Copyright Roland", disk_name="DEMO", empty=""):
    return IdAreaStruct.build(dict(
        revision=0x01020304, s7xx_str=s7xx[:10], empty_str=empty[:15],
        version_str=version[:31], copyright_str=copyright_[:31],
        disk_name=disk_name[:16],
        disk_capacity=0xCAFE, num_volumes=1, num_performances=2,
        num_patches=3, num_partials=4, num_samples=5))


def wrap_mdf(data):
    out = bytearray()
    n = (len(data) + 2047) // 2048
    for i in range(n):
        body = data[i * 2048:(i + 1) * 2048].ljust(2048, b"\x00")
        out += MDF_SECTOR_HEADER_MAGIC + i.to_bytes(3, "big") + b"\x01"
        out += body + bytes(288)
    return bytes(out)


def wrap_mdx(data):
    hdr = MdxHeaderConstruct.build(dict(
        copyright=b"\xA9" + b" " * 25, eof=64 + len(data)))
    return hdr + data


rng = random.Random(770)

s7xx_variants = ["S770 MR25A", "s750 mr25a", " S760  MR25A", "S7700MR25A",
                 "S77 MR25A", "S770MR25A", "X770 MR25A", "", "S770 MR25"]
version_variants = [
    "S-770 Hard Disk Ver. 2.25", "S-750 CD-ROM Disk Ver 1.0",
    "s-760 hard disk ver.2", "S-770 Disk Ver. 2.25-beta",
    "SP-700 MO Disk  Sound Ver 3", "S-770 Hard Disk Ver.", "S-770 Ver. 2.25",
    "S770 Hard Disk Ver. 2.25", "  S-7 Disk x Ver.1.05a  ", "",
    "S-770 Hard Disk Version 2", "S-770 Hard Disk Ver. x",
    "S_^-1 [\\] Disk Ver 9.9_z",
]
copyright_variants = ["Copyright Roland", "copyright  roland corp.",
                      " Copyright Roland", "Copyright", "(c) Roland", ""]

blobs = []
for a in s7xx_variants:
    for b in version_variants:
        for c in copyright_variants:
            blobs.append(id_area(a, b, c))
good = id_area()
blobs.append(good + bytes(1536))
blobs.append(good + bytes(5000))
for cut in list(range(0, 40)) + list(range(40, len(good) + 2, 7)):
    blobs.append(good[:cut])
for _ in range(600):                       # single byte corruptions
    m = bytearray(good + bytes(100))
    i = rng.randrange(0, 120)
    m[i] = rng.choice((0x00, 0x20, 0x7F, 0x80, 0xFF, rng.randrange(256)))
    blobs.append(bytes(m))
for n in (0, 1, 16, 300, 2048, 4097):
    blobs.append(bytes(rng.randrange(256) for _ in range(n)))
    blobs.append(bytes(n))


def both(label, make):
    """make() -> (stream_under_test, traced_base)"""
    s1, t1 = make()
    s2, t2 = make()
    r1 = call(orig_is_roland_s7xx_image, s1)
    r2 = call(tree.is_roland_s7xx_image, s2)
    outcomes[r1[:2]] = outcomes.get(r1[:2], 0) + 1
    check(label + " result", r1, r2)
    check(label + " log", t1.log, t2.log)
    check(label + " basepos", io.BytesIO.tell(t1), io.BytesIO.tell(t2))
    check(label + " pos", call(s1.tell), call(s2.tell))


for bi, blob in enumerate(blobs):
    # decoded value / exception of the adapter itself
    p1 = call(OrigIdAreaAdapterParser.parse, blob)
    p2 = call(tree.IdAreaAdapterParser.parse, blob)
    check(f"parse {bi}", p1, p2)
    if p1[0] == "ok":
        check(f"parse type {bi}", type(p1[1]), type(p2[1]))

    for pos in sorted({0, 3, 256, len(blob)}):
        if pos > len(blob):
            continue

        def plain(blob=blob, pos=pos):
            t = Traced(blob)
            io.BytesIO.seek(t, pos)
            return t, t
        both(f"plain {bi}@{pos}", plain)

    if bi % 7 == 0:
        def in_mdf(blob=blob):
            t = Traced(wrap_mdf(blob))
            s = MdfStream(t)
            t.log.clear()
            return s, t
        both(f"mdf {bi}", in_mdf)

        def in_mdx(blob=blob):
            t = Traced(wrap_mdx(blob))
            s = MdxStream(t)
            t.log.clear()
            return s, t
        both(f"mdx {bi}", in_mdx)

        def in_mdf_moved(blob=blob):
            t = Traced(wrap_mdf(blob))
            s = MdfStream(t)
            s.seek(min(100, s.end_of_file), SEEK_SET)
            t.log.clear()
            return s, t
        both(f"mdf moved {bi}", in_mdf_moved)

# failing streams: exceptions other than the two caught ones must propagate
# identically and leave the stream in the same place
for blob in (good + bytes(100), good[:50], bytes(600)):
    for op in ("tell", "seek", "read"):
        for fail_at in (0, 1, 2, 5):
            def failing(blob=blob, op=op, fail_at=fail_at):
                t = Traced(blob, fail=op, fail_at=fail_at)
                return t, t
            s1, t1 = failing()
            s2, t2 = failing()
            r1 = call(orig_is_roland_s7xx_image, s1)
            r2 = call(tree.is_roland_s7xx_image, s2)
            outcomes[r1[:2]] = outcomes.get(r1[:2], 0) + 1
            check(f"fail {op}@{fail_at}", r1, r2)
            check(f"fail log {op}@{fail_at}", t1.log, t2.log)
            check(f"fail pos {op}@{fail_at}", io.BytesIO.tell(t1), io.BytesIO.tell(t2))

for k in sorted(outcomes, key=str):
    print("  outcome", k, outcomes[k])
print(f"checked {checked} comparisons, {failures} mismatches")
sys.exit(1 if failures else 0)
