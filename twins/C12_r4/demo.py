"""Equivalence demo for r4: get_num_frames_possible / get_buffer_sizes (block
sizing).  Compares the functions in smpl_extract.transcoder against inline
copies of the ORIGINAL implementations on many inputs (results, result types,
exceptions), then checks that make_transcoder() still yields exactly the block
sequence the original sizing predicts (passthrough and pipeline transcoders).
Exit 0 = all agree.
"""
from io import BytesIO
import itertools
import random
import sys
from typing import List

from smpl_extract import transcoder as T
from smpl_extract.data_streams import DataStream
from smpl_extract.data_streams import Endianess
from smpl_extract.data_streams import StreamEncoding

_DEFAULT_BUFFER_SIZE = 0x1000


# ---------------------------------------------------------------- original
def orig_get_num_frames_possible(
        stream: DataStream,
        target_size: int = _DEFAULT_BUFFER_SIZE
) -> int:
    frame_size = stream.frame_size
    num_frames = max(1, target_size // frame_size)
    return num_frames


def orig_get_buffer_sizes(streams: List[DataStream]) -> List[int]:
    num_frames = min(list(orig_get_num_frames_possible(x) for x in streams))
    buffer_sizes = list(num_frames * x.frame_size for x in streams)
    return buffer_sizes


failures = 0
cases = 0


def fail(*msg):
    global failures
    failures += 1
    if failures <= 5:
        print("MISMATCH", *msg)


def call(fn, *args, **kw):
    try:
        r = fn(*args, **kw)
    except Exception as e:  # noqa: BLE001
        return ("exc", type(e).__name__, str(e))
    if isinstance(r, list):
        return ("ok", "list", [(type(v).__name__, repr(v)) for v in r])
    return ("ok", type(r).__name__, repr(r))


def ds(width, nch, order=Endianess.LITTLE, data=b""):
    return DataStream(BytesIO(data), StreamEncoding(order, width, nch, True))


class FakeStream:
    """Only has frame_size - enough for the sizing functions."""
    def __init__(self, frame_size):
        self.frame_size = frame_size


class NoFrameSize:
    pass


rng = random.Random(1204)

# ---- 1. get_num_frames_possible
frame_sizes = [1, 2, 3, 4, 6, 8, 12, 16, 24, 4095, 4096, 4097, 5000, 8192,
               10**6, 0, -1, -3, 2.0, 0.5, True]
targets = [0, 1, 2, 3, 4, 7, 8, 4095, 4096, 4097, 8192, 65536, -1, -4096,
           4096.0, 10.5, True]
for fs in frame_sizes:
    cases += 1
    if call(orig_get_num_frames_possible, FakeStream(fs)) != \
            call(T.get_num_frames_possible, FakeStream(fs)):
        fail("nfp default", fs)
    for t in targets:
        cases += 1
        if call(orig_get_num_frames_possible, FakeStream(fs), t) != \
                call(T.get_num_frames_possible, FakeStream(fs), t):
            fail("nfp positional", fs, t)
        if call(orig_get_num_frames_possible, FakeStream(fs), target_size=t) != \
                call(T.get_num_frames_possible, FakeStream(fs), target_size=t):
            fail("nfp keyword", fs, t)
for width, nch in itertools.product((1, 2, 3, 4, 8), (0, 1, 2, 3, 4, 600, 5000)):
    cases += 1
    if call(orig_get_num_frames_possible, ds(width, nch)) != \
            call(T.get_num_frames_possible, ds(width, nch)):
        fail("nfp datastream", width, nch)
for bad in (NoFrameSize(), None, FakeStream("x"), FakeStream(None)):
    cases += 1
    if call(orig_get_num_frames_possible, bad) != \
            call(T.get_num_frames_possible, bad):
        fail("nfp bad", bad)

# ---- 2. get_buffer_sizes
for _ in range(3000):
    n = rng.randint(0, 4)
    fss = [rng.choice((1, 2, 3, 4, 6, 8, 9, 12, 4096, 5000, 8192,
                       rng.randint(1, 9000))) for _ in range(n)]
    if rng.random() < 0.03:
        fss.append(0)                      # ZeroDivisionError
    cases += 1
    if call(orig_get_buffer_sizes, [FakeStream(f) for f in fss]) != \
            call(T.get_buffer_sizes, [FakeStream(f) for f in fss]):
        fail("gbs", fss)
for width in (1, 2, 4):
    for combo in itertools.product((1, 2, 3), repeat=3):
        for k in (1, 2, 3):
            cases += 1
            if call(orig_get_buffer_sizes, [ds(width, c) for c in combo[:k]]) != \
                    call(T.get_buffer_sizes, [ds(width, c) for c in combo[:k]]):
                fail("gbs datastream", width, combo[:k])
# odd argument kinds: tuple, generator (consumed by the first pass), None
for make in (lambda: (FakeStream(4), FakeStream(6)),
             lambda: (s for s in [FakeStream(4), FakeStream(6)]),
             lambda: iter([]), lambda: None, lambda: [NoFrameSize()],
             lambda: [FakeStream(4), None]):
    cases += 1
    if call(orig_get_buffer_sizes, make()) != call(T.get_buffer_sizes, make()):
        fail("gbs odd arg")

# ---- 3. blocks actually yielded by make_transcoder follow the same sizing
for _ in range(600):
    width = rng.choice((1, 2, 4))
    nstreams = rng.randint(1, 3)
    nframes = rng.choice((0, 1, 5, 1023, 1024, 1025, 3000, rng.randint(0, 5000)))
    specs = []
    for _i in range(nstreams):
        nch = rng.randint(1, 3)
        nbytes = nframes * nch * width
        if nch * width > 1 and rng.random() < 0.3:
            nbytes += 1                    # partial trailing frame
        specs.append((bytes(rng.randrange(256) for _ in range(nbytes)),
                      rng.choice((Endianess.LITTLE, Endianess.BIG)), nch))
    total = sum(n for _, _, n in specs)
    # sometimes make the destination equal to the only source -> passthrough
    if nstreams == 1 and rng.random() < 0.5:
        dest = StreamEncoding(specs[0][1], width, specs[0][2], True)
    else:
        dest = StreamEncoding(Endianess.LITTLE, width, total, True)

    def mk():
        return [DataStream(BytesIO(d), StreamEncoding(o, width, n, True))
                for d, o, n in specs]

    cases += 1
    tr = T.make_transcoder(mk(), dest)
    blocks = [len(b) for b in tr]
    # expected block lengths from the ORIGINAL sizing
    frames_per_block = min(orig_get_buffer_sizes(mk())[i] // (specs[i][2] * width)
                           for i in range(nstreams))
    exp = [frames_per_block * total * width] * (nframes // frames_per_block)
    if nframes % frames_per_block:
        exp.append((nframes % frames_per_block) * total * width)
    if blocks != exp:
        fail("blocks", [(len(d), o, n) for d, o, n in specs], width,
             blocks[:3], exp[:3])
    if isinstance(tr, T.PassthroughTranscoder):
        if tr.buffer_size != orig_get_buffer_sizes(mk())[0]:
            fail("passthrough buffer_size")

print(f"{cases} cases, {failures} mismatches")
sys.exit(1 if failures else 0)
