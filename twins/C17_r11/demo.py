"""Equivalence demo for refactorings of smpl_extract/cuesheet.py (property C17).

Runs the live smpl_extract.cuesheet module against an inline copy of the
ORIGINAL implementation on many cue-sheet inputs and compares:
  * regex objects: pattern text, flags, group count, match()/groups()/span()
  * get_nonempty_entry / CueSheetTrackAdapter.parse / CueSheetFileAdapter.parse /
    parse_cue_sheet: returned value (as plain data), returned remaining lines,
    exception type + args + cause/context types, the in-place mutation of the
    caller's list, and whether the returned "remaining lines" list is the
    caller's own list object.
Exit status 0 when everything agrees, 1 otherwise.
"""
import dataclasses
import itertools
import random
import sys
import types

import smpl_extract.cuesheet as live


ORIGINAL_SRC = r'''
from dataclasses import dataclass
from dataclasses import field
import re
from typing import List
from typing import Optional
from typing import Protocol
from typing import Tuple
from typing import TypeVar


class BadCueSheet(Exception): pass


def get_nonempty_entry(lines: List[str]) -> Tuple[str, List[str]]:
    text = ""
    while len(lines):
        text = lines.pop(0).strip()
        if len(text):
            break
    return text, lines


T = TypeVar("T", covariant=True)
class CueItemAdapter(Protocol[T]):
    def parse(self, lines: List[str]) -> T: ...


_AUDIO_FRAMES_PER_SECOND = 75
@dataclass
class CueSheetIndex:
    number: int = 0
    n_minutes: int = 0
    n_seconds: int = 0
    n_frames: int = 0

    def get_total_audio_frames(self) -> int:
        total_seconds = 60*self.n_minutes + self.n_seconds
        total_frames = _AUDIO_FRAMES_PER_SECOND*total_seconds + \
            self.n_frames
        return total_frames


@dataclass
class CueSheetTrack:
    number: int = 0
    mode: str = ""
    title: Optional[str] = None
    indices: List[CueSheetIndex] = field(default_factory=list)
    unparsed: List = field(default_factory=list)


_TRACK_LINE_REGEX = re.compile(r"\s*TRACK\s+(\d+)\s+([A-z\d\/]+)", flags=re.I)
_TITLE_LINE_REGEX = re.compile(r"\s*TITLE\s+\"(.*?)\"", flags=re.I)
_INDEX_LINE_REGEX = re.compile(r"\s*INDEX\s+(\d+)\s+(\d+):(\d+):(\d+)", flags=re.I)
class CueSheetTrackAdapter:
    @classmethod
    def parse(cls, lines: List[str]):
        text, lines = get_nonempty_entry(lines)
        if len(text) <= 0:
            raise BadCueSheet
        result = _TRACK_LINE_REGEX.match(text)
        if not result:
            raise BadCueSheet
        track_number = int(result.groups()[0])
        track_mode = result.groups()[1]
        track = CueSheetTrack(
            track_number,
            track_mode
        )

        while len(lines):
            text, lines = get_nonempty_entry(lines)
            if len(text) <= 0:
                break

            # Check if next track began
            result = _TRACK_LINE_REGEX.match(text)
            if result:
                lines = [text] + lines
                break

            # check known properties
            result = _INDEX_LINE_REGEX.match(text)
            if result:
                index_number = int(result.groups()[0])
                n_minutes = int(result.groups()[1])
                n_seconds = int(result.groups()[2])
                n_frames = int(result.groups()[3])
                index = CueSheetIndex(
                    index_number,
                    n_minutes,
                    n_seconds,
                    n_frames
                )
                track.indices.append(index)
                continue

            result = _TITLE_LINE_REGEX.match(text)
            if result:
                title = result.groups()[0]
                track.title = title
                continue

            track.unparsed.append(text)

        return track, lines


@dataclass
class CueSheetFile:
    bin_file_name: str
    tracks: List[CueSheetTrack] = field(default_factory=list)


_FILE_LINE_REGEX = re.compile(r"\s*FILE\s+\"(.*?)\"\s+BINARY", flags=re.I)
class CueSheetFileAdapter:


    @classmethod
    def parse(cls, lines: List[str]):
        text, lines = get_nonempty_entry(lines)
        if len(text) <= 0:
            raise BadCueSheet
        result = _FILE_LINE_REGEX.match(text)
        if not result:
            raise BadCueSheet

        bin_file_name = result.groups()[0]
        cue_sheet = CueSheetFile(bin_file_name)
        while len(lines):
            text, lines = get_nonempty_entry(lines)
            if len(text) <= 0:
                break
            lines = [text] + lines
            track, lines = CueSheetTrackAdapter.parse(lines)
            if track:
                cue_sheet.tracks.append(track)

        return cue_sheet, lines


def parse_cue_sheet(lines: List[str]) -> CueSheetFile:
    cue_sheet_files = []
    while len(lines):
        text, lines = get_nonempty_entry(lines)
        match_result = _FILE_LINE_REGEX.match(text)
        if match_result:
            lines = [text] + lines
            cue_sheet_file, lines = CueSheetFileAdapter.parse(lines)
            cue_sheet_files.append(cue_sheet_file)

    if len(cue_sheet_files) <= 0:
        raise BadCueSheet("No FILE entry")

    result = cue_sheet_files[0]
    return result
'''

orig = types.ModuleType("_original_cuesheet")
sys.modules["_original_cuesheet"] = orig
exec(compile(ORIGINAL_SRC, "<original cuesheet.py>", "exec"), orig.__dict__)


# --------------------------------------------------------------------------
# helpers
# --------------------------------------------------------------------------
failures = []
n_checks = 0


def plain(value):
    """Turn results into plain comparable data (type names + field values)."""
    if dataclasses.is_dataclass(value) and not isinstance(value, type):
        return (
            type(value).__name__,
            tuple(
                (f.name, plain(getattr(value, f.name)))
                for f in dataclasses.fields(value)
            ),
        )
    if isinstance(value, tuple):
        return ("tuple", tuple(plain(v) for v in value))
    if isinstance(value, list):
        return ("list", tuple(plain(v) for v in value))
    return (type(value).__name__, value)


def run(function, lines):
    """Call function on a private copy; report outcome and list mutation."""
    argument = list(lines)
    try:
        value = function(argument)
        # the (item, remaining lines) functions hand back either the caller's
        # own list object or a fresh one (after a push-back): compare which
        aliased = isinstance(value, tuple) and value[1] is argument
        outcome = ("ok", plain(value), aliased)
    except Exception as e:  # noqa: BLE001 - we compare whatever is raised
        outcome = ("raise", type(e).__name__, tuple(str(a) for a in e.args),
                   type(e.__cause__).__name__, type(e.__context__).__name__)
    return outcome, tuple(argument)


def check(label, a, b, what):
    global n_checks
    n_checks += 1
    if a != b:
        failures.append((label, what, a, b))


class _OrigTrackSubclass(orig.CueSheetTrackAdapter):
    pass


class _LiveTrackSubclass(live.CueSheetTrackAdapter):
    pass


PAIRS = [
    ("CueSheetTrackAdapter subclass .parse", _OrigTrackSubclass.parse,
     _LiveTrackSubclass.parse),
    ("CueSheetTrackAdapter().parse on an instance",
     orig.CueSheetTrackAdapter().parse, live.CueSheetTrackAdapter().parse),

    ("get_nonempty_entry", orig.get_nonempty_entry, live.get_nonempty_entry),
    ("CueSheetTrackAdapter.parse", orig.CueSheetTrackAdapter.parse,
     live.CueSheetTrackAdapter.parse),
    ("CueSheetFileAdapter.parse", orig.CueSheetFileAdapter.parse,
     live.CueSheetFileAdapter.parse),
    ("parse_cue_sheet", orig.parse_cue_sheet, live.parse_cue_sheet),
]


def compare_lines(lines):
    for label, f_orig, f_live in PAIRS:
        check(label, run(f_orig, lines), run(f_live, lines), lines)


REGEX_NAMES = ["_TRACK_LINE_REGEX", "_TITLE_LINE_REGEX", "_INDEX_LINE_REGEX",
               "_FILE_LINE_REGEX"]


def match_info(regex, text):
    out = []
    for method in (regex.match, regex.search, regex.fullmatch):
        m = method(text)
        out.append(None if m is None else (m.groups(), m.span(), m.regs))
    return tuple(out)


def compare_regexes(text):
    for name in REGEX_NAMES:
        check(name, match_info(getattr(orig, name), text),
              match_info(getattr(live, name), text), text)


# --------------------------------------------------------------------------
# inputs
# --------------------------------------------------------------------------
def canonical(n_tracks, with_titles=True):
    lines = ['FILE "image.bin" BINARY\n']
    for t in range(1, n_tracks + 1):
        lines.append("  TRACK %02d AUDIO\n" % t)
        if with_titles:
            lines.append('    TITLE "Track %d"\n' % t)
        if t % 2 == 0:
            lines.append("    INDEX 00 %02d:%02d:%02d\n" % (t, 3 * t, 7 * t))
        lines.append("    INDEX 01 %02d:%02d:%02d\n" % (t, 3 * t + 2, 7 * t + 1))
    return lines


UNKNOWN_LINES = [
    "REM GENRE Electronic\n", 'PERFORMER "Somebody"\n', "FLAGS DCP\n",
    "PREGAP 00:02:00\n", "\n", "   \t  \n", "CATALOG 1234567890123\n",
    'rem comment "TITLE" inside\n', "ISRC ABCDE1234567\n",
    "POSTGAP 00:01:00\n", "garbage\n",
]


def swapcase_keywords(line):
    return line.swapcase()


def transformations():
    return [
        lambda s: s,
        str.lower,
        str.upper,
        swapcase_keywords,
        lambda s: "   " + s,
        lambda s: "\t" + s.rstrip("\n") + "   \t\n",
        lambda s: s.rstrip("\n"),
        lambda s: s.rstrip("\n") + "\r\n",
        lambda s: s.replace(" ", "  "),
        lambda s: s.replace(" ", "\t"),
    ]


def structured_inputs():
    for n_tracks in (1, 2, 3, 5):
        for with_titles in (True, False):
            base = canonical(n_tracks, with_titles)
            for transform in transformations():
                cased = [transform(line) for line in base]
                yield cased
                # insertion of unknown lines at every position
                for position in range(len(cased) + 1):
                    for unknown in UNKNOWN_LINES:
                        yield cased[:position] + [unknown] + cased[position:]
                # deletion of each line (creates broken sheets as well)
                for position in range(len(cased)):
                    yield cased[:position] + cased[position + 1:]


LINE_POOL = [
    'FILE "a.bin" BINARY', 'file "b c.bin" binary', 'FILE "x.wav" WAVE',
    'FILE "" BINARY', 'FILE "q"uote.bin" BINARY extra', 'FILE a.bin BINARY',
    ' \tFiLe\t"tab.bin"\tBiNaRy  ', 'XFILE "no.bin" BINARY',
    'REM FILE "rem.bin" BINARY',
    "TRACK 01 AUDIO", "track 2 mode1/2352", "TRACK 03 MODE2/2336 trailing",
    "TRACK AUDIO", "TRACK 04", "TRACK 05 [\\]^_`", "TRACK 06 @bad",
    "  TrAcK   0007   audio", "TRACKS 01 AUDIO", "TRACK01 AUDIO",
    "TRACK ١٢ AUDIO", "TRACK 99999999999999999999 AUDIO",
    "INDEX 01 00:00:00", "index 0 1:2:3", "INDEX 01 00:00", "INDEX 01 00:00:00:99",
    "INDEX 1 99:99:99 tail", "INDEX 01 00 : 00 : 00", "INDEX\t02\t10:20:30",
    "INDEX ٣ ٤:٥:٦", "INDEX 01 -1:00:00", "INDEXX 01 00:00:00",
    'TITLE "Hello"', 'title "lower"', 'TITLE ""', 'TITLE "a" "b"',
    'TITLE "unterminated', "TITLE noquotes", 'TITLE   "spaced   out"  ',
    'TITLE "KKelvin"', '  TITLE "x" TRACK 01 AUDIO',
    'PERFORMER "p"', "REM x", "FLAGS DCP", "PREGAP 00:02:00", "", "   ", "\t",
    "\x0c", " ", "FILE", "TRACK", "INDEX", "TITLE",
    'FILE "ſpecial.bin" BINARY', "ſILE", "TRACK 01 AUDIO",
    "TİTLE \"dotted\"", "tıtle \"dotless\"", "FİLE \"i.bin\" BINARY",
]


def random_inputs(rng, count):
    endings = ["", "\n", "\r\n", "  \n", "\t"]
    prefixes = ["", " ", "    ", "\t"]
    for _ in range(count):
        n = rng.randrange(0, 12)
        yield [
            rng.choice(prefixes) + rng.choice(LINE_POOL) + rng.choice(endings)
            for _ in range(n)
        ]


def edge_inputs():
    yield []
    yield [""]
    yield ["\n", "\n"]
    yield ["TRACK 01 AUDIO\n"]
    yield ['FILE "only.bin" BINARY']
    yield ['FILE "only.bin" BINARY', "", "  "]
    yield ['FILE "only.bin" BINARY', "REM not a track"]
    yield ['FILE "a.bin" BINARY', "TRACK 01 AUDIO", 'FILE "b.bin" BINARY',
           "TRACK 02 AUDIO", "INDEX 01 00:00:00"]
    yield ["REM x", 'FILE "a.bin" BINARY', "TRACK 01 AUDIO", "TRACK 02 AUDIO",
           "TRACK 03 AUDIO"]
    huge = "9" * 5000  # beyond int()'s default 4300 digit limit -> ValueError
    yield ['FILE "a.bin" BINARY', "TRACK %s AUDIO" % huge]
    yield ['FILE "a.bin" BINARY', "TRACK 01 AUDIO", "INDEX %s 00:00:00" % huge]
    yield ['FILE "a.bin" BINARY', "TRACK 01 AUDIO", "INDEX 01 %s:00:00" % huge]
    yield ['FILE "a.bin" BINARY', "TRACK 01 AUDIO", "INDEX 01 00:%s:00" % huge]
    yield ['FILE "a.bin" BINARY', "TRACK 01 AUDIO", "INDEX 01 00:00:%s" % huge]
    yield ['FILE "a.bin" BINARY', "TRACK 01 AUDIO",
           "INDEX %s %s:1:2" % (huge, "8" * 4400)]
    yield ['FILE "a.bin" BINARY', "TRACK 01 AUDIO", 'TITLE "one"', 'TITLE "two"',
           "INDEX 01 00:00:00", "INDEX 01 00:00:00"]


def main():
    # 1. regex objects themselves
    for name in REGEX_NAMES:
        a, b = getattr(orig, name), getattr(live, name)
        check(name, a.pattern, b.pattern, "pattern")
        check(name, a.flags, b.flags, "flags")
        check(name, a.groups, b.groups, "group count")
        check(name, a.groupindex, b.groupindex, "groupindex")

    # 2. regexes on single lines
    rng = random.Random(1717)
    single_lines = set()
    for text in LINE_POOL:
        for prefix, suffix in itertools.product(["", " ", "\t "], ["", " ", "\n"]):
            single_lines.add(prefix + text + suffix)
            single_lines.add((prefix + text + suffix).swapcase())
            single_lines.add((prefix + text + suffix).lower())
            single_lines.add((prefix + text + suffix).upper())
    for lines in structured_inputs():
        single_lines.update(lines)
    alphabet = ' \t"FILETRACKINDXBYfiletrackindxby0123456789:/\\_-İſK١\n'
    for _ in range(4000):
        single_lines.add("".join(rng.choice(alphabet)
                                 for _ in range(rng.randrange(0, 30))))
    for text in sorted(single_lines):
        compare_regexes(text)

    # 3. the parsers
    n_inputs = 0
    for lines in itertools.chain(edge_inputs(), structured_inputs(),
                                 random_inputs(rng, 6000)):
        compare_lines(lines)
        n_inputs += 1

    # 4. get_nonempty_entry on its own, including arguments outside List[str]
    whitespace = ["", " ", "\t", "\n", "\r\n", "\x0b\x0c", "\u00a0", "\u2003",
                  "\x1c\x1d\x1e\x1f", "\u200b", "\ufeff", "\x00", " x ", "x",
                  "\u3000y\u3000"]
    for length in range(0, 5):
        for combo in itertools.product(whitespace, repeat=length):
            if length == 4 and rng.random() < 0.9:
                continue
            check("get_nonempty_entry/whitespace",
                  run(orig.get_nonempty_entry, combo),
                  run(live.get_nonempty_entry, combo), combo)
    exotic = [
        [b"  ", b"", b"x ", b"y"], [b"", b" "], [b"data"],
        [None], ["", None, "x"], ["x", None], [" ", 5, "x"],
        [bytearray(b"  "), bytearray(b" z")], [["nested"]], [(), "x"],
    ]
    for lines in exotic:
        check("get_nonempty_entry/exotic", run(orig.get_nonempty_entry, lines),
              run(live.get_nonempty_entry, lines), lines)

    def run_raw(function, argument):
        try:
            value = function(argument)
            return ("ok", repr(value), value[1] is argument, repr(argument))
        except Exception as e:  # noqa: BLE001
            return ("raise", type(e).__name__, str(e), repr(argument))

    import collections
    for make in (lambda: None, lambda: (), lambda: ("", "a"), lambda: "",
                 lambda: " a", lambda: {}, lambda: {0: " ", 1: "b"},
                 lambda: collections.deque([" ", "c"]), lambda: 7,
                 lambda: iter(["a"]), lambda: bytearray(b" a"),
                 lambda: collections.UserList(["", " q ", "r"])):
        check("get_nonempty_entry/non-list", run_raw(orig.get_nonempty_entry, make()),
              run_raw(live.get_nonempty_entry, make()), repr(make()))

    print("inputs: %d sheets, %d single lines; checks: %d; failures: %d"
          % (n_inputs, len(single_lines), n_checks, len(failures)))
    for failure in failures[:10]:
        print("MISMATCH", repr(failure)[:600])
    return 1 if failures else 0


if __name__ == "__main__":
    sys.exit(main())
