"""Equivalence demo for r24 (smpl_extract/transcoder.py, pad_channels - the
step of encode_frame that brings the decoded channels of one frame to a
common length before they are interleaved into the WAV data chunk).

An inline copy of the ORIGINAL pad_channels is compared with the live one:
  A. direct calls: 0..6 channels of int8/int16/int32/uint8/float arrays of
     length 0..40 (equal, shorter, longer, empty), plain lists, tuples and
     one-shot iterators as the container, 2-D arrays and objects without
     len(): same values, dtypes, shapes, same identity of untouched channels,
     same result type, same exception;
  B. encode_frame and whole PipelineTranscoder runs over two or three data
     streams of unequal length and mixed endianess, with the live function
     and with the original patched in: same chunks;
  C. whole AKAI images with left/right sample pairs of equal and unequal
     lengths exported to WAV with the live function and with the original
     patched in: same stdout, same files, same bytes.
Exit 0 = all agree."""
import contextlib
import hashlib
import io
import os
import random
import shutil
import sys
import tempfile
from typing import List

import numpy as np

import smpl_extract.transcoder as transcoder_module
from smpl_extract.data_streams import DataStream
from smpl_extract.data_streams import Endianess
from smpl_extract.data_streams import StreamEncoding
from smpl_extract.transcoder import encode_frame
from smpl_extract.transcoder import make_transcoder


# ---- inline copy of the ORIGINAL implementation -------------------------
def orig_pad_channels(channels: List[np.ndarray]) -> List[np.ndarray]:
    target_size = max(map(len, channels))
    result_channels = []
    for channel in channels:
        N = target_size - len(channel)
        if N <= 0:
            result_channels.append(channel)
            continue

        padded_channel = np.pad(
            channel, 
            (0, N), 
            "linear_ramp", 
            end_values=(0, 0)
        )
        result_channels.append(padded_channel)
    return result_channels
# -------------------------------------------------------------------------

# ---- independent AKAI S1000/S3000 image writer (logical model -> bytes) ----
import struct as _struct

SECTOR = 0x2000
SAT_CNT = 11386
HEADER_SECTORS = 3
MAGIC = b"".join(((3333 * i) & 0xFFFF).to_bytes(2, "little") for i in range(1, 98))


def akai_name(text):
    out = bytearray()
    for ch in text.upper().ljust(12)[:12]:
        if "0" <= ch <= "9":
            out.append(ord(ch) - ord("0"))
        elif "A" <= ch <= "Z":
            out.append(ord(ch) - ord("A") + 0x0B)
        else:
            out.append({" ": 0x0A, "#": 0x25, "+": 0x26, "-": 0x27, ".": 0x28}[ch])
    return bytes(out)


def sample_file(name, type_byte, rate, pcm, play_start, play_end, loops=(), loop_type=2):
    """140 byte header followed by the 16 bit words."""
    head = bytearray()
    head += bytes([type_byte, 0, 60])
    head += akai_name(name)
    head += bytes(4)
    head += bytes([loop_type, 0, 0])
    head += bytes(4)
    head += _struct.pack("<III", len(pcm) // 2, play_start, play_end)
    table = list(loops) + [(0, 0, 0, 0)] * (8 - len(loops))
    for at, fine, coarse, duration in table:
        head += _struct.pack("<IHIH", at, fine, coarse, duration)
    head += bytes(4)
    head += _struct.pack("<H", rate)
    assert len(head) == 140, len(head)
    return bytes(head) + pcm


def build_partition(rnd, volumes, layout="random", dir_style="chain", spare=6):
    """volumes: list of (name, type 1|3, [(file name, file type byte, content bytes)])"""
    needed = HEADER_SECTORS
    for _name, _type, files in volumes:
        needed += 2 + (24 * (len(files) + 1) + SECTOR - 1) // SECTOR
        for _fname, _ftype, content in files:
            needed += max(1, (len(content) + SECTOR - 1) // SECTOR)
    total = needed + spare
    sat = [0] * SAT_CNT
    for s in range(HEADER_SECTORS):
        sat[s] = 0x4000
    sectors = {}
    free = list(range(HEADER_SECTORS, total))

    def take(count, how):
        nonlocal free
        if how == "contiguous":
            for at in range(len(free) - count + 1):
                run = free[at:at + count]
                if run[-1] - run[0] == count - 1:
                    break
            else:
                raise AssertionError("no contiguous run")
            chosen = run
        elif how == "ascending":
            chosen = sorted(rnd.sample(free, count))
        elif how == "descending":
            chosen = sorted(rnd.sample(free, count), reverse=True)
        else:
            chosen = rnd.sample(free, count)
        free = [s for s in free if s not in chosen]
        return chosen

    def store(chain, payload):
        for n, s in enumerate(chain):
            sectors[s] = payload[n * SECTOR:(n + 1) * SECTOR].ljust(SECTOR, b"\x00")

    # directories first (a reserved run needs a non reserved sector behind it)
    dir_chains = []
    for _name, _type, files in volumes:
        count = (24 * (len(files) + 1) + SECTOR - 1) // SECTOR
        if dir_style == "reserved":
            chain = take(count + 1, "contiguous")
            guard = chain.pop()
            free.append(guard)
            free.sort()
            for s in chain:
                sat[s] = 0x4000
            # keep the guard sector out of later reserved runs: leave it free
            free.remove(guard)
        else:
            chain = take(count, "contiguous" if dir_style == "chain" else "random")
            for a, b in zip(chain, chain[1:]):
                sat[a] = b
            sat[chain[-1]] = 0xC000
        dir_chains.append(chain)

    volume_table = bytearray()
    for (name, vtype, files), dir_chain in zip(volumes, dir_chains):
        table = bytearray()
        for fname, ftype, content in files:
            count = max(1, (len(content) + SECTOR - 1) // SECTOR)
            how = layout if layout != "mixed" else rnd.choice(
                ["contiguous", "ascending", "descending", "random"])
            chain = take(count, how)
            for a, b in zip(chain, chain[1:]):
                sat[a] = b
            sat[chain[-1]] = 0xC000
            store(chain, content)
            table += akai_name(fname) + bytes(4) + bytes([ftype])
            table += len(content).to_bytes(3, "little")
            table += _struct.pack("<H", chain[0]) + bytes(2)
        end = bytearray(24)
        end[8:10] = (0xD747).to_bytes(2, "little")
        table += end
        store(dir_chain, bytes(table))
        volume_table += akai_name(name) + _struct.pack("<HH", vtype, dir_chain[0])
    volume_table += bytes(16 * (100 - len(volumes)))

    head = _struct.pack("<H", total) + b"\x00\x00" + MAGIC
    check = total // 128 - 1
    head += bytes([0x55 if check % 2 == 0 else 0xD5, (check // 2 + 0xBA) & 0xFF]) + b"\x2F\x00"
    head += bytes(volume_table)
    head += b"".join(_struct.pack("<H", x) for x in sat)
    assert len(head) == HEADER_SECTORS * SECTOR - 2, len(head)
    body = bytearray(head.ljust(HEADER_SECTORS * SECTOR, b"\x00"))
    for s in range(HEADER_SECTORS, total):
        body += sectors.get(s, bytes(SECTOR))
    return bytes(body)
# ---------------------------------------------------------------------------

# ---- shared demo plumbing --------------------------------------------------
failures = 0
checks = 0


def check(label, a, b):
    global failures, checks
    checks += 1
    if a != b:
        failures += 1
        if failures <= 10:
            print("MISMATCH", label, "\n   live:", repr(a)[:600], "\n   orig:", repr(b)[:600])


def describe_exc(e):
    cause = e.__cause__
    return (
        type(e).__module__ + "." + type(e).__qualname__,
        str(e),
        None if cause is None else (type(cause).__qualname__, str(cause)),
        e.__suppress_context__,
    )


def outcome(f):
    try:
        return ("ok", f())
    except BaseException as e:  # noqa - demo compares every exception
        return ("raise", describe_exc(e))


def snapshot_dir(base):
    found = {}
    for root, dirs, files in os.walk(base):
        dirs.sort()
        rel = os.path.relpath(root, base)
        found[rel + "/"] = None
        for name in sorted(files):
            with open(os.path.join(root, name), "rb") as fh:
                found[os.path.join(rel, name)] = hashlib.sha256(fh.read()).hexdigest()
    return found


def export_image(image_bytes, scratch, tag):
    from smpl_extract.actions import export_samples_to_wav
    from smpl_extract.akai.image import AkaiImageParser
    dest = os.path.join(scratch, tag)
    os.makedirs(dest)
    captured = io.StringIO()
    with contextlib.redirect_stdout(captured):
        result = outcome(lambda: export_samples_to_wav(
            AkaiImageParser(io.BytesIO(image_bytes)), dest))
    return (result, captured.getvalue(), snapshot_dir(dest))


def make_images(rnd):
    """A spread of logical models x allocation layouts x directory styles."""
    def pcm(words):
        return bytes(rnd.getrandbits(8) for _ in range(2 * words))

    images = []
    lengths = [1, 2, 100, 4096 - 70, 4096 - 69, 4096 - 71, 2 * 4096 - 70,
               3 * 4096 - 70, 5000, 9000, 13000]
    for layout in ("contiguous", "ascending", "descending", "random", "mixed"):
        for dir_style in ("chain", "reserved", "scattered"):
            parts = []
            for p in range(rnd.choice([1, 2, 3])):
                volumes = []
                for v in range(rnd.choice([1, 2, 3])):
                    files = []
                    for f in range(rnd.choice([0, 1, 3, 5])):
                        words = rnd.choice(lengths)
                        start = rnd.choice([0, 0, 1, 7, words // 3])
                        end = rnd.choice([words, words, words - 1, max(start, words - 5)])
                        s3000 = rnd.random() < 0.5
                        files.append((
                            "S%d%d%d" % (p, v, f),
                            0xF3 if s3000 else 0x73,
                            sample_file(
                                "S%d" % f, 3 if s3000 else 1,
                                rnd.choice([0, 8000, 22050, 44100, 48000]),
                                pcm(words), start, end
                            )
                        ))
                    if rnd.random() < 0.5:
                        words = rnd.choice(lengths)
                        for side in "LR":
                            files.append((
                                "PAIR -" + side, 0xF3,
                                sample_file("PAIR -" + side, 3, 44100, pcm(words), 0, words)
                            ))
                    volumes.append(("VOL %d%d" % (p, v), rnd.choice([1, 3]), files))
                parts.append(build_partition(rnd, volumes, layout=layout, dir_style=dir_style))
            images.append(((layout, dir_style), b"".join(parts)))
    return images
# ---------------------------------------------------------------------------




LIVE = transcoder_module.pad_channels


@contextlib.contextmanager
def original_patched_in(counter=None):
    def counting(channels):
        if counter is not None:
            counter[0] += 1
            if len(counter) > 1 and len(set(map(len, channels))) > 1:
                counter[1] += 1
        return orig_pad_channels(channels)
    saved = transcoder_module.pad_channels
    transcoder_module.pad_channels = counting
    try:
        yield
    finally:
        transcoder_module.pad_channels = saved


def freeze(value):
    if isinstance(value, np.ndarray):
        return ("ndarray", str(value.dtype), value.shape, value.tobytes())
    return (type(value).__name__, repr(value))


def call(func, make_container, channels):
    container = make_container(channels)
    result = outcome(lambda: func(container))
    if result[0] != "ok":
        return result
    value = result[1]
    identity = [
        next((i for i, c in enumerate(channels) if c is out), None)
        for out in value
    ]
    return ("ok", type(value).__name__, [freeze(v) for v in value], identity)


def part_a():
    rnd = random.Random(2401)
    containers = {
        "list": list,
        "tuple": tuple,
        "iterator": iter,
        "generator": lambda chans: (c for c in chans),
    }
    answered = raised = padded = kept = 0
    for case in range(2500):
        count = rnd.choice([0, 1, 2, 2, 2, 3, 6])
        dtype = rnd.choice(["int8", "int16", "int16", "int32", "uint8", "float32", ">i2"])
        base = rnd.choice([0, 1, 5, 40])
        channels = []
        for _ in range(count):
            length = rnd.choice([base, base, max(0, base - 1), base + 1, 0, rnd.randrange(0, 41)])
            if dtype.startswith("float"):
                arr = np.array([rnd.uniform(-1, 1) for _ in range(length)], dtype=dtype)
            else:
                info = np.iinfo(np.dtype(dtype))
                arr = np.array([rnd.randint(info.min, info.max) for _ in range(length)], dtype=dtype)
            kind = rnd.random()
            if kind < 0.04:
                channels.append(arr.tolist())
            elif kind < 0.07 and length:
                channels.append(np.stack([arr, arr]).T)      # 2-D
            elif kind < 0.08:
                channels.append(None)                         # no len()
            elif kind < 0.09:
                channels.append(7)
            else:
                channels.append(arr)
        name = rnd.choice(list(containers))
        live = call(LIVE, containers[name], channels)
        orig = call(orig_pad_channels, containers[name], channels)
        check(("direct", case, name, count, dtype), live, orig)
        if live[0] == "ok":
            answered += 1
            padded += sum(1 for i in live[3] if i is None)
            kept += sum(1 for i in live[3] if i is not None)
        else:
            raised += 1
    print("direct calls answered:", answered, "raised:", raised,
          "| channels padded:", padded, "kept as they were:", kept)
    check("part A is not vacuous", answered > 1200 and raised > 150 and padded > 400 and kept > 800, True)


def run_transcoder(byte_strings, encodings, dest):
    streams = [DataStream(io.BytesIO(b), e) for b, e in zip(byte_strings, encodings)]
    def go():
        chunks = []
        for chunk in make_transcoder(streams, dest):
            chunks.append(bytes(chunk))
            if len(chunks) > 5000:
                raise AssertionError("runaway")
        return chunks
    return outcome(go)


def part_b():
    rnd = random.Random(2402)
    counter = [0]
    produced = 0
    for case in range(300):
        count = rnd.choice([2, 2, 3])
        dtype = np.dtype(rnd.choice(["int16", "int8", "int32"]))
        chans = [np.array([rnd.randint(-100, 100) for _ in range(rnd.choice([0, 1, 7, 8, 30]))], dtype=dtype)
                 for _ in range(count)]
        live = outcome(lambda: encode_frame(list(chans), dtype))
        with original_patched_in(counter):
            orig = outcome(lambda: encode_frame(list(chans), dtype))
        check(("encode_frame", case), live, orig)
    for case in range(150):
        count = rnd.choice([2, 2, 3])
        width = rnd.choice([1, 2, 2, 4])
        base = rnd.choice([0, 10, 2048, 2049, 5000])
        byte_strings = []
        encodings = []
        for _ in range(count):
            frames = max(0, base + rnd.choice([0, 0, -1, 1, -7, 300]))
            byte_strings.append(bytes(rnd.getrandbits(8) for _ in range(frames * width + rnd.choice([0, 0, 1]))))
            encodings.append(StreamEncoding(
                endianess=rnd.choice([Endianess.LITTLE, Endianess.LITTLE, Endianess.BIG]),
                sample_width=width, num_interleaved_channels=1))
        dest = StreamEncoding(endianess=rnd.choice([Endianess.LITTLE, Endianess.BIG]),
                              sample_width=width, num_interleaved_channels=count)
        live = run_transcoder(byte_strings, encodings, dest)
        with original_patched_in(counter):
            orig = run_transcoder(byte_strings, encodings, dest)
        check(("pipeline", case, count, width, base), live, orig)
        if live[0] == "ok":
            produced += sum(len(c) for c in live[1])
    print("bytes produced by pipelines:", produced, "| original pad_channels calls:", counter[0])
    check("part B is not vacuous", produced > 100000 and counter[0] > 400, True)


def pair_images(rnd):
    def pcm(words):
        return bytes(rnd.getrandbits(8) for _ in range(2 * words))
    images = []
    for layout in ("contiguous", "descending", "random", "mixed"):
        for dir_style in ("chain", "reserved"):
            parts = []
            for p in range(rnd.choice([1, 2])):
                volumes = []
                for v in range(rnd.choice([1, 2])):
                    files = []
                    for n in range(rnd.choice([1, 2, 3])):
                        left = rnd.choice([1, 100, 2047, 2048, 2049, 4096 - 70, 5000, 9000])
                        right = rnd.choice([left, left, left + 1, max(1, left - 1), left + 3000, max(1, left // 2)])
                        for side, words in (("L", left), ("R", right)):
                            start = rnd.choice([0, 0, 1, words // 4])
                            end = rnd.choice([words, words, max(start, words - 3)])
                            files.append(("ST%d -%s" % (n, side), 0xF3,
                                          sample_file("ST%d -%s" % (n, side), 3, 44100,
                                                      pcm(words), start, end)))
                    files.append(("MONO", 0x73, sample_file("MONO", 1, 22050, pcm(700), 0, 700)))
                    rnd.shuffle(files)
                    volumes.append(("VOL %d%d" % (p, v), rnd.choice([1, 3]), files))
                parts.append(build_partition(rnd, volumes, layout=layout, dir_style=dir_style))
            images.append((("pairs", layout, dir_style), b"".join(parts)))
    return images


def part_c(scratch):
    rnd = random.Random(2403)
    exported = 0
    counter = [0, 0]
    for n, (label, image) in enumerate(pair_images(rnd) + make_images(rnd)):
        live = export_image(image, scratch, "live%d" % n)
        with original_patched_in(counter):
            orig = export_image(image, scratch, "orig%d" % n)
        check(("export", label), live, orig)
        exported += sum(1 for digest in live[2].values() if digest)
    print("wav files exported per run:", exported, "| original pad_channels calls:", counter[0],
          "of which with unequal channel lengths:", counter[1])
    check("exports are not vacuous", exported > 60 and counter[1] > 10, True)
    check("the original function really ran", counter[0] > 100, True)


def main():
    scratch = tempfile.mkdtemp(prefix="r24_demo_")
    try:
        part_a()
        part_b()
        part_c(scratch)
    finally:
        shutil.rmtree(scratch, ignore_errors=True)
    print("checks:", checks, "failures:", failures)
    return 1 if failures or not checks else 0


if __name__ == "__main__":
    sys.exit(main())
