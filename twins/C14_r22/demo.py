"""Equivalence demo for r22 (smpl_extract/util/constructs.py,
EnumWrapper._decode).

EnumWrapper(Int8ul, FileType) is the `file_type` field of FileEntryConstruct:
for each slot of an AKAI file table the skip-on-error loop of
FileEntriesAdapter._parse parses that record, and it is this adapter that
turns one of the 249 type bytes the enum does not list into the ConstructError
on which the loop drops the entry (and only that entry).  The same adapter
decodes the volume type (VolumeEntryConstruct, compiled) and the id /
loop_type bytes of a sample header (SampleHeaderConstruct, compiled), which
Volume._realize_files reaches through FileEntry.file.

The refactoring (three idioms combined)
  * splits the nested call `self.recast(int(self.remap._decode(obj, path,
    context)))` into two named steps,
  * moves them into a new private method _to_member that _decode calls inside
    the unchanged try / except ValueError,
  * spells the raise with explicit instances (`raise ConstructError() from
    ValueError()` for `raise ConstructError from ValueError`) and renames the
    local result -> member.

An inline copy of the ORIGINAL method is compared with the live one.

 A. unit level: _decode of wrappers around FileType, VolumeType, SampleType,
    AkaiLoopType and three home made IntEnums (negative values, aliases, a
    member 0) for every int in -300..700, big ints, bools, floats, numeric
    strings, other strings, None, unhashable values, EnumInteger /
    EnumIntegerString objects; a remap whose _decode logs its arguments or
    raises.  Compared: result value, type and identity of the member, or
    exception type / text / type of __cause__ / type and text of __context__.
 B. parse level: EnumWrapper(Int8ul, E).parse on all 256 bytes and on an empty
    stream (position afterwards included); FileEntryConstruct.parse_stream for
    every type byte; the compiled VolumeEntryConstruct and SampleHeaderConstruct
    for every value of their enum bytes.
 C. end to end: synthetic AKAI partitions with the damage of property C14
    (every value of the type byte, of each size and start byte of one entry,
    ...) listed once with the original method patched into the class and once
    with the live one.  Compared: entries, files, paths, audio bytes, errors
    and the trace of every seek/read/tell on the image stream.

Exit 0 when everything agrees, 1 otherwise.
"""
import enum

from construct.core import Computed
from construct.core import ConstructError
from construct.core import EnumInteger
from construct.core import EnumIntegerString
from construct.core import Int8ul
from construct.core import Int16ub

import smpl_extract.util.constructs as constructs_mod
from smpl_extract.akai.data_types import AkaiLoopType
from smpl_extract.akai.data_types import FileType
from smpl_extract.akai.data_types import SampleType
from smpl_extract.akai.data_types import VolumeType
from smpl_extract.akai.sample import SampleHeaderConstruct
from smpl_extract.util.constructs import EnumWrapper


# ---------------------------------------------------------------- original
def orig_decode(self, obj, context, path):
    try:
        result = self.recast(int(
            self.remap._decode(obj, path, context)  # type: ignore
        ))
    except ValueError:
        raise ConstructError from ValueError
    return result


orig_decode.__qualname__ = "EnumWrapper._decode"

LIVE = EnumWrapper.__dict__["_decode"]
IMPLS = (orig_decode, LIVE)


class patched:
    def __init__(self, fn):
        self.fn = fn

    def __enter__(self):
        EnumWrapper._decode = self.fn

    def __exit__(self, *exc):
        EnumWrapper._decode = LIVE
        return False


def both(fn, *args, **kw):
    out = []
    for impl in IMPLS:
        with patched(impl):
            out.append(fn(*args, **kw))
    return out

# ------------------------------------------------------------ shared harness
# (synthetic AKAI partitions, damaged the way property C14 damages them, and a
# traced listing of their volumes)
import io
import random
import struct
import sys

from construct.core import Int16ul
from construct.core import Struct
from construct.expr import this

from smpl_extract.akai.akai_string import char_ascii_to_akai
from smpl_extract.akai.data_types import AKAI_PARTITION_MAGIC
from smpl_extract.akai.data_types import AKAI_SAT_ENTRY_CNT
from smpl_extract.akai.data_types import AKAI_VOLUME_ENTRY_CNT
from smpl_extract.akai.file_entry import FileEntriesAdapter
from smpl_extract.akai.file_entry import FileEntryConstruct
from smpl_extract.akai.partition import PartitionHeaderConstruct
from smpl_extract.akai.sat import SegmentAllocationTable
from smpl_extract.akai.sat import SegmentAllocationTableAdapter
from smpl_extract.akai.volume import Volume
from smpl_extract.akai.volume import VolumeEntryConstruct
from smpl_extract.util.stream import StreamOffset

failures = []
checked = 0


def check(cond, msg):
    global checked
    checked += 1
    if not cond:
        failures.append(msg)


def outcome(fn, *args, **kw):
    """('ok', type, value) or ('raise', type, text, cause type, context type)."""
    try:
        value = fn(*args, **kw)
    except BaseException as e:  # noqa: B902
        return ("raise", type(e), str(e).split("\n")[0],
                type(e.__cause__), type(e.__context__))
    return ("ok", type(value), value)


SECT = 0x2000
PREAMBLE_HDR_LEN = 2 + 2 + len(AKAI_PARTITION_MAGIC) + 4
PREAMBLE_LEN = PREAMBLE_HDR_LEN + 16 * AKAI_VOLUME_ENTRY_CNT + 2 * AKAI_SAT_ENTRY_CNT

HeaderSatParser = Struct(
    "header" / PartitionHeaderConstruct,
    "volume_entries_raw" / Int16ul[8 * AKAI_VOLUME_ENTRY_CNT],
    "sat" / SegmentAllocationTableAdapter(
        this.header.partition_stream,
        Int16ul[AKAI_SAT_ENTRY_CNT]  # type: ignore
    ),
)


def akai_name(text):
    return bytes(char_ascii_to_akai(text.ljust(12)[:12]))


def record(name, ftype, size, start, pad1=b"\0" * 4, pad2=b"\0\0"):
    return (
        akai_name(name) + pad1 + bytes([ftype]) + size.to_bytes(3, "little")
        + struct.pack("<H", start) + pad2
    )


def make_sample(name, n_words, seed, sample_id=3, loop_type=2, rate=44100):
    """an AKAI sample file: 140 byte header + n_words 16 bit words."""
    rng = random.Random(seed)
    hdr = bytearray(140)
    hdr[0] = sample_id
    hdr[2] = 60
    hdr[3:15] = akai_name(name)
    hdr[19] = loop_type
    hdr[26:30] = struct.pack("<I", n_words)
    hdr[30:34] = struct.pack("<I", 0)
    hdr[34:38] = struct.pack("<I", n_words)
    hdr[138:140] = struct.pack("<H", rate)
    return bytes(hdr) + bytes(rng.getrandbits(8) for _ in range(2 * n_words))


def make_partition(size, volumes):
    """volumes: list of (name, type, [(fname, ftype, data)])."""
    buf = bytearray(size * SECT)
    hdr = (
        struct.pack("<H", size)
        + b"\x00\x00" + AKAI_PARTITION_MAGIC + b"\x55\xba\x2f\x00"
    )
    buf[:len(hdr)] = hdr
    sat = [0] * AKAI_SAT_ENTRY_CNT
    sat[0] = sat[1] = sat[2] = 0x4000
    next_sector = 3
    vol_entries = b""
    for vname, vtype, files in volumes:
        vsect = next_sector
        next_sector += 1
        sat[vsect] = 0xC000
        vol_entries += akai_name(vname) + struct.pack("<HH", vtype, vsect)
        table = b""
        for fname, ftype, data in files:
            nsect = max(1, -(-len(data) // SECT))
            start = next_sector
            for k in range(nsect):
                sat[start + k] = start + k + 1 if k < nsect - 1 else 0xC000
            next_sector += nsect
            buf[start * SECT:start * SECT + len(data)] = data
            table += record(fname, ftype, len(data), start)
        table += b"\x00" * 8 + struct.pack("<H", 0xD747) + b"\x00" * 14
        buf[vsect * SECT:vsect * SECT + len(table)] = table
    assert next_sector <= max(size, 3)
    off = len(hdr)
    buf[off:off + len(vol_entries)] = vol_entries
    off = len(hdr) + 16 * AKAI_VOLUME_ENTRY_CNT
    buf[off:off + 2 * AKAI_SAT_ENTRY_CNT] = struct.pack(
        f"<{AKAI_SAT_ENTRY_CNT}H", *sat
    )
    return bytes(buf)


class TracingFile(io.BytesIO):

    def __init__(self, data):
        super().__init__(data)
        self.trace = []

    def tell(self):
        pos = super().tell()
        self.trace.append(("tell", pos))
        return pos

    def seek(self, *args):
        pos = super().seek(*args)
        self.trace.append(("seek", args, pos))
        return pos

    def read(self, *args):
        data = super().read(*args)
        self.trace.append(("read", args, len(data)))
        return data


class VolParent:
    path = ["IMG", "A:"]


_sat_cache = {}


def load_image(data):
    """header and SAT are decoded once per distinct header+SAT (the SAT decoder
    is slow); the SAT object of an image is rebuilt around that image's own
    traced stream the way the partition parser builds it (StreamOffset over
    the file, offset 0)."""
    vol_off = PREAMBLE_HDR_LEN
    key = bytes(data[:vol_off]) + bytes(data[vol_off + 16 * AKAI_VOLUME_ENTRY_CNT:PREAMBLE_LEN])
    if key not in _sat_cache:
        try:
            pre = HeaderSatParser.parse_stream(io.BytesIO(data))
        except BaseException as e:  # noqa: B902
            _sat_cache[key] = ("preamble-raise", type(e), str(e))
        else:
            _sat_cache[key] = (
                "ok", pre.header.total_size, pre.sat.size, pre.sat.sector_links
            )
    cached = _sat_cache[key]
    if cached[0] == "preamble-raise":
        return cached
    f = TracingFile(data)
    partition_stream = StreamOffset(f, cached[1], offset=0)
    sat = SegmentAllocationTable(partition_stream, cached[2], cached[3])
    return (f, sat)


def describe_file(f):
    item = [type(f).__name__, getattr(f, "name", None), list(getattr(f, "path", []))]
    for attr in ("sample_type", "sample_rate", "samples_cnt", "start", "end",
                 "loop_type", "note_pitch"):
        if hasattr(f, attr):
            item.append((attr, str(getattr(f, attr))))
    stream = getattr(f, "_data_stream", None)
    if stream is not None:
        try:
            stream.seek(0, 0)
            item.append(stream.read(6000))
            item.append(stream.tell())
        except BaseException as e:  # noqa: B902
            item.append(("data-raise", type(e), str(e)))
    return item


def describe_entries(entries):
    out = []
    for entry in entries:
        item = [type(entry).__name__, entry.name, str(entry.file_type),
                int(entry.file_type), type(entry.file_type).__name__]
        try:
            f = entry.file
        except BaseException as e:  # noqa: B902
            item.append(("file-raise", type(e), str(e).split("\n")[0],
                         type(e.__cause__), type(e.__context__)))
            out.append(item)
            continue
        item.append(describe_file(f))
        out.append(item)
    return out


def run_image(loaded, volume_starts):
    """what `ls` + export see: the volume table, then for each volume the file
    table entries, the Volume.files list (lazy per-file parse with error
    swallowing) and the first bytes of every file's audio."""
    if loaded[0] == "preamble-raise":
        return loaded
    f, sat = loaded
    f.seek(0)
    f.trace.clear()
    out = []
    parent = VolParent()
    f.trace.append(("--- volume table",))
    f.seek(PREAMBLE_HDR_LEN)
    for slot in range(4):
        try:
            v = VolumeEntryConstruct.parse_stream(f)
            out.append(("volume", v.name, str(v.type), v.start))
        except BaseException as e:  # noqa: B902
            out.append(("volume-raise", type(e), str(e).split("\n")[0]))
            f.seek(PREAMBLE_HDR_LEN + 16 * (slot + 1))
    for start in volume_starts:
        f.trace.append(("--- volume", start))
        try:
            table_stream = sat.get_segment(start)
            volume = Volume(name=f"V{start}", parent=parent,
                            path=parent.path + [f"V{start}"], routines={})
            adapter = FileEntriesAdapter(sat, FileEntryConstruct)
            entries = adapter.parse_stream(
                table_stream, _elem_parent=volume, _elem_routines={}
            )
            out.append(("ok", type(entries), describe_entries(entries)))
            volume.file_entries = entries
            files = volume.files
            out.append(("files", [describe_file(x) for x in files]))
        except BaseException as e:  # noqa: B902
            out.append(("table-raise", type(e), str(e).split("\n")[0]))
    return ("ok", out, list(f.trace))


def standard_images(seed, dense=True):
    """the good image plus single-byte and multi-byte damage confined to one
    file table entry (property C14), plus truncations."""
    rng = random.Random(seed)
    s1 = make_sample("SAMPLE A", 100, 1, sample_id=1)
    s2 = make_sample("SAMPLE B", 10000, 2)
    s3 = make_sample("THIRD", 32, 3, loop_type=0)
    volumes = [
        ("VOL ONE", 1, [("SAMPLE A", 0x73, s1), ("SAMPLE B", 0xF3, s2),
                        ("THIRD", 0x73, s3), ("FOURTH.-+#9", 0xF3, s1),
                        ("DRUMS", 0x64, b"\x01" * 40)]),
        ("SECOND", 3, [("X", 0x73, s3)]),
        ("EMPTY", 1, []),
    ]
    good = make_partition(16, volumes)
    images = [("good", good), ("truncated-body", good[:6 * SECT]),
              ("truncated-table", good[:3 * SECT + 30])]
    ft = 3 * SECT
    # entry 1: type byte, the three size bytes, the two start bytes: every value
    for field_off in (16, 17, 18, 19, 20, 21):
        values = range(256) if dense or field_off == 16 else range(0, 256, 5)
        for value in values:
            d = bytearray(good)
            d[ft + 1 * 24 + field_off] = value
            images.append((f"file[1]+{field_off}={value:#x}", bytes(d)))
    # every byte of entries 0, 2 and of the end marker slot, a few values
    for entry in (0, 2, 5):
        for field_off in range(24):
            for value in (0x00, 0x0A, 0x29, 0x47, 0x64, 0x71, 0xD7, 0xFF):
                d = bytearray(good)
                d[ft + entry * 24 + field_off] = value
                images.append((f"file[{entry}]+{field_off}={value:#x}", bytes(d)))
    for _ in range(150 if dense else 60):
        d = bytearray(good)
        base = ft + rng.randrange(0, 6) * 24
        for _ in range(rng.randrange(2, 8)):
            d[base + rng.randrange(24)] = rng.getrandbits(8)
        images.append(("random-entry-damage", bytes(d)))
    # damage inside the files themselves (headers of the samples)
    for _ in range(100 if dense else 40):
        d = bytearray(good)
        base = rng.choice([4, 5, 8, 9, 10, 12]) * SECT
        for _ in range(rng.randrange(1, 5)):
            d[base + rng.randrange(0, 40)] = rng.getrandbits(8)
        images.append(("file-header-damage", bytes(d)))
    return good, images, (s1, s2, s3)


STARTS = (3, 11, 13, 4000)
MORE_STARTS = STARTS + (2, 15)


def finish():
    print(f"{checked} checks, {len(failures)} failures")
    for msg in failures[:15]:
        print("FAIL:", msg[:600])
    return 1 if failures else 0

# ---------------------------------------------------------------- part A
class Signed(enum.IntEnum):
    MINUS = -2
    ZERO = 0
    PLUS = 7


class Aliased(enum.IntEnum):
    ONE = 1
    UNO = 1
    TWO = 2
    BIG = 300


class Flags(enum.IntEnum):
    A = 0x10
    B = 0x20
    C = 0xFF


ENUMS = (FileType, VolumeType, SampleType, AkaiLoopType, Signed, Aliased, Flags)


def decode_outcome(wrapper, obj, context=None, path="(path)"):
    try:
        value = wrapper._decode(obj, context, path)
    except BaseException as e:  # noqa: B902
        ctx = e.__context__
        return ("raise", type(e), str(e), type(e.__cause__), str(e.__cause__),
                type(ctx), str(ctx), e.__suppress_context__)
    members = [m for m in wrapper.recast.__members__.values() if m is value]
    return ("ok", type(value), value, int(value), value.name, len(members) > 0)


class LoggingRemap:
    """stands in for the Enum construct: logs how it is called."""

    def __init__(self, answers):
        self.answers = answers
        self.calls = []

    def _decode(self, *args, **kw):
        self.calls.append((args, kw))
        answer = self.answers[args[0]]
        if isinstance(answer, BaseException):
            raise answer
        return answer


def part_a():
    values = list(range(-300, 701))
    values += [10 ** 12, -10 ** 12, 2 ** 64, True, False, 0.0, 1.0, 3.0, 115.0, 0x73 + 0.5,
               float("nan"), float("inf"), "115", "0x73", "abc", "", " 3 ", "DRUM",
               "SAMPLE_S1000", b"s", b"115", None, (), (1,), 1 + 0j,
               EnumInteger(0x73), EnumInteger(5), EnumIntegerString.new(0x73, "SAMPLE_S1000"),
               EnumIntegerString.new(0x99, "BOGUS"), FileType.DRUM, Signed.MINUS]
    unhashable = [[], [1], {}, {1}, bytearray(b"s")]
    for E in ENUMS:
        wrapper = EnumWrapper(Int8ul, E)
        for obj in values + unhashable:
            a, b = both(decode_outcome, wrapper, obj)
            if isinstance(obj, float) and obj != obj:
                a, b = repr(a), repr(b)
            check(a == b, f"A {E.__name__} {obj!r}: {a} != {b}")
        # context and path are handed to the remap in the same (swapped) order
        for obj in (1, 0x73, 999):
            ctx, pth = {"k": obj}, f"path{obj}"

            def logged():
                w = EnumWrapper(Int8ul, E)
                w.remap = LoggingRemap({obj: obj})
                res = decode_outcome(w, obj, ctx, pth)
                return res, w.remap.calls
            a, b = both(logged)
            check(a == b and a[1] == [((obj, pth, ctx), {})], f"A-log {E.__name__} {obj}: {a} != {b}")
    # a remap that raises: only ValueError is translated
    errors = [ValueError("v"), KeyError("k"), TypeError("t"), IndexError("i"),
              UnicodeDecodeError("ascii", b"\xff", 0, 1, "r"), ConstructError("c"),
              OverflowError("o"), KeyboardInterrupt(), StopIteration(), ArithmeticError("a")]
    for n, err in enumerate(errors):
        def raising():
            w = EnumWrapper(Int8ul, FileType)
            w.remap = LoggingRemap({n: err})
            return decode_outcome(w, n), w.remap.calls
        a, b = both(raising)
        check(a == b, f"A-raise {err!r}: {a} != {b}")
    # a remap answering with things int() / recast reject
    for n, answer in enumerate(["x", "12", "115", None, 1.5, 115.0, [], b"115", 10 ** 40]):
        def answering():
            w = EnumWrapper(Int8ul, FileType)
            w.remap = LoggingRemap({n: answer})
            return decode_outcome(w, n)
        a, b = both(answering)
        check(a == b, f"A-answer {answer!r}: {a} != {b}")

    # expectations, independent of the inline copy
    w = EnumWrapper(Int8ul, FileType)
    res = decode_outcome(w, 0x73)
    check(res[:3] == ("ok", FileType, FileType.SAMPLE_S1000) and res[-1], f"0x73: {res}")
    res = decode_outcome(w, 0x99)
    check(res[0] == "raise" and res[1] is ConstructError and res[3] is ValueError
          and res[5] is ValueError and res[2] == "", f"0x99: {res}")
    known = [v for v in range(256) if decode_outcome(w, v)[0] == "ok"]
    check(known == sorted(int(m) for m in FileType) and len(known) == 7, f"known {known}")


# ---------------------------------------------------------------- part B
def parse_outcome(construct, data, **ctx):
    stream = io.BytesIO(data)
    try:
        value = construct.parse_stream(stream, **ctx)
    except BaseException as e:  # noqa: B902
        return ("raise", type(e), str(e).split("\n")[0], type(e.__cause__),
                type(e.__context__), stream.tell())
    return ("ok", type(value), str(value), stream.tell())


class FakeSat:
    def get_segment(self, start):
        return io.BytesIO(bytes(64))


def part_b():
    for E in ENUMS:
        single = EnumWrapper(Int8ul, E)
        double = EnumWrapper(Int16ub, E)
        masked = EnumWrapper(Computed(this.raw & 0x03), E)
        for value in range(256):
            a, b = both(parse_outcome, single, bytes([value, 0xEE]))
            check(a == b, f"B single {E.__name__} {value}: {a} != {b}")
            a, b = both(parse_outcome, double, bytes([value & 1, value, 0xEE]))
            check(a == b, f"B double {E.__name__} {value}: {a} != {b}")
            a, b = both(parse_outcome, masked, b"", raw=value)
            check(a == b, f"B masked {E.__name__} {value}: {a} != {b}")
        a, b = both(parse_outcome, single, b"")
        check(a == b and a[0] == "raise", f"B empty {E.__name__}: {a} != {b}")
    # one file table record, every type byte
    for value in range(256):
        rec = record("ENTRY", value, 40, 5) + b"\xEE" * 8

        def parse_record():
            stream = io.BytesIO(rec)
            try:
                c = FileEntryConstruct.parse_stream(stream, _={"sat": FakeSat()}, sat=FakeSat())
            except BaseException as e:  # noqa: B902
                return ("raise", type(e), str(e).split("\n")[0], stream.tell())
            return ("ok", c.name, c.file_type, type(c.file_type), c.size, c.start, stream.tell())
        a, b = both(parse_record)
        check(a == b, f"B record type={value}: {a} != {b}")
        check((a[0] == "ok") == (value in [int(m) for m in FileType]), f"B record kind {value}: {a}")
    # compiled structs
    for value in range(256):
        vol = akai_name("VOLUME") + bytes([value, 0x5A, 3, 0])
        a, b = both(parse_outcome, VolumeEntryConstruct, vol)
        check(a == b and (a[0] == "ok") == (value & 3 != 2), f"B volume entry {value}: {a} != {b}")
        for offset in (0, 19):
            hdr = bytearray(make_sample("NAME", 4, 9))
            hdr[offset] = value

            def parse_header():
                stream = io.BytesIO(bytes(hdr))
                try:
                    c = SampleHeaderConstruct.parse_stream(stream)
                except BaseException as e:  # noqa: B902
                    return ("raise", type(e), str(e).split("\n")[0], type(e.__cause__),
                            type(e.__context__), stream.tell())
                return ("ok", c.id, type(c.id), c.loop_type, type(c.loop_type),
                        c.sample_name, c.samples_cnt, c.sampling_rate, stream.tell())
            a, b = both(parse_header)
            check(a == b, f"B sample header [{offset}]={value}: {str(a)[:200]} != {str(b)[:200]}")


# ---------------------------------------------------------------- part C
def part_c():
    good, images, (s1, s2, s3) = standard_images(0x22C, dense=False)
    for label, data in images:
        loaded = load_image(data)
        which = MORE_STARTS if label in ("good", "truncated-body") else STARTS
        a, b = both(run_image, loaded, which)
        check(a == b, f"image mismatch {label}: {str(a)[:500]} != {str(b)[:500]}")

    res = run_image(load_image(good), (3, 11, 13))
    check(res[0] == "ok", f"good image lists: {str(res)[:300]}")
    if res[0] == "ok":
        tables = [v for v in res[1] if v[0] == "ok"]
        names = [[e[1] for e in v[2]] for v in tables]
        check(names == [["SAMPLE A", "SAMPLE B", "THIRD", "FOURTH.-+#9", "DRUMS"],
                        ["X"], []], f"entry names {names}")
        files = [v for v in res[1] if v[0] == "files"]
        check(files[0][1][0][-2] == s1[140:], "sample A audio bytes")
    others = ["SAMPLE A", "THIRD", "FOURTH.-+#9", "DRUMS"]
    for value in range(256):
        d = bytearray(good)
        d[3 * SECT + 24 + 16] = value      # type byte of entry 1
        res = run_image(load_image(bytes(d)), (3,))
        tables = [v for v in res[1] if v[0] == "ok"]
        listed = [e[1] for e in tables[0][2]]
        if value in [int(m) for m in FileType]:
            check(listed == ["SAMPLE A", "SAMPLE B"] + others[1:], f"type {value:#x}: {listed}")
        else:
            check(listed == others, f"an unknown type byte {value:#x} drops only that entry: {listed}")


def main():
    check(EnumWrapper.__dict__["_decode"] is LIVE, "setup")
    part_a()
    part_b()
    part_c()
    check(EnumWrapper.__dict__["_decode"] is LIVE, "class restored")
    return finish()


if __name__ == "__main__":
    sys.exit(main())
