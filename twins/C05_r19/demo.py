"""Equivalence demo for r19: transcoder.PipelineTranscoder.__next__ (the
`for process in processes: f_process = process[1]` loop now iterates over
`map(itemgetter(1), processes)`; the `result` temporary was inlined) versus an
inline copy of the ORIGINAL method.

1. real pipelines from make_transcoder for many source layouts (1..4 split
   mono streams as produced by combine_stereo, interleaved sources, mixed
   endianess -> swap / swap_multi / output swap processes, equal and unequal
   stream lengths, lengths around the buffer size, empty streams): the list of
   blocks produced by iterating the current class and the original class over
   identical fresh streams is the same, as are the stream positions afterwards;
2. synthetic pipelines whose decode / process / encode callables are logged:
   same call sequence, same arguments, same results, same handling of
   SectorReadError, empty channels, exceptions raised by a process, process
   entries that are lists / longer tuples / too short / objects with a logging
   __getitem__, and a process list mutated while it is being walked;
3. a merged L/R pair exported with export_wav into a fresh temp dir has the
   expected interleaved PCM.
Exit 0 when everything agrees, 1 otherwise.
"""
from dataclasses import dataclass
import io
import os
import random
import shutil
import struct
import sys
import tempfile
from typing import List

import numpy as np

from smpl_extract.data_streams import DataStream
from smpl_extract.data_streams import Endianess
from smpl_extract.data_streams import StreamEncoding
from smpl_extract.generalized.sample import combine_stereo
from smpl_extract.generalized.sample import Sample
from smpl_extract.generalized.wav import export_wav
from smpl_extract.transcoder import make_transcoder
from smpl_extract.transcoder import PassthroughTranscoder
from smpl_extract.transcoder import PipelineTranscoder
from smpl_extract.transcoder import TranscodePipelineStruct
from smpl_extract.util.stream import SectorReadError


@dataclass
class OriginalPipelineTranscoder:
    data_streams: List[DataStream]
    pipeline: TranscodePipelineStruct

    def __iter__(self):
        return self

    # verbatim copy of the ORIGINAL method
    def __next__(self):
        try:
            channels = self.pipeline.f_decode(self.data_streams)
        except SectorReadError:  # TODO: Create more robust handling for this
            raise StopIteration
        if any(len(x) <= 0 for x in channels):
            raise StopIteration

        for process in self.pipeline.processes:
            f_process = process[1]
            channels = f_process(channels)

        result = self.pipeline.f_encode(channels)
        return result


failures = []


def check(cond, what):
    if not cond:
        failures.append(what)
        if len(failures) <= 20:
            print("MISMATCH:", what)


def drain(transcoder, limit=10000):
    blocks = []
    try:
        for block in transcoder:
            blocks.append(block)
            if len(blocks) > limit:
                raise RuntimeError("does not terminate")
    except BaseException as e:  # noqa
        return blocks, (type(e), str(e))
    return blocks, None


rng = random.Random(1905)
num = 0

# --------------------------------------------------------------------------
# 1. real pipelines
# --------------------------------------------------------------------------
def random_layout():
    width = rng.choice([1, 2, 4])
    signed = rng.choice([True, True, False])
    streams = []
    total = 0
    for _ in range(rng.randint(1, 4)):
        channels = rng.choice([1, 1, 1, 2, 3])
        endianess = rng.choice([Endianess.LITTLE, Endianess.LITTLE, Endianess.BIG])
        base = rng.choice([0, 1, 7, 0x1000 // (width * channels), 2 * 0x1000 // (width * channels), 3000])
        frames = max(0, base + rng.choice([-1, 0, 0, 1, 5]))
        extra = rng.choice([0, 0, 1]) if width * channels > 1 else 0
        data = bytes(rng.getrandbits(8) for _ in range(frames * width * channels + extra))
        streams.append((data, StreamEncoding(endianess, width, channels, signed)))
        total += channels
    dest = StreamEncoding(
        rng.choice([Endianess.LITTLE, Endianess.LITTLE, Endianess.BIG]),
        rng.choice([width, width, 1, 2, 4]), total, rng.choice([signed, signed, not signed])
    )
    return streams, dest


def build(cls, layout, dest):
    data_streams = [DataStream(io.BytesIO(d), e) for d, e in layout]
    made = make_transcoder(data_streams, dest)
    if isinstance(made, PassthroughTranscoder):
        return None, data_streams
    return cls(data_streams, made.pipeline), data_streams


kinds = set()
for trial in range(1200):
    layout, dest = random_layout()
    new_t, new_streams = build(PipelineTranscoder, layout, dest)
    old_t, old_streams = build(OriginalPipelineTranscoder, layout, dest)
    if new_t is None:
        continue
    kinds.add(tuple(p[0] for p in new_t.pipeline.processes))
    a = drain(new_t)
    b = drain(old_t)
    check(a == b, ("real pipeline", trial, layout[0][1], dest, len(a[0]), len(b[0]), a[1], b[1]))
    check([s.stream.tell() for s in new_streams] == [s.stream.tell() for s in old_streams],
          ("stream positions", trial))
    # exhausted transcoders stay exhausted in the same way
    check(drain(new_t) == drain(old_t), ("second drain", trial))
    num += 1
check(len(kinds) >= 4, ("process mixes seen", kinds))

# the two-mono-streams case (a merged L/R pair) against the expected bytes
for width, dtype in ((1, "int8"), (2, "<i2"), (4, "<i4")):
    for frames in (1, 2, 100, 0x1000 // width, 0x1000 // width + 1, 5000):
        left = bytes(rng.getrandbits(8) for _ in range(frames * width))
        right = bytes(rng.getrandbits(8) for _ in range(frames * width))
        enc = StreamEncoding(Endianess.LITTLE, width, 1)
        dest = StreamEncoding(Endianess.LITTLE, width, 2)
        expected = np.stack(
            [np.frombuffer(left, dtype=dtype), np.frombuffer(right, dtype=dtype)], axis=1
        ).reshape(-1).tobytes()
        for cls in (PipelineTranscoder, OriginalPipelineTranscoder):
            t, _ = build(cls, [(left, enc), (right, enc)], dest)
            blocks, err = drain(t)
            check(err is None and b"".join(blocks) == expected, ("L/R interleave", cls.__name__, width, frames))
            num += 1


# --------------------------------------------------------------------------
# 2. synthetic pipelines with logging
# --------------------------------------------------------------------------
class LoggingEntry:
    """process entry that is not a tuple: logs how it is indexed"""

    def __init__(self, log, label, func):
        self.log, self.label, self.func = log, label, func

    def __getitem__(self, index):
        self.log.append(("getitem", self.label, index))
        if index == 1:
            return self.func
        raise IndexError(index)


def scenario(cls, spec, seed):
    log = []
    local = random.Random(seed)
    frames = [
        [np.arange(local.randint(1, 6), dtype="int16") + k for _ in range(local.randint(1, 3))]
        for k in range(spec["num_frames"])
    ]
    state = {"i": 0}

    def f_decode(streams):
        log.append(("decode", len(streams), state["i"]))
        i = state["i"]
        state["i"] += 1
        if spec.get("sector_error_at") == i:
            raise SectorReadError("bad sector")
        if spec.get("decode_error_at") == i:
            raise ValueError("decode failed")
        if i >= len(frames):
            return [np.zeros(0, dtype="int16")]
        if spec.get("empty_channel_at") == i:
            return frames[i] + [np.zeros(0, dtype="int16")]
        if spec.get("no_channels_at") == i:
            return []
        return frames[i]

    def make_process(label, k):
        def f(channels):
            log.append(("process", label, [c.tolist() for c in channels]))
            if spec.get("process_error") == (label, state["i"] - 1):
                raise KeyError("process failed " + label)
            if spec.get("mutate_at") == (label, state["i"] - 1):
                processes.append(("late", make_process("late", 100)))
            if spec.get("shrink_at") == (label, state["i"] - 1):
                del processes[-1]
            return [c + k for c in channels]
        return f

    def f_encode(channels):
        log.append(("encode", [c.tolist() for c in channels]))
        if spec.get("encode_error_at") == state["i"] - 1:
            raise OverflowError("encode failed")
        return b"|".join(c.tobytes() for c in channels)

    processes = []
    for n, shape in enumerate(spec["entries"]):
        label = "p%d" % n
        func = make_process(label, n + 1)
        if shape == "tuple":
            processes.append((label, func))
        elif shape == "list":
            processes.append([label, func])
        elif shape == "triple":
            processes.append((label, func, "extra"))
        elif shape == "short":
            processes.append((label,))
        elif shape == "object":
            processes.append(LoggingEntry(log, label, func))
        elif shape == "notcallable":
            processes.append((label, None))
        elif shape == "string":
            processes.append("ab")
        elif shape == "int":
            processes.append(5)
    if spec.get("processes_as") == "tuple":
        processes = tuple(processes)
    elif spec.get("processes_as") == "iterator_factory":
        class Reiterable:
            def __iter__(self_inner):
                log.append(("iter processes",))
                return iter(list(processes))
        processes_obj = Reiterable()
    pipeline = TranscodePipelineStruct(
        f_decode,
        processes_obj if spec.get("processes_as") == "iterator_factory" else processes,
        f_encode
    )
    transcoder = cls(["s1", "s2"], pipeline)
    out = []
    for _ in range(spec["num_frames"] + 3):
        try:
            out.append(("ok", next(transcoder)))
        except BaseException as e:  # noqa
            out.append(("exc", type(e), str(e)))
    return out, log


entry_shapes = ["tuple", "list", "triple", "short", "object", "notcallable", "string", "int"]
specs = []
for n_entries in range(0, 4):
    for _ in range(60):
        spec = {
            "num_frames": rng.randint(0, 4),
            "entries": [rng.choice(["tuple", "tuple", "tuple"] + entry_shapes) for _ in range(n_entries)],
        }
        r = rng.random()
        frame = rng.randint(0, 3)
        label = "p%d" % rng.randint(0, 2)
        if r < 0.1:
            spec["sector_error_at"] = frame
        elif r < 0.2:
            spec["decode_error_at"] = frame
        elif r < 0.3:
            spec["empty_channel_at"] = frame
        elif r < 0.35:
            spec["no_channels_at"] = frame
        elif r < 0.45:
            spec["process_error"] = (label, frame)
        elif r < 0.55:
            spec["mutate_at"] = (label, frame)
        elif r < 0.62:
            spec["shrink_at"] = (label, frame)
        elif r < 0.7:
            spec["encode_error_at"] = frame
        r = rng.random()
        if r < 0.15:
            spec["processes_as"] = "tuple"
        elif r < 0.3:
            spec["processes_as"] = "iterator_factory"
        specs.append(spec)

for n, spec in enumerate(specs):
    if spec.get("processes_as") == "tuple":
        spec.pop("mutate_at", None)
        spec.pop("shrink_at", None)
    a = scenario(PipelineTranscoder, spec, n)
    b = scenario(OriginalPipelineTranscoder, spec, n)
    check(a == b, ("synthetic", spec, a, b))
    num += 1


# --------------------------------------------------------------------------
# 3. export of a merged pair
# --------------------------------------------------------------------------
tmp_dir = tempfile.mkdtemp(prefix="r19_demo_")
try:
    for trial in range(25):
        frames = rng.randint(1, 9000)
        left = bytes(rng.getrandbits(8) for _ in range(frames * 2))
        right = bytes(rng.getrandbits(8) for _ in range(frames * 2))
        enc = StreamEncoding(Endianess.LITTLE, 2, 1)
        merged = combine_stereo(
            Sample(name="X-L", data_streams=[DataStream(io.BytesIO(left), enc)]),
            Sample(name="X-R", data_streams=[DataStream(io.BytesIO(right), enc)]),
            "X"
        )
        path = os.path.join(tmp_dir, "X%d.wav" % trial)
        export_wav(merged, path)
        with open(path, "rb") as f:
            blob = f.read()
        pos = blob.find(b"fmt ")
        check(struct.unpack("<H", blob[pos + 10:pos + 12])[0] == 2, ("wav channels", trial))
        pos = blob.find(b"data")
        size = struct.unpack("<I", blob[pos + 4:pos + 8])[0]
        expected = np.stack(
            [np.frombuffer(left, dtype="<i2"), np.frombuffer(right, dtype="<i2")], axis=1
        ).reshape(-1).tobytes()
        check(blob[pos + 8:pos + 8 + size] == expected, ("wav pcm", trial))
        num += 1
finally:
    shutil.rmtree(tmp_dir, ignore_errors=True)

print(f"r19 demo: {num} scenarios, {len(failures)} mismatches")
sys.exit(1 if failures else 0)
