"""Equivalence demo for r5: StreamWrapper.readall (smpl_extract/util/stream.py).

Compares the module's readall with an inline copy of the ORIGINAL
implementation on many streams (plain, offset, reversed), sizes, start
positions and buffer lengths.  The returned bytes, the raised exception,
the final stream state and the exact sequence of seek/read calls made on
the shared sub-stream must all agree.
"""
import io
import itertools
import random
import sys

from smpl_extract.util.stream import StreamOffset
from smpl_extract.util.stream import StreamReversed
from smpl_extract.util.stream import StreamWrapper


def original_readall(self) -> bytes:
    result = bytes()
    while True:
        new_read = self.read(self.buffer_length)
        if len(new_read) < 1:
            break
        result += new_read

    return result


class LoggingBytesIO(io.BytesIO):
    def __init__(self, data):
        super().__init__(data)
        self.log = []

    def seek(self, *args):
        r = super().seek(*args)
        self.log.append(("seek", args, r))
        return r

    def read(self, *args):
        r = super().read(*args)
        self.log.append(("read", args, r))
        return r

    def tell(self):
        r = super().tell()
        self.log.append(("tell", r))
        return r


def run(factory, fn):
    sub, wrapper = factory()
    try:
        out = ("ok", fn(wrapper))
        if type(out[1]) is not bytes:
            out = ("badtype", type(out[1]).__name__, bytes(out[1]))
    except RecursionError:
        out = ("exc", "RecursionError")
    except Exception as e:  # noqa: BLE001
        out = ("exc", type(e).__name__, str(e))
    state = (wrapper.position, wrapper.true_size, wrapper.end_of_file)
    return out, state, list(sub.log), super(LoggingBytesIO, sub).tell()


failures = 0
cases = 0


def check(label, factory):
    global failures, cases
    cases += 1
    new = run(factory, lambda w: w.readall())
    old = run(factory, original_readall)
    # also via the public read(None)/read(-1) entry points
    new2 = run(factory, lambda w: w.read(None))
    new3 = run(factory, lambda w: w.read(-1))
    if not (new == old == new2 == new3):
        failures += 1
        print("MISMATCH", label)
        print("  new:", new[0], new[1])
        print("  old:", old[0], old[1])


rng = random.Random(1313)
datas = [b"", b"a", bytes(range(16)), bytes(rng.randrange(256) for _ in range(257)),
         bytes(rng.randrange(256) for _ in range(4096 + 5))]
buffer_lengths = [0, 1, 2, 3, 7, 16, 0x1000, 5000]

for data, buf in itertools.product(datas, buffer_lengths):
    n = len(data)
    sizes = sorted({0, 1, n // 2, n, n + 3, -1} | {rng.randrange(0, n + 1)})
    positions = sorted({0, 1, n // 2, n, n + 2})
    for size, pos in itertools.product(sizes, positions):
        check(
            f"wrapper n={n} buf={buf} size={size} pos={pos}",
            lambda: (lambda s: (s, StreamWrapper(s, size, position=pos, buffer_length=buf)))(
                LoggingBytesIO(data)),
        )
        for off in (0, 1, 5, n):
            check(
                f"offset n={n} buf={buf} size={size} pos={pos} off={off}",
                lambda: (lambda s: (s, StreamOffset(s, size, off, position=pos, buffer_length=buf)))(
                    LoggingBytesIO(data)),
            )
        for width in (1, 2, 3):
            check(
                f"reversed n={n} buf={buf} size={size} pos={pos} w={width}",
                lambda: (lambda s: (s, StreamReversed(s, size, sample_width=width, position=pos,
                                                      buffer_length=buf)))(LoggingBytesIO(data)),
            )

# size None (unbounded end_of_file) and nested wrappers
for data, buf in itertools.product(datas, [1, 3, 64, 0x1000]):
    check(
        f"none-size n={len(data)} buf={buf}",
        lambda: (lambda s: (s, StreamWrapper(s, None, buffer_length=buf)))(LoggingBytesIO(data)),
    )

    def nested():
        s = LoggingBytesIO(data)
        inner = StreamOffset(s, max(len(data) - 2, 0), 2, buffer_length=7)
        outer = StreamWrapper(inner, max(len(data) - 3, 0), buffer_length=buf)
        return s, outer
    check(f"nested n={len(data)} buf={buf}", nested)


# sub-streams whose read() hands back other bytes-like / odd chunk sequences
class ScriptedSub(io.RawIOBase):
    def __init__(self, script):
        self.script = list(script)
        self.log = []

    def tell(self):
        return 0

    def seek(self, *a):
        return 0

    def read(self, size=-1):
        self.log.append(("read", size))
        return self.script.pop(0) if self.script else b""


for script in ([b"ab", b"", b"cd"], [b"x"] * 5, [bytearray(b"ab"), b"cd"], [b"ab", None]):
    def scripted():
        s = ScriptedSub(script)
        return s, StreamWrapper(s, None, buffer_length=4)

    def run_s(fn):
        s, w = scripted()
        try:
            out = ("ok", bytes(fn(w)))
        except Exception as e:  # noqa: BLE001
            out = ("exc", type(e).__name__)
        return out, s.log, w.position

    cases += 1
    if run_s(lambda w: w.readall()) != run_s(original_readall):
        failures += 1
        print("MISMATCH scripted", script)

print(f"{cases} cases, {failures} failures")
sys.exit(1 if failures else 0)
