"""Equivalence demo for r21: smpl_extract/util/sector.py SectorStream.

The refactoring splits the class in two - a private base `_SectorAddressing`
(constructor, _get_address_given_sector_index, _translate_address) and the
public `SectorStream` (the reads) - and moves the "Reading too much" guard of
_read_sector into a new private method `_check_within_sector`.

The demo carries a verbatim copy of the ORIGINAL single class and drives it
and the live class with the same scripts, over parents that log every call:
  * direct _read_sector / _get_address_given_sector_index / _translate_address
    calls on a grid of arguments (in range, at the boundary, beyond, negative,
    zero, float),
  * random seek/read/tell/readall scripts over complete and truncated parents
    (plain BytesIO, a StreamOffset window as used for AKAI partitions),
  * the same for subclasses that override _get_address_given_sector_index in
    the way util/fat.py FileStream and alcohol/mdf.py MdfStream do (built on
    top of the original and of the live base), and for the live FileStream,
  * PassthroughTranscoder / make_transcoder pipelines over truncated chains.
Compared: return values, exception type and text, position / true_size /
end_of_file after every step and the exact sequence of calls on the parent.
Exit 0 when everything agrees, 1 otherwise.
"""
from io import BytesIO
from io import IOBase
from io import SEEK_CUR
from io import SEEK_END
from io import SEEK_SET
import random
import sys

from smpl_extract.data_streams import DataStream
from smpl_extract.data_streams import Endianess
from smpl_extract.data_streams import StreamEncoding
from smpl_extract.transcoder import make_transcoder
from smpl_extract.util import sector as live_sector
from smpl_extract.util.fat import FileStream as LiveFileStream
from smpl_extract.util.stream import AttemptToReadBeyondBuffer
from smpl_extract.util.stream import SectorReadError
from smpl_extract.util.stream import StreamOffset
from smpl_extract.util.stream import StreamWrapper


LiveSectorStream = live_sector.SectorStream


# --------------------------------------------------------------------------
# ORIGINAL implementation (verbatim copy, class renamed)
# --------------------------------------------------------------------------
class OrigSectorStream(StreamWrapper):


    def __init__(
            self,
            parent_stream:  IOBase,
            size:           int,
            sector_length:  int,
            position:       int = 0,
            buffer_length:  int = 0x1000
    ) -> None:

        super().__init__(
            parent_stream,
            size=size,
            position=position,
            buffer_length=buffer_length
        )

        self.sector_length = sector_length


    def _get_address_given_sector_index(
            self,
            sector_index: int,
            offset: int
        ):
        sector_address  = sector_index * self.sector_length

        parent_address = sector_address + offset
        return parent_address


    def _translate_address(
            self,
            content_address: int
    )->int:

        if content_address >= self.end_of_file:
            return self.end_of_file

        sector_index    = content_address // self.sector_length
        sector_offset   = content_address % self.sector_length

        partition_address = self._get_address_given_sector_index(
            sector_index,
            sector_offset
        )
        return partition_address


    def _read_sector(
            self,
            sector_index: int,
            offset: int,
            size: int
    )->bytes:
        if offset + size > self.sector_length:
            raise AttemptToReadBeyondBuffer("Reading too much")

        start_address = self._get_address_given_sector_index(
            sector_index,
            offset
        )

        self.substream.seek(start_address, SEEK_SET)
        result = self.substream.read(size)
        return result


    def _read(self, size: int)->bytes:

        if size <= 0:
            return bytes()

        remaining_size = size

        initial_sector_index    = self.position // self.sector_length
        initial_sector_offset   = self.position % self.sector_length

        # read partial initial sector
        if initial_sector_offset + size <= self.sector_length:
            initial_read_size = size
        else:
            initial_read_size = self.sector_length - initial_sector_offset
        result = self._read_sector(
            initial_sector_index,
            initial_sector_offset,
            initial_read_size
        )
        remaining_size -= initial_read_size

        # read full size middle sectors
        i = 1
        while remaining_size > self.sector_length:
            result += self._read_sector(
                initial_sector_index + i,
                0,
                self.sector_length
            )
            remaining_size -= self.sector_length
            i += 1

        # read partial final sector
        final_sector_index = initial_sector_index + i
        if remaining_size > 0:
            result += self._read_sector(
                final_sector_index,
                0,
                remaining_size
            )

        if len(result) != size:
            raise SectorReadError(f"Wanted {size}, read {len(result)}.")

        return result


# --------------------------------------------------------------------------
# subclasses in the style of util/fat.py FileStream and alcohol/mdf.py
# MdfStream, parameterised by the base class
# --------------------------------------------------------------------------
def make_chain_class(base):
    class ChainStream(base):
        def __init__(self, parent_stream, sector_size, sector_list,
                     position=0, buffer_length=0x1000):
            super().__init__(
                parent_stream,
                size=(sector_size * len(sector_list)),
                sector_length=sector_size,
                position=position,
                buffer_length=buffer_length
            )
            self.sector_list = sector_list

        def _get_address_given_sector_index(self, sector_index, offset):
            try:
                sector = self.sector_list[sector_index]
            except IndexError as e:
                raise SectorReadError(
                    f"Sector {sector_index} lies beyond the "
                    f"{len(self.sector_list)} sectors of the file."
                ) from e
            result = super()._get_address_given_sector_index(sector, offset)
            return result
    return ChainStream


def make_framed_class(base, frame, head):
    class FramedStream(base):
        def __init__(self, parent_stream, body, count,
                     position=0, buffer_length=0x1000):
            super().__init__(
                parent_stream,
                size=body * count,
                sector_length=body,
                position=position,
                buffer_length=buffer_length
            )

        def _get_address_given_sector_index(self, sector_index, offset):
            sector_address = sector_index * frame
            return sector_address + head + offset
    return FramedStream


OrigChain = make_chain_class(OrigSectorStream)
LiveChain = make_chain_class(LiveSectorStream)
OrigFramed = make_framed_class(OrigSectorStream, 24, 5)
LiveFramed = make_framed_class(LiveSectorStream, 24, 5)


# --------------------------------------------------------------------------
# logging parent
# --------------------------------------------------------------------------
class LoggedBytesIO(BytesIO):
    def __init__(self, data):
        super().__init__(data)
        self.log = []

    def seek(self, offset, whence=SEEK_SET):
        self.log.append(("seek", offset, whence))
        return super().seek(offset, whence)

    def read(self, size=-1):
        self.log.append(("read", size))
        return super().read(size)

    def tell(self):
        self.log.append(("tell",))
        return super().tell()


failures = []
checks = 0


def check(label, a, b):
    global checks
    checks += 1
    if a != b:
        failures.append(label)
        if len(failures) <= 20:
            print("MISMATCH", label)
            print("   orig:", repr(a)[:300])
            print("   live:", repr(b)[:300])


def outcome(f, *args, **kwargs):
    try:
        return ("ok", f(*args, **kwargs))
    except BaseException as e:  # noqa - every kind is compared
        cause = e.__cause__
        return (
            "raise", type(e).__name__, str(e),
            None if cause is None else (type(cause).__name__, str(cause))
        )


def state(s):
    return (
        s.position, s.true_size, s.end_of_file,
        s.sector_length, s.buffer_length
    )


def pattern_bytes(n, seed):
    rnd = random.Random(seed)
    return bytes(rnd.randrange(256) for _ in range(n))


# --------------------------------------------------------------------------
# 1. class surface
# --------------------------------------------------------------------------
def public_surface(cls):
    names = set()
    for klass in cls.__mro__:
        if klass in (StreamWrapper, IOBase, object) \
                or klass.__module__ in ("io", "_io", "builtins"):
            continue
        names.update(
            k for k in vars(klass)
            if not (k.startswith("__") and k != "__init__")
        )
    return names


check("class name", "SectorStream", LiveSectorStream.__name__)
check("class module", "smpl_extract.util.sector", LiveSectorStream.__module__)
check("is a StreamWrapper", True, issubclass(LiveSectorStream, StreamWrapper))
check("live FileStream derives", True,
      issubclass(LiveFileStream, LiveSectorStream))
orig_surface = public_surface(OrigSectorStream)
live_surface = public_surface(LiveSectorStream)
# everything the original offered is still there; only private additions
check("surface kept", True, orig_surface <= live_surface)
check("only private additions", True,
      all(n.startswith("_") for n in live_surface - orig_surface))
for meth in ("_read", "_read_sector", "_translate_address",
             "_get_address_given_sector_index", "__init__"):
    import inspect
    check(
        f"signature {meth}",
        str(inspect.signature(getattr(OrigSectorStream, meth))),
        str(inspect.signature(getattr(LiveSectorStream, meth)))
    )


# --------------------------------------------------------------------------
# 2. direct calls of the helpers
# --------------------------------------------------------------------------
GRID = [-3, -1, 0, 1, 2, 7, 8, 9, 15, 16, 17, 31, 32, 33, 100, 2.5, 8.0]


def pair(kind, data, **kw):
    pa, pb = LoggedBytesIO(data), LoggedBytesIO(data)
    if kind == "plain":
        a = OrigSectorStream(pa, **kw)
        b = LiveSectorStream(pb, **kw)
    elif kind == "chain":
        a = OrigChain(pa, **kw)
        b = LiveChain(pb, **kw)
    elif kind == "live_chain":
        a = OrigChain(pa, **kw)
        b = LiveFileStream(pb, **kw)
    elif kind == "framed":
        a = OrigFramed(pa, **kw)
        b = LiveFramed(pb, **kw)
    else:
        raise ValueError(kind)
    return pa, pb, a, b


DATA = pattern_bytes(400, 1)
for data_len in (400, 137, 64, 16, 3, 0):
    data = DATA[:data_len]
    for kind, kw in (
        ("plain", dict(size=320, sector_length=16)),
        ("plain", dict(size=100, sector_length=7, position=5)),
        ("plain", dict(size=0, sector_length=16)),
        ("chain", dict(sector_size=16, sector_list=[9, 2, 3, 20, 0, 7])),
        ("live_chain", dict(sector_size=16, sector_list=[9, 2, 3, 20, 0, 7])),
        ("live_chain", dict(sector_size=16, sector_list=[])),
        ("framed", dict(body=16, count=12)),
    ):
        pa, pb, a, b = pair(kind, data, **kw)
        label = f"{kind} {kw} len={data_len}"
        check(label + " init state", state(a), state(b))
        for x in GRID:
            check(label + f" translate {x}",
                  outcome(a._translate_address, x),
                  outcome(b._translate_address, x))
            for y in GRID:
                check(label + f" address {x},{y}",
                      outcome(a._get_address_given_sector_index, x, y),
                      outcome(b._get_address_given_sector_index, x, y))
        for idx in (-1, 0, 1, 3, 5, 6, 30):
            for off in GRID:
                for size in GRID:
                    if isinstance(size, float) or isinstance(off, float):
                        if off + size <= 16:
                            # BytesIO would refuse float arguments in both;
                            # still compared
                            pass
                    ra = outcome(a._read_sector, idx, off, size)
                    rb = outcome(b._read_sector, idx, off, size)
                    check(label + f" read_sector {idx},{off},{size}", ra, rb)
                    check(label + f" read_sector state {idx},{off},{size}",
                          state(a), state(b))
        check(label + " parent log", pa.log, pb.log)


# --------------------------------------------------------------------------
# 3. random scripts
# --------------------------------------------------------------------------
def run_script(stream, script):
    trace = []
    for op in script:
        if op[0] == "read":
            trace.append(outcome(stream.read, op[1]))
        elif op[0] == "seek":
            trace.append(outcome(stream.seek, op[1], op[2]))
        elif op[0] == "tell":
            trace.append(outcome(stream.tell))
        elif op[0] == "readall":
            trace.append(outcome(stream.readall))
        elif op[0] == "_read":
            trace.append(outcome(stream._read, op[1]))
        trace.append(state(stream))
    return trace


def random_script(rnd, size, sector):
    script = []
    for _ in range(rnd.randrange(1, 14)):
        r = rnd.random()
        if r < 0.55:
            choice = rnd.choice([
                0, 1, sector - 1, sector, sector + 1, 2 * sector,
                3 * sector + 2, rnd.randrange(0, max(1, size + 10)),
                size, None, -1
            ])
            script.append(("read", choice))
        elif r < 0.8:
            whence = rnd.choice([SEEK_SET, SEEK_CUR, SEEK_END])
            script.append(
                ("seek", rnd.randrange(-size - 5, size + 20), whence)
            )
        elif r < 0.88:
            script.append(("tell",))
        elif r < 0.94:
            script.append(("_read", rnd.choice(
                [-1, 0, 1, sector, 2 * sector + 1, size]
            )))
        else:
            script.append(("readall",))
    return script


rnd = random.Random(20240521)
for case in range(1500):
    sector = rnd.choice([1, 2, 3, 7, 8, 16, 32])
    count = rnd.randrange(0, 12)
    kind = rnd.choice(["plain", "chain", "live_chain", "framed"])
    full_len = rnd.randrange(0, 500)
    cut = rnd.choice([full_len, rnd.randrange(0, full_len + 1)])
    data = pattern_bytes(full_len, case)[:cut]
    position = rnd.choice([0, 0, 0, rnd.randrange(0, sector * count + 1)])
    buffer_length = rnd.choice([0x1000, 1, 5, sector, 64])
    if kind == "plain":
        kw = dict(size=sector * count + rnd.choice([0, 0, 1, sector // 2]),
                  sector_length=sector)
        total = kw["size"]
    elif kind in ("chain", "live_chain"):
        kw = dict(
            sector_size=sector,
            sector_list=[rnd.randrange(0, 40) for _ in range(count)]
        )
        total = sector * count
    else:
        kw = dict(body=sector, count=count)
        total = sector * count
    kw.update(position=position, buffer_length=buffer_length)
    pa, pb, a, b = pair(kind, data, **kw)
    script = random_script(rnd, total, sector)
    label = f"script {case} {kind}"
    check(label + " trace", run_script(a, script), run_script(b, script))
    check(label + " parent log", pa.log, pb.log)
    check(label + " parent pos", BytesIO.tell(pa), BytesIO.tell(pb))


# --------------------------------------------------------------------------
# 4. a partition-style window (StreamOffset) as parent, file cut anywhere
# --------------------------------------------------------------------------
IMAGE = pattern_bytes(0x600, 99)
CHAIN = [5, 6, 9, 2, 30, 11]
for cut in list(range(0, 0x600, 37)) + [0x600]:
    image = IMAGE[:cut]
    traces = []
    for cls in (OrigChain, LiveChain, LiveFileStream):
        raw = LoggedBytesIO(image)
        window = StreamOffset(raw, size=0x500, offset=0x40)
        s = cls(window, 32, list(CHAIN))
        trace = []
        for n in (10, 22, 32, 33, 64, 200):
            trace.append(outcome(s.read, n))
            trace.append(state(s))
            trace.append((window.position, window.true_size))
        s.seek(0, SEEK_SET)
        trace.append(outcome(s.read, None))
        trace.append(raw.log)
        traces.append(trace)
    check(f"window cut {cut} orig/live-base", traces[0], traces[1])
    check(f"window cut {cut} orig/FileStream", traces[0], traces[2])


# --------------------------------------------------------------------------
# 5. transcoders over truncated chains
# --------------------------------------------------------------------------
def drain(transcoder):
    out = []
    try:
        for block in transcoder:
            out.append(bytes(block))
    except BaseException as e:  # noqa
        out.append(("raise", type(e).__name__, str(e)))
    return out


ENC_MONO_BE = StreamEncoding(Endianess.BIG, 2, 1)
ENC_MONO_LE = StreamEncoding(Endianess.LITTLE, 2, 1)
ENC_STEREO_LE = StreamEncoding(Endianess.LITTLE, 2, 2)
for cut in list(range(0, 0x600, 53)) + [0x600]:
    image = IMAGE[:cut]
    results = []
    for cls in (OrigChain, LiveChain, LiveFileStream):
        res = []
        # passthrough
        s = cls(BytesIO(image), 64, [1, 2, 3, 8, 9, 4])
        res.append(drain(make_transcoder(
            [DataStream(s, ENC_MONO_LE)], ENC_MONO_LE
        )))
        # single stream with byte swap
        s = cls(BytesIO(image), 64, [1, 2, 3, 8, 9, 4])
        res.append(drain(make_transcoder(
            [DataStream(s, ENC_MONO_BE)], ENC_MONO_LE
        )))
        # stereo pair from two chains, right one further back in the image
        left = cls(BytesIO(image), 64, [1, 2, 3])
        right = cls(BytesIO(image), 64, [12, 13, 20])
        res.append(drain(make_transcoder(
            [DataStream(left, ENC_MONO_LE), DataStream(right, ENC_MONO_BE)],
            ENC_STEREO_LE
        )))
        results.append(res)
    check(f"transcode cut {cut} orig/live-base", results[0], results[1])
    check(f"transcode cut {cut} orig/FileStream", results[0], results[2])


print(f"{checks} checks, {len(failures)} mismatches")
sys.exit(1 if failures else 0)
