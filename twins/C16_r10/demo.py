"""Equivalence demo for r10: pull_child_info (smpl_extract/util/constructs.py).

The live function is compared with an inline copy of the ORIGINAL
implementation on a few thousand generated contexts:

  * plain dicts, construct Containers and a logging dict subclass that
    records every keys()/__getitem__/__contains__/get access (so the ORDER of
    context reads is part of the comparison),
  * keys present at the top level, one level down ("_"), two levels down
    (out of reach), or absent,
  * parents that are real Elements, objects whose `path` property logs the
    read, raises, returns tuples / None, or objects without `path`,
  * names None / "" / strings / ints / lists, passed explicitly or through
    "_elem_name".

Besides the field values the aliasing structure of the result is compared
(next_path is / is not parent_path, parent_path is parent.path, a fresh
default list per call), as are exception type and message.
"""
import random
import sys

from construct.lib.containers import Container

from smpl_extract.base import Element
from smpl_extract.util import constructs as live_mod
from smpl_extract.util.constructs import ChildInfo
from smpl_extract.util.constructs import _pull_from_context
from smpl_extract.util.constructs import pull_child_info


# --------------------------------------------------------------------------
# inline copy of the ORIGINAL implementation
# --------------------------------------------------------------------------
def orig_pull_child_info(context, name=None):
    parent = None
    parent_path = []
    routines = []
    resultant_path = parent_path

    # name
    if name is None:
        name = _pull_from_context(context, "_elem_name", None)
    # parent
    parent = _pull_from_context(context, "_elem_parent", None)
    # parent_path
    if parent is not None:
        parent_path = parent.path
    # resultant_path
    if name is not None:
        resultant_path = parent_path + [name]
    else:
        resultant_path = parent_path
    # routines
    routines = _pull_from_context(context, "_elem_routines", [])

    result = ChildInfo(
        parent=parent,
        parent_path=parent_path,
        next_path=resultant_path,
        routines=routines,
        name=name
    )
    return result


# --------------------------------------------------------------------------
# instrumented inputs
# --------------------------------------------------------------------------
class Boom(Exception):
    pass


class LoggingDict(dict):
    def __init__(self, label, log, *args, **kwargs):
        super().__init__(*args, **kwargs)
        self.label = label
        self.log = log

    def keys(self):
        self.log.append((self.label, "keys"))
        return super().keys()

    def __getitem__(self, key):
        self.log.append((self.label, "getitem", key))
        return super().__getitem__(key)

    def __contains__(self, key):
        self.log.append((self.label, "contains", key))
        return super().__contains__(key)

    def get(self, key, default=None):
        self.log.append((self.label, "get", key))
        return super().get(key, default)


class LeafElement(Element):
    def get_info(self):
        raise NotImplementedError


class PathParent:
    """Parent whose `path` read is logged and scripted."""

    def __init__(self, tag, log, behaviour, value):
        self.tag = tag
        self.log = log
        self.behaviour = behaviour
        self.value = value

    @property
    def path(self):
        self.log.append(("path-read", self.tag))
        if self.behaviour == "raise":
            raise Boom("path of " + self.tag)
        return self.value

    def __repr__(self):
        return "PathParent(%s)" % self.tag


class NoPathParent:
    def __repr__(self):
        return "NoPathParent()"


class FalsyParent(PathParent):
    def __bool__(self):
        self.log.append(("bool", self.tag))
        return False

    def __eq__(self, other):
        self.log.append(("eq", self.tag))
        return other is None

    def __ne__(self, other):
        self.log.append(("ne", self.tag))
        return other is not None

    __hash__ = None


class OddName:
    """A name object that logs comparisons (identity tests must not call them)."""

    def __init__(self, log):
        self.log = log

    def __eq__(self, other):
        self.log.append(("name-eq",))
        return True

    def __ne__(self, other):
        self.log.append(("name-ne",))
        return False

    def __bool__(self):
        self.log.append(("name-bool",))
        return False

    __hash__ = None

    def __repr__(self):
        return "OddName()"


NAME_CHOICES = ["absent", "none", "empty", "str", "int", "zero", "list", "odd"]
PARENT_CHOICES = [
    "absent", "none", "element", "element-empty", "logged", "logged-empty",
    "tuple-path", "none-path", "str-path", "raise", "no-path", "falsy",
]
ROUTINE_CHOICES = ["absent", "dict", "empty-dict", "none", "list"]
PLACES = ["top", "inner", "deep", "both"]
CONTEXT_KINDS = ["dict", "container", "logging"]


def build_case(rng):
    return {
        "kind": rng.choice(CONTEXT_KINDS),
        "name_arg": rng.choice(["none", "none", "str", "empty", "int", "odd"]),
        "name": rng.choice(NAME_CHOICES),
        "name_place": rng.choice(PLACES),
        "parent": rng.choice(PARENT_CHOICES),
        "parent_place": rng.choice(PLACES),
        "routines": rng.choice(ROUTINE_CHOICES),
        "routines_place": rng.choice(PLACES),
        "inner": rng.choice(["present", "present", "absent", "none", "deep"]),
        "extra": rng.random() < 0.3,
    }


def materialise(case):
    """Build one independent world (context + objects) for a case."""
    log = []
    objects = {}

    def name_value(kind):
        if kind == "none":
            return None
        if kind == "empty":
            return ""
        if kind == "str":
            return "CHILD"
        if kind == "int":
            return 7
        if kind == "zero":
            return 0
        if kind == "list":
            return ["a", "b"]
        if kind == "odd":
            return OddName(log)
        raise AssertionError(kind)

    def parent_value(kind):
        if kind == "none":
            return None
        if kind == "element":
            return LeafElement(["ROOT", "DIR"], None)
        if kind == "element-empty":
            return LeafElement(None, None)
        if kind == "logged":
            return PathParent("P", log, "ok", ["A", "B"])
        if kind == "logged-empty":
            return PathParent("P", log, "ok", [])
        if kind == "tuple-path":
            return PathParent("P", log, "ok", ("A",))
        if kind == "none-path":
            return PathParent("P", log, "ok", None)
        if kind == "str-path":
            return PathParent("P", log, "ok", "AB")
        if kind == "raise":
            return PathParent("P", log, "raise", None)
        if kind == "no-path":
            return NoPathParent()
        if kind == "falsy":
            return FalsyParent("F", log, "ok", ["X"])
        raise AssertionError(kind)

    def routines_value(kind):
        if kind == "dict":
            return {"r": len}
        if kind == "empty-dict":
            return {}
        if kind == "none":
            return None
        if kind == "list":
            return [len]
        raise AssertionError(kind)

    def new_mapping(label, kind):
        if kind == "dict":
            return {}
        if kind == "container":
            return Container()
        return LoggingDict(label, log)

    top = new_mapping("top", case["kind"])
    inner = new_mapping("inner", case["kind"])
    deep = new_mapping("deep", case["kind"])
    levels = {"top": [top], "inner": [inner], "deep": [deep],
              "both": [top, inner]}

    def place(key, value, where, shadow):
        targets = levels[where]
        for i, target in enumerate(targets):
            # "both": the inner level holds a different (shadowed) value
            dict.__setitem__(target, key, value if i == 0 else shadow)

    if case["name"] != "absent":
        place("_elem_name", name_value(case["name"]), case["name_place"], "SHADOWED")
    if case["parent"] != "absent":
        objects["parent"] = parent_value(case["parent"])
        place("_elem_parent", objects["parent"], case["parent_place"],
              LeafElement(["SHADOW"], None))
    if case["routines"] != "absent":
        objects["routines"] = routines_value(case["routines"])
        place("_elem_routines", objects["routines"], case["routines_place"],
              {"shadow": len})
    if case["extra"]:
        dict.__setitem__(top, "unrelated", 1)
        dict.__setitem__(inner, "unrelated", 2)

    if case["inner"] in ("present", "deep"):
        dict.__setitem__(top, "_", inner)
        if case["inner"] == "deep":
            dict.__setitem__(inner, "_", deep)
    elif case["inner"] == "none":
        dict.__setitem__(top, "_", None)

    name_arg = None
    if case["name_arg"] != "none":
        name_arg = name_value(case["name_arg"])
    return top, name_arg, log, objects


def snapshot(value):
    if isinstance(value, (LeafElement, PathParent, NoPathParent)):
        return repr(type(value).__name__) + getattr(value, "tag", "")
    if isinstance(value, OddName):
        return "OddName"
    if isinstance(value, dict):
        return ("dict", tuple(value.keys()))
    if isinstance(value, list):
        return ("list", tuple(snapshot(x) for x in value))
    if isinstance(value, tuple):
        return ("tuple", tuple(snapshot(x) for x in value))
    if callable(value):
        return "callable"
    return repr(value)


def run(func, case):
    context, name_arg, log, objects = materialise(case)
    before = snapshot(dict(context))
    try:
        info = func(context, name_arg)
    except Exception as exc:  # noqa: BLE001 - compared below
        return ("exc", type(exc).__name__, str(exc), tuple(log), before,
                snapshot(dict(context)))
    parent = objects.get("parent")
    parent_path_attr = None
    if isinstance(parent, LeafElement):
        parent_path_attr = info.parent_path is parent._path
    structure = (
        type(info).__name__,
        tuple(info._fields),
        info.next_path is info.parent_path,
        info.parent is parent if "parent" in objects else info.parent,
        parent_path_attr,
        info.routines is objects.get("routines", "n/a"),
        info.name is name_arg if name_arg is not None else "from-context",
    )
    # the result must be independent of the call: mutate it and look again
    values = tuple(snapshot(x) for x in info)
    return ("ok", values, structure, tuple(log), before,
            snapshot(dict(context)))


def freshness_check(func):
    """Default lists are fresh per call and not shared between the fields."""
    first = func({}, None)
    second = func({}, None)
    problems = []
    if first.parent_path is second.parent_path:
        problems.append("parent_path shared between calls")
    if first.routines is second.routines:
        problems.append("routines default shared between calls")
    if first.routines is first.parent_path:
        problems.append("routines aliases parent_path")
    if first.next_path is not first.parent_path:
        problems.append("nameless child should share the parent's path")
    first.parent_path.append("poison")
    first.routines.append("poison")
    third = func({}, None)
    if third != ChildInfo(None, [], [], [], None):
        problems.append("state leaked between calls: %r" % (third,))
    named = func({}, "x")
    if named.next_path != ["x"] or named.parent_path != [] \
            or named.next_path is named.parent_path:
        problems.append("named orphan wrong: %r" % (named,))
    return problems


def main():
    rng = random.Random(1610)
    failures = 0
    outcomes = {"ok": 0, "exc": 0}
    n = 0
    for i in range(8000):
        case = build_case(rng)
        live = run(pull_child_info, case)
        ref = run(orig_pull_child_info, case)
        n += 1
        outcomes[live[0]] += 1
        if live != ref:
            failures += 1
            if failures <= 5:
                print("MISMATCH", case)
                print("  live:", live)
                print("  ref: ", ref)

    for func in (pull_child_info, orig_pull_child_info):
        for problem in freshness_check(func):
            failures += 1
            print(func.__name__, problem)

    # a few hand-written expectations (precomputed from the original)
    root = LeafElement(["IMG", "PART"], None)
    routines = {"a": len}
    ctx = Container(_=Container(_elem_parent=root, _elem_routines=routines,
                                _elem_name="VOL"))
    expected = ChildInfo(root, ["IMG", "PART"], ["IMG", "PART", "VOL"],
                         routines, "VOL")
    got = pull_child_info(ctx)
    if got != expected or got.parent_path is not root._path:
        failures += 1
        print("hand-written case 1 failed", got)
    got = pull_child_info(ctx, "OVERRIDE")
    if got.next_path != ["IMG", "PART", "OVERRIDE"] or got.name != "OVERRIDE" \
            or root._path != ["IMG", "PART"]:
        failures += 1
        print("hand-written case 2 failed", got)
    ctx3 = {"_": {"_": {"_elem_parent": root}}}
    if pull_child_info(ctx3) != ChildInfo(None, [], [], [], None):
        failures += 1
        print("hand-written case 3 failed")
    if live_mod.pull_child_info is not pull_child_info:
        failures += 1

    print("cases: %d (%s)  failures: %d" % (n, outcomes, failures))
    return 1 if failures else 0


if __name__ == "__main__":
    sys.exit(main())
