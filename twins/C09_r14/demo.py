"""Equivalence demo for r14: alcohol.mdf.MdfStream._get_address_given_sector_index
(the user-data -> raw-sector address mapping of the MODE1/2352 unwrapper).

The refactoring reads the sector stride (2352) and the user-data start (16)
from two new private class attributes initialised from the module constants,
and folds the two temporaries into `index * stride + data_at` followed by
`+ offset`.

Checks:
  * the two class attributes (when present) equal the module constants;
  * the method agrees with an inline copy of the ORIGINAL on an exhaustive
    grid of small (index, offset) pairs, on huge / negative ints, and on
    non-int numbers (value AND type of the result, or the exception);
  * driving a live MdfStream and a reference MdfStream (subclass whose method
    is the pasted original) side by side through random seek/read sequences -
    reads that start, end and straddle the 2048-byte boundary included - gives
    the same bytes / exceptions, the same position, and the same sequence of
    tell/seek/read calls on the underlying stream;
  * the bytes read are the logical payload (raw == unwrapped relation).
"""
import fractions
import io
import random
import struct
import sys
from io import SEEK_CUR, SEEK_END, SEEK_SET

from smpl_extract.alcohol.mdf import MDF_SECTOR_HEADER_SIZE
from smpl_extract.alcohol.mdf import MDF_SECTOR_SIZE
from smpl_extract.alcohol.mdf import MdfStream
from smpl_extract.alcohol.mdf import is_mdf_image


# ---- the ORIGINAL method, verbatim ------------------------------------------
def original_get_address_given_sector_index(
        self,
        sector_index: int,
        offset: int
    ):
    sector_address  = sector_index * MDF_SECTOR_SIZE

    mdf_address = sector_address + MDF_SECTOR_HEADER_SIZE + offset
    return mdf_address


class OrigMdf(MdfStream):
    _get_address_given_sector_index = original_get_address_given_sector_index


class Recorder(io.BytesIO):
    def __init__(self, data):
        super().__init__(data)
        self.log = []

    def tell(self):
        r = super().tell()
        self.log.append(("tell", r))
        return r

    def seek(self, *a):
        r = super().seek(*a)
        self.log.append(("seek", a, r))
        return r

    def read(self, *a):
        r = super().read(*a)
        self.log.append(("read", a, len(r), hash(r)))
        return r


failures = []
checks = 0


def outcome(fn):
    try:
        r = fn()
        return ("ok", type(r).__name__, r)
    except Exception as e:  # noqa: BLE001 - compared, not hidden
        return ("exc", type(e).__name__, str(e))


def check(label, a, b):
    global checks
    checks += 1
    if a != b:
        failures.append((label, a, b))
        return False
    return True


def mdf_wrap(payload):
    out = bytearray()
    for i in range(0, len(payload), 2048):
        body = payload[i:i + 2048].ljust(2048, b"\0")
        out += b"\x00" + b"\xFF" * 10 + b"\x00" + struct.pack(">I", i // 2048)[1:] + b"\x01"
        out += body + bytes(288)
    return bytes(out)


def main():
    rng = random.Random(0x514)

    # -- constants -------------------------------------------------------------
    check("module constants", (MDF_SECTOR_SIZE, MDF_SECTOR_HEADER_SIZE), (2352, 16))
    for name, expected in (("_RAW_SECTOR_STRIDE", 2352), ("_RAW_SECTOR_DATA_AT", 16)):
        if hasattr(MdfStream, name):
            check(("class attribute", name), getattr(MdfStream, name), expected)
    check("method still defined on MdfStream itself",
          "_get_address_given_sector_index" in vars(MdfStream), True)

    # -- the mapping as a pure function ----------------------------------------
    live = MdfStream(io.BytesIO(mdf_wrap(bytes(5000))))
    ref = OrigMdf(io.BytesIO(mdf_wrap(bytes(5000))))
    pairs = [(i, o) for i in range(0, 70) for o in range(0, 2049, 1)]
    pairs += [(i, o) for i in (-3, -1, 10**6, 2**31, 2**63, 10**30) for o in (-17, -1, 0, 1, 2047, 2048, 10**12)]
    pairs += [(rng.randint(-10**9, 10**9), rng.randint(-10**5, 10**5)) for _ in range(20000)]
    odd = [0.5, -2.25, 1e300, float("inf"), float("nan"), True, False,
           fractions.Fraction(7, 3), 3 + 4j, "ab", b"q", None, [1], (2,)]
    pairs += [(a, b) for a in odd for b in odd + [0, 3]]
    pairs += [(a, b) for a in [0, 3] for b in odd]
    for index, offset in pairs:
        a = outcome(lambda: live._get_address_given_sector_index(index, offset))
        b = outcome(lambda: ref._get_address_given_sector_index(index, offset))
        if a[0] == "ok" and a[2] != a[2]:  # NaN: compare by repr
            a, b = repr(a), repr(b)
        check(("mapping", index, offset), a, b)

    # -- the stream, driven side by side ---------------------------------------
    for trial in range(400):
        n = rng.choice([0, 1, 100, 2047, 2048, 2049, 4096, 4097, 6000, 10240, 20000])
        payload = bytes(rng.getrandbits(8) for _ in range(n))
        raw = mdf_wrap(payload) + rng.choice([b"", b"", b"x" * 17, b"y" * 2351])
        if n:
            check(("signature", trial), is_mdf_image(io.BytesIO(raw)), True)
        padded = len(mdf_wrap(payload)) // 2352 * 2048  # logical size seen through the stream
        logical = payload.ljust(padded, b"\0")

        sub_a, sub_b = Recorder(raw), Recorder(raw)
        pos = rng.choice([0, 0, 5, 2047, 2048])
        live = MdfStream(sub_a, position=pos)
        ref = OrigMdf(sub_b, position=pos)
        for step in range(rng.randint(1, 16)):
            if rng.random() < 0.6:
                edge = rng.choice([0, 2048, 4096, 6144]) + rng.choice([-2, -1, 0, 1, 2])
                size = rng.choice([0, 1, 2, 3, 16, 2046, 2047, 2048, 2049, 2050, 4096, 4100, 7000,
                                   max(edge, 0), rng.randint(0, n + 10)])
                op = ("read", size)
                fn = lambda s, size=size: s.read(size)
            else:
                whence = rng.choice([SEEK_SET, SEEK_CUR, SEEK_END])
                target = rng.choice([0, 2047, 2048, 2049, 4095, 4096, rng.randint(-n - 5, n + 5)])
                op = ("seek", target, whence)
                fn = lambda s, t=target, w=whence: s.seek(t, w)
            before = live.position
            a = outcome(lambda: fn(live))
            b = outcome(lambda: fn(ref))
            ok = check(("op", trial, step, op), (a, live.position, live.true_size, sub_a.log),
                       (b, ref.position, ref.true_size, sub_b.log))
            if not ok:
                break
            # (an empty image has end_of_file == 0, which StreamWrapper.read treats as
            # "unbounded"; the payload relation is only claimed for non-empty images)
            if n and op[0] == "read" and a[0] == "ok":
                check(("payload", trial, step, op), a[2], logical[before:before + len(a[2])])

    print(f"{checks} checks, {len(failures)} disagreements")
    for f in failures[:10]:
        print("  MISMATCH", repr(f)[:400])
    return 1 if failures else 0


if __name__ == "__main__":
    sys.exit(main())
