"""Equivalence demo for r23: FatAreaAdapter._decode
(smpl_extract/roland/s7xx/fat.py) and the end-of-chain predicate it calls
(smpl_extract/roland/s7xx/data_types.py FAT_IS_END_F):

 * `FAT_IS_END_F = (lambda x: x >= FAT_END)` is now a named function
   `_fat_word_is_end(x)` bound to the same public name;
 * the literals 2 and 9 of the scan are the module constants
   `_FAT_FIRST_CHAIN_ENTRY` / `_FAT_NUM_TAIL_ENTRIES`, and the two-step
   `dirty_flags = [False] * N; dirty_flags[0:2] = [True, True]` is the single
   expression `[True] * 2 + [False] * (N - 2)`;
 * the four-line if/else choosing err_type is a conditional expression.

`OriginalFatAreaAdapter._decode` below is a verbatim copy of the ORIGINAL
method (it reads FAT_NUM_ENTRIES from this file's globals) and
`ORIGINAL_FAT_IS_END_F` a copy of the original lambda.  It is compared
with the module's FatAreaAdapter on

 * FAT_IS_END_F against the lambda on every 16-bit word and a few values of
   other types (result or exception), called positionally and as `x=`;
 * pairs of version words / FAT identifiers (unchanged code, kept as a
   regression net);
 * exhaustively, small FAT word tables: the table length constant is shrunk in
   BOTH implementations (module global patched, copy's global set) so that all
   combinations of {free, reserved, error, end markers, every in-range link,
   length-1, the table length itself, length+1, a far out-of-range word} over
   the live cells can be walked - reserved / free words after the first link
   of a chain exercise the rewritten err_type choice;
 * degenerate table lengths 0 .. 12 (the flag list built in one expression
   must have the shape the slice assignment gave it);
 * randomly, tables of the real size (0x10000 words) with well-formed chains
   plus injected cycles, cross links, merges, chains running into free /
   reserved / error words or past the table;
 * the public route: FatAreaParser.parse(bytes) against the original adapter
   wrapped around the same FatAreaStruct.

The outcome compared is the FatArea (version, remaining clusters, table type
and size, every SectorLink, which entries share the default link object, the
data stream handed over, get_path() from many start sectors) or the raised
exception (type and text).
"""
import itertools
import random
import struct
import sys
from typing import cast

from construct.core import Adapter
from construct.core import ConstructError
from construct.core import Container

from smpl_extract.roland.s7xx import fat as fat_module
from smpl_extract.roland.s7xx.data_types import FAT_AREA_ID
from smpl_extract.roland.s7xx.data_types import FAT_ERROR_FLAG
from smpl_extract.roland.s7xx.data_types import FAT_FREE_FLAG
from smpl_extract.roland.s7xx.data_types import FAT_END
from smpl_extract.roland.s7xx.data_types import FAT_IS_END_F as MODULE_FAT_IS_END_F
from smpl_extract.roland.s7xx.data_types import FAT_RESERVED_FLAG
from smpl_extract.roland.s7xx.data_types import FAT_VERSION_1_FLAG
from smpl_extract.roland.s7xx.data_types import FAT_VERSION_2_FLAG
from smpl_extract.roland.s7xx.data_types import FAT_NUM_ENTRIES as REAL_NUM_ENTRIES
from smpl_extract.roland.s7xx.fat import FatArea
from smpl_extract.roland.s7xx.fat import FatAreaAdapter
from smpl_extract.roland.s7xx.fat import FatAreaContainer
from smpl_extract.roland.s7xx.fat import FatAreaParser
from smpl_extract.roland.s7xx.fat import FatAreaStruct
from smpl_extract.roland.s7xx.fat import RolandFileAllocationTable
from smpl_extract.util.fat import SectorLink
from smpl_extract.util.fat import add_to_sector_links

FAT_NUM_ENTRIES = REAL_NUM_ENTRIES      # rebound by set_table_length()


# ---------------------------------------------------------------- original
ORIGINAL_FAT_IS_END_F = (lambda x: x >= FAT_END)
FAT_IS_END_F = ORIGINAL_FAT_IS_END_F     # what the copy below calls


class OriginalFatAreaAdapter(Adapter):


    def _decode(self, obj, context, path) -> FatArea:
        container = cast(FatAreaContainer, obj)

        fat_id = container.metadata.fat_id
        if fat_id != FAT_AREA_ID:
            raise ConstructError((
                "Bad FAT identifier. "
                f"Expected {FAT_AREA_ID}, found {fat_id}"
            ))

        num_remaining_clusters = container.metadata.num_unused_clusters

        version_flag_1 = container.metadata.version_flag_1
        version_flag_2 = container.metadata.version_flag_2

        version_map = {
            FAT_VERSION_1_FLAG: 1,
            FAT_VERSION_2_FLAG: 2
        }

        version = 1

        for version_flag in (version_flag_1, version_flag_2):
            if version_flag != FAT_VERSION_1_FLAG:
                if version_flag not in version_map.keys():
                    raise ConstructError((
                        f"Unknown FAT version {version_flag}."
                    ))
                version = version_map[version_flag]
                break

        fat_entries = container.fat_entries

        sector_links = [SectorLink()] * FAT_NUM_ENTRIES
        dirty_flags = [False] * FAT_NUM_ENTRIES
        dirty_flags[0:2] = [True, True]
        for i in range(2, FAT_NUM_ENTRIES - 9):

            if dirty_flags[i]:
                continue

            subpath_links = []
            subpath_visited = set()
            subpath_index = i
            while True:
                if subpath_index >= FAT_NUM_ENTRIES:
                    break

                if subpath_index in subpath_visited:
                    raise ConstructError("Encountered a loop in FAT.")
                subpath_visited.add(subpath_index)

                value = fat_entries[subpath_index]
                dirty_flags[subpath_index] = True

                if value == FAT_ERROR_FLAG:
                    raise ConstructError("Encountered ERROR_FLAG in FAT.")

                if value in (FAT_RESERVED_FLAG, FAT_FREE_FLAG):
                    if len(subpath_links) > 0:
                        if value == FAT_RESERVED_FLAG:
                            err_type = "RESERVE_FLAG"
                        else:
                            err_type = "FREE_FLAG"
                        raise ConstructError(f"Unexpected {err_type} in FAT.")
                    else:
                        break

                subpath_links.append(subpath_index)

                if FAT_IS_END_F(value):
                    add_to_sector_links(subpath_links, sector_links)
                    break

                subpath_index = value
                continue

        fat = RolandFileAllocationTable(
            container.fat_data_stream,
            FAT_NUM_ENTRIES,
            sector_links
        )

        result = FatArea(
            version,
            num_remaining_clusters,
            fat
        )
        return result


    def _encode(self, obj, context, path):
        raise NotImplementedError


# ------------------------------------------------------------------ helpers
def set_table_length(length):
    """Shrink / restore the table length in both implementations."""
    global FAT_NUM_ENTRIES
    FAT_NUM_ENTRIES = length
    fat_module.FAT_NUM_ENTRIES = length


def make_container(words, fat_id=FAT_AREA_ID, unused=7,
                   flag_1=FAT_VERSION_1_FLAG, flag_2=FAT_VERSION_1_FLAG,
                   stream=None):
    return Container(
        fat_entries=words,
        metadata=Container(
            fat_id=fat_id,
            num_unused_clusters=unused,
            version_flag_1=flag_1,
            version_flag_2=flag_2,
        ),
        stream_size=0,
        fat_data_stream=stream,
    )


def describe_area(area, stream, starts):
    fat = area.fat
    links = fat.sector_links
    seen = {}
    sharing_classes = 0
    shared_with_first_default = 0
    for link in links:
        if id(link) not in seen:
            seen[id(link)] = sharing_classes
            sharing_classes += 1
        if seen[id(link)] == 0:
            shared_with_first_default += 1
    paths = []
    for start in starts:
        try:
            paths.append(("ok", fat.get_path(start)))
        except Exception as exc:  # noqa: BLE001
            paths.append(("raise", type(exc).__name__, str(exc)))
    return (
        type(area).__name__,
        area.version,
        area.num_remaining_clusters,
        type(fat).__name__,
        fat.size,
        [(link.next, link.end) for link in links],
        sharing_classes,
        shared_with_first_default,
        fat.parent_stream is stream,
        paths,
    )


def outcome(adapter, container, stream, starts):
    try:
        area = adapter._decode(container, {}, "(demo)")
        return ("ok", describe_area(area, stream, starts))
    except Exception as exc:  # noqa: BLE001
        return ("raise", type(exc).__name__, str(exc))


ORIGINAL = OriginalFatAreaAdapter(FatAreaStruct)
MODULE = FatAreaAdapter(FatAreaStruct)

failures = 0
checked = 0
raised = 0


def compare(container_factory, starts, label):
    global failures, checked, raised
    checked += 1
    stream = object()
    expected = outcome(ORIGINAL, container_factory(stream), stream, starts)
    actual = outcome(MODULE, container_factory(stream), stream, starts)
    if expected[0] == "raise":
        raised += 1
    if expected != actual:
        failures += 1
        if failures <= 10:
            print("MISMATCH", label)
            print("  original :", str(expected)[:400])
            print("  module   :", str(actual)[:400])


def check_versions():
    set_table_length(16)
    words = [0] * 16
    words[2] = 3
    words[3] = 0xFFF8
    interesting = [
        FAT_VERSION_1_FLAG, FAT_VERSION_2_FLAG, 0, 1, 2, 0xFFF7, 0xFFF8,
        0xFFFD, -1, 0x10000, True, None,
    ]
    for fat_id in (FAT_AREA_ID, 0, 0xFFFB, None, float(FAT_AREA_ID)):
        for flag_1, flag_2 in itertools.product(interesting, repeat=2):
            compare(
                lambda stream: make_container(
                    list(words), fat_id=fat_id, flag_1=flag_1, flag_2=flag_2,
                    stream=stream),
                range(0, 17),
                ("versions", fat_id, flag_1, flag_2),
            )
    for unused in (0, 5, 0xFFFF, None, "n/a"):
        compare(
            lambda stream: make_container(list(words), unused=unused,
                                          stream=stream),
            range(0, 17),
            ("unused", unused),
        )


def check_small_tables():
    # live start cells are 2 .. length-10; every cell can be linked to
    for length, cells in ((13, (2, 3, 4, 5)), (14, (2, 3, 4, 6)),
                          (15, (2, 3, 4, 5, 7))):
        set_table_length(length)
        letters = [
            FAT_FREE_FLAG, FAT_RESERVED_FLAG, FAT_ERROR_FLAG, 0xFFF8, 0xFFFF,
            length - 1, length, length + 1, 0x7000,
        ] + list(range(2, 8))
        if len(cells) == 5:
            letters = [
                FAT_FREE_FLAG, FAT_RESERVED_FLAG, FAT_ERROR_FLAG, 0xFFF8,
                length - 1, length, 2, 3, 4, 5, 7,
            ]
        backgrounds = [
            [FAT_FREE_FLAG] * length,
            [0xFFF8] * length,
        ]
        if length == 13:
            backgrounds.append([FAT_RESERVED_FLAG] * length)
        for background in backgrounds:
            for values in itertools.product(letters, repeat=len(cells)):
                words = list(background)
                for cell, value in zip(cells, values):
                    words[cell] = value
                compare(
                    lambda stream: make_container(words, stream=stream),
                    range(0, length + 1),
                    ("small", length, words),
                )


def random_real_table(rng):
    size = REAL_NUM_ENTRIES
    words = [FAT_FREE_FLAG] * size
    words[0] = FAT_AREA_ID
    words[1] = rng.randint(0, 0xFFFF)
    order = list(range(2, size - 9))
    rng.shuffle(order)
    position = 0
    limit = rng.choice([200, 5000, len(order)])
    chains = []
    while position < limit:
        length = rng.randint(1, 300)
        chain = order[position:position + length]
        position += length
        if not chain:
            break
        for here, there in zip(chain, chain[1:]):
            words[here] = there
        words[chain[-1]] = rng.choice([0xFFF8, 0xFFF9, 0xFFFF])
        chains.append(chain)
    damage = rng.choice(
        ["none", "none", "cycle", "cross", "free", "reserved", "error",
         "beyond", "self"])
    if chains and damage != "none":
        victim = rng.choice(chains)
        cell = rng.choice(victim)
        if damage == "cycle":
            words[victim[-1]] = victim[0]
        elif damage == "cross":
            words[cell] = rng.choice(rng.choice(chains))
        elif damage == "free":
            words[cell] = FAT_FREE_FLAG
        elif damage == "reserved":
            words[cell] = FAT_RESERVED_FLAG
        elif damage == "error":
            words[cell] = FAT_ERROR_FLAG
        elif damage == "beyond":
            words[cell] = rng.choice([size - 3, 0xFFF0, 0xFFF6, size - 1, size, size + 1, 1 << 20])
        elif damage == "self":
            words[cell] = cell
    starts = [chain[0] for chain in chains[:40]] + [0, 1, 2, size - 1, size]
    return words, starts, damage


def check_real_tables():
    set_table_length(REAL_NUM_ENTRIES)
    rng = random.Random(0xC0717)
    for _ in range(150):
        words, starts, damage = random_real_table(rng)
        flag_1 = rng.choice([FAT_VERSION_1_FLAG, FAT_VERSION_2_FLAG, 3])
        flag_2 = rng.choice([FAT_VERSION_1_FLAG, FAT_VERSION_2_FLAG])
        compare(
            lambda stream: make_container(words, flag_1=flag_1, flag_2=flag_2,
                                          stream=stream),
            starts,
            ("real", damage),
        )


def check_parser():
    """bytes -> FatAreaParser, against the original adapter on the same struct."""
    global failures, checked
    set_table_length(REAL_NUM_ENTRIES)
    rng = random.Random(2026092817)
    for _ in range(12):
        words, starts, damage = random_real_table(rng)
        words[-2] = rng.choice([FAT_VERSION_1_FLAG, FAT_VERSION_2_FLAG, 9])
        words[-1] = rng.choice([FAT_VERSION_1_FLAG, FAT_VERSION_2_FLAG])
        if rng.random() < 0.15:
            words[0] = 0xFFFB
        words = [word & 0xFFFF for word in words]
        data = struct.pack("<%dH" % len(words), *words)
        results = []
        for parser in (ORIGINAL, FatAreaParser):
            try:
                area = parser.parse(data)
                results.append(
                    ("ok",) + describe_area(area, None, starts)[:8]
                    + (type(area.fat.parent_stream).__name__,
                       describe_area(area, None, starts)[9]))
            except Exception as exc:  # noqa: BLE001
                results.append(("raise", type(exc).__name__, str(exc)))
        checked += 1
        if results[0] != results[1]:
            failures += 1
            print("MISMATCH through the parser", damage)

def check_predicate():
    global failures, checked

    def result(function, *args, **kwargs):
        try:
            value = function(*args, **kwargs)
            return ("ok", type(value).__name__, value)
        except Exception as exc:  # noqa: BLE001
            return ("raise", type(exc).__name__)

    values = list(range(-2, 0x10003)) + [
        True, False, 0xFFF7.__float__(), 65528.0, 65527.5, float("inf"),
        float("nan"), None, "x", "", [0xFFF8], (0xFFF8,), 1 << 40, 1 + 0j,
    ]
    for value in values:
        checked += 1
        if (result(ORIGINAL_FAT_IS_END_F, value)
                != result(MODULE_FAT_IS_END_F, value)):
            failures += 1
            print("MISMATCH FAT_IS_END_F", value)
    for call in (
            lambda f: result(f, x=0xFFF8), lambda f: result(f, x=3),
            lambda f: result(f), lambda f: result(f, 1, 2),
            lambda f: result(f, y=1)):
        checked += 1
        if call(ORIGINAL_FAT_IS_END_F) != call(MODULE_FAT_IS_END_F):
            failures += 1
            print("MISMATCH FAT_IS_END_F call shape")
    if not callable(MODULE_FAT_IS_END_F):
        failures += 1


def check_degenerate_lengths():
    for length in range(0, 13):
        set_table_length(length)
        for filler in (FAT_FREE_FLAG, FAT_RESERVED_FLAG, 0xFFF8, 2, 0xFFF7):
            words = [filler] * length
            compare(
                lambda stream: make_container(words, stream=stream),
                range(-1, length + 2),
                ("degenerate", length, filler),
            )
            # a shorter word list than the declared length
            compare(
                lambda stream: make_container(words[:-1], stream=stream),
                range(-1, length + 2),
                ("degenerate short", length, filler),
            )


def main():
    try:
        check_predicate()
        check_versions()
        check_degenerate_lengths()
        check_small_tables()
        check_real_tables()
        check_parser()
    finally:
        set_table_length(REAL_NUM_ENTRIES)
    for name in ("FatAreaStruct", "FatAreaParser", "FatAreaAdapter",
                 "RolandFile", "RolandFileAllocationTable", "FatArea"):
        if not hasattr(fat_module, name):
            global failures
            failures += 1
            print("missing public name", name)
    print(f"{checked} cases compared ({raised} raising), "
          f"{failures} mismatches")
    return 1 if failures else 0


if __name__ == "__main__":
    sys.exit(main())
