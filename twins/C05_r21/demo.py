"""Equivalence demo for r21: structural.Image.make_safe_names_routine and
Image.make_export_names_routine (the `lambda element, name: setattr(element,
"_safe_name" / "_export_name", name)` callbacks became closures built by the
new module-level factory `_attribute_setter(attribute)`, and the `result`
temporaries were inlined into the return) versus an inline copy of the
ORIGINAL two methods.

1. random multisets of sibling names (AKAI-ish and ASCII alphabets, biased to
   near-collisions: stems with/without -L/-R/ L/ R, duplicates, stems equal to
   another full name, names that sanitize to the same candidate), files and
   directories mixed, in shuffled orders: both routines assign exactly the same
   `_safe_name` / `_export_name` to every element, return the very list they
   were given, and raise the same exceptions (elements that refuse setattr,
   elements without a name);
2. the renamed elements are generalized and paired with
   Image.combine_stereo_routine: same result names, channel counts and streams;
3. a whole tree (image -> volumes -> samples) is exported with ExportManager
   into a fresh temp dir once with the current class and once with the
   original methods: same files, same bytes, same console output, and the
   channels of all written files add up to the number of samples.
Exit 0 when everything agrees, 1 otherwise.
"""
import contextlib
from dataclasses import dataclass
from dataclasses import field
import io
import os
import random
import shutil
import struct
import sys
import tempfile
from typing import ClassVar
from typing import List
from typing import Optional

from smpl_extract.base import Element
from smpl_extract.base import ElementTypes
from smpl_extract.data_streams import DataStream
from smpl_extract.data_streams import Endianess
from smpl_extract.data_streams import StreamEncoding
from smpl_extract.elements import LeafElement
from smpl_extract.generalized.sample import ChannelConfig
from smpl_extract.generalized.sample import Sample
from smpl_extract.structural import ExportManager
from smpl_extract.structural import Image
from smpl_extract.structural import Traversable
from smpl_extract.structural import _T


class OriginalImage(Image):
    # verbatim copies of the ORIGINAL methods
    def make_safe_names_routine(
            self,
            elements: List[_T]
    ) -> List[_T]:
        result = self.sanitize_names_general(
            elements,
            self.make_safe_name,
            lambda element, name: setattr(element, "_safe_name", name)
        )
        return result


    def make_export_names_routine(self, elements: List[_T]) -> List[_T]:
        result = self.sanitize_names_general(
            elements,
            self.make_export_name,
            lambda element, name: setattr(element, "_export_name", name)
        )
        return result


failures = []


def check(cond, what):
    if not cond:
        failures.append(what)
        if len(failures) <= 20:
            print("MISMATCH:", what)


# --------------------------------------------------------------------------
# fake elements
# --------------------------------------------------------------------------
@dataclass
class FakeSampleEntry(LeafElement):
    name: str = ""
    payload: bytes = b""
    _parent: Optional[Element] = None
    _path: List[str] = field(default_factory=list)
    type_id: ClassVar[ElementTypes] = ElementTypes.SampleEntry
    type_name: ClassVar[str] = "Fake sample"

    def to_generalized(self) -> Sample:
        encoding = StreamEncoding(
            endianess=Endianess.LITTLE,
            sample_width=2,
            num_interleaved_channels=1
        )
        return Sample(
            name=self.name,
            channel_config=ChannelConfig.MONO,
            sample_rate=22050,
            num_channels=1,
            data_streams=[DataStream(io.BytesIO(self.payload), encoding)],
            _parent=self.parent,
            _path=self.path,
            _safe_name=self.safe_name,
            _export_name=self.export_name
        )


@dataclass
class FakeDirEntry(LeafElement):
    name: str = ""
    type_id: ClassVar[ElementTypes] = ElementTypes.DirectoryEntry
    type_name: ClassVar[str] = "Fake dir"


class SlottedElement:
    """Refuses every attribute assignment."""
    __slots__ = ()
    type_id = ElementTypes.SampleEntry
    name = "SLOT L"


class NamelessElement:
    type_id = ElementTypes.SampleEntry


class PickyElement:
    """Accepts `_safe_name` but not `_export_name`."""
    type_id = ElementTypes.SampleEntry

    def __init__(self, name):
        object.__setattr__(self, "name", name)
        object.__setattr__(self, "log", [])

    def __setattr__(self, key, value):
        self.log.append((key, value))
        if key == "_export_name":
            raise ValueError("no export name for " + self.name)
        object.__setattr__(self, key, value)


def make_image(cls):
    return cls(lambda context: [])


STEMS = ["PAD", "PAD 1", "STRINGS", "KICK", "A", "L", "R", "BASS-", "x", "",
         "PAD (2)", "PAD L", "HI.HAT", "TOM#1", "snare", "PAD  ", "'QUOTE'",
         "A:B", ".", "-", "Pad", "P\xc4D"]
SUFFIXES = ["", " L", " R", "-L", "-R", " -L", "- R", "  L", "  R", "L", "R",
            " L ", "-R  ", " l", " r", ".L", " (2) L", " (2)", " (3) R"]


def random_names(rng):
    count = rng.randint(0, 9)
    pool = []
    for _ in range(rng.randint(1, 3)):
        pool.append(rng.choice(STEMS))
    names = []
    for _ in range(count):
        names.append(rng.choice(pool) + rng.choice(SUFFIXES))
    if names and rng.random() < 0.4:
        names.append(rng.choice(names))
    if names and rng.random() < 0.2:
        names.append(rng.choice(names) + "*")
    rng.shuffle(names)
    return names


def build_elements(names, dir_flags):
    elements = []
    for i, (name, is_dir) in enumerate(zip(names, dir_flags)):
        if is_dir:
            elements.append(FakeDirEntry(name=name))
        else:
            payload = struct.pack("<4h", i, i + 100, -i, 7 * i)
            elements.append(FakeSampleEntry(name=name, payload=payload))
    return elements


def run_routines(cls, names, dir_flags, order):
    image = make_image(cls)
    elements = build_elements(names, dir_flags)
    trace = []
    for which in order:
        routine = getattr(image, which)
        try:
            returned = routine(elements)
            trace.append((which, "ok", returned is elements))
        except Exception as e:  # noqa
            trace.append((which, "exc", type(e).__name__, str(e)))
        trace.append([(e.name, getattr(e, "_safe_name", "<unset>"),
                       getattr(e, "_export_name", "<unset>"), e.safe_name,
                       e.export_name) for e in elements])
    # pairing on the generalized samples
    samples = [e.to_generalized() for e in elements
               if e.type_id == ElementTypes.SampleEntry]
    try:
        merged = image.combine_stereo_routine(samples)
        trace.append([(s.name, s.export_name, s.num_channels,
                       int(s.channel_config),
                       [d.stream.getvalue() for d in s.data_streams])
                      for s in merged])
        trace.append(sum(s.num_channels for s in merged) == len(samples))
    except Exception as e:  # noqa
        trace.append(("pair exc", type(e).__name__, str(e)))
    return trace


rng = random.Random(2121)
ORDERS = [
    ("make_safe_names_routine", "make_export_names_routine"),
    ("make_export_names_routine", "make_safe_names_routine"),
    ("make_export_names_routine",),
    ("make_safe_names_routine",),
    ("make_export_names_routine", "make_export_names_routine"),
]
n_sets = 0
for _ in range(4000):
    names = random_names(rng)
    dir_flags = [rng.random() < 0.15 for _ in names]
    order = rng.choice(ORDERS)
    a = run_routines(Image, names, dir_flags, order)
    b = run_routines(OriginalImage, names, dir_flags, order)
    check(a == b, f"names {names!r} {order!r}: {a!r} != {b!r}")
    n_sets += 1


# odd elements: exceptions and partial effects are the same
def run_odd(cls, which, maker):
    image = make_image(cls)
    elements = maker()
    try:
        returned = getattr(image, which)(elements)
        status = ("ok", returned is elements)
    except Exception as e:  # noqa
        status = ("exc", type(e).__name__, str(e))
    state = []
    for e in elements:
        state.append((type(e).__name__, getattr(e, "name", None),
                      getattr(e, "_safe_name", "<unset>"),
                      getattr(e, "_export_name", "<unset>"),
                      list(getattr(e, "log", []))))
    return status, state


ODD_MAKERS = [
    lambda: [],
    lambda: [SlottedElement()],
    lambda: [FakeSampleEntry(name="A L"), SlottedElement(),
             FakeSampleEntry(name="A R")],
    lambda: [NamelessElement()],
    lambda: [FakeSampleEntry(name="A L"), NamelessElement()],
    lambda: [PickyElement("P L"), PickyElement("P R")],
    lambda: [PickyElement("P L"), PickyElement("P L"), PickyElement("P L")],
    lambda: [FakeSampleEntry(name="Q"), PickyElement("Q"), PickyElement("Q")],
    lambda: (FakeSampleEntry(name="T L"), FakeSampleEntry(name="T L")),
    lambda: [FakeSampleEntry(name=None)],
    lambda: [FakeSampleEntry(name=5)],
]
n_odd = 0
for maker in ODD_MAKERS:
    for which in ("make_safe_names_routine", "make_export_names_routine"):
        a = run_odd(Image, which, maker)
        b = run_odd(OriginalImage, which, maker)
        check(a == b, f"odd {n_odd} {which}: {a!r} != {b!r}")
        n_odd += 1
check(run_odd(Image, "make_export_names_routine", ODD_MAKERS[5])[0][0] == "exc",
      "picky element should have raised")


# --------------------------------------------------------------------------
# 3. whole tree exported to disk
# --------------------------------------------------------------------------
def build_tree(cls, volumes):
    """volumes: list of (volume name, [sample names])"""
    def realize_volume(vol_name, sample_names):
        def realize(context):
            parent = context["_elem_parent"]
            children = []
            for i, name in enumerate(sample_names):
                payload = struct.pack("<6h", *[(i + 1) * (k + 1) * 11 - 40
                                               for k in range(6)])
                children.append(FakeSampleEntry(
                    name=name, payload=payload, _parent=parent,
                    _path=[vol_name, name]))
            return children
        return realize

    image_box = []

    def realize_image(context):
        parent = context["_elem_parent"]
        routines = context["_elem_routines"]
        result = []
        for vol_name, sample_names in volumes:
            volume = Traversable(
                realize_volume(vol_name, sample_names),
                routines,
                [vol_name],
                parent,
                "Fake volume"
            )
            volume.name = vol_name
            result.append(volume)
        return result

    image = cls(realize_image)
    image.name = "image"
    image_box.append(image)
    return image


def export_tree(cls, volumes):
    out_dir = tempfile.mkdtemp(prefix="r21_demo_")
    console = io.StringIO()
    try:
        image = build_tree(cls, volumes)
        image.set_routines({
            "make_safe_names": image.make_safe_names_routine,
            "make_export_names": image.make_export_names_routine
        })
        manager = ExportManager(out_dir, {
            "combine_stereo": image.combine_stereo_routine
        })
        status = "ok"
        with contextlib.redirect_stdout(console):
            try:
                image.export_samples(manager)
            except Exception as e:  # noqa
                status = ("exc", type(e).__name__,
                          str(e).replace(out_dir, "<out>"))
        files = {}
        for root, _, names in os.walk(out_dir):
            for file_name in names:
                full = os.path.join(root, file_name)
                with open(full, "rb") as f:
                    files[os.path.relpath(full, out_dir)] = f.read()
        return status, files, console.getvalue()
    finally:
        shutil.rmtree(out_dir, ignore_errors=True)


def wav_channels(data):
    pos = data.index(b"fmt ")
    return struct.unpack("<H", data[pos + 10:pos + 12])[0]


n_trees = 0
for _ in range(120):
    volumes = []
    used = set()
    for v in range(rng.randint(1, 3)):
        vol_name = rng.choice(["VOL", "VOL", "DRUMS", "V L", "V R"])
        sample_names = [n for n in random_names(rng)]
        volumes.append((vol_name, sample_names))
    a = export_tree(Image, volumes)
    b = export_tree(OriginalImage, volumes)
    check(a == b, f"tree {volumes!r}: {a[0]!r}/{sorted(a[1])!r}/{a[2]!r} != "
                  f"{b[0]!r}/{sorted(b[1])!r}/{b[2]!r}")
    n_trees += 1

# one fixed tree with known expectations
fixed = [("VOL", ["PAD R", "KICK", "PAD L", "SOLO L", "PAD-L", "KICK"])]
status, files, console = export_tree(Image, fixed)
check(status == "ok", f"fixed tree status {status!r}")
expected_channels = {
    os.path.join("VOL", "PAD.wav"): 2,
    os.path.join("VOL", "KICK.wav"): 1,
    os.path.join("VOL", "KICK (2).wav"): 1,
    os.path.join("VOL", "SOLO L.wav"): 1,
    os.path.join("VOL", "PAD-L.wav"): 1,
}
got_channels = {k: wav_channels(v) for k, v in files.items()}
check(got_channels == expected_channels,
      f"fixed tree channels {got_channels!r}")
check(sum(got_channels.values()) == 6, "fixed tree channel sum")
pad = files.get(os.path.join("VOL", "PAD.wav"), b"")
if pad:
    pcm = pad[pad.index(b"data") + 8:]
    frames = struct.unpack("<%dh" % (len(pcm) // 2), pcm)
    left = struct.unpack("<6h", struct.pack(
        "<6h", *[(2 + 1) * (k + 1) * 11 - 40 for k in range(6)]))
    right = struct.unpack("<6h", struct.pack(
        "<6h", *[(0 + 1) * (k + 1) * 11 - 40 for k in range(6)]))
    check(frames[0::2] == left and frames[1::2] == right,
          f"fixed tree PAD.wav PCM {frames!r}")

print(f"name sets: {n_sets}, odd element cases: {n_odd}, trees: {n_trees}, "
      f"failures: {len(failures)}")
sys.exit(1 if failures else 0)
