"""Equivalence demo for r8: the m*(x-x1) term of parse_akai_tune_cents /
build_akai_tune_cents extracted into a helper.  Compares bit-exact (type and
float.hex) against inline copies of the ORIGINAL functions."""
import random
import sys
from decimal import Decimal
from fractions import Fraction

from construct.core import Int8sl, Int8ul

from smpl_extract.akai import data_types as live


def orig_parse_akai_tune_cents(obj):
    # line equation: y = m(x-x1) + y1
    M = 100/255
    X1 = -128
    Y1 = -50

    x = obj
    if x == 0:
        return 0
    result = M*(x - X1) + Y1
    return result


def orig_build_akai_tune_cents(obj):
    # line equation: y = m(x-x1) + y1
    M = 255/100
    X1 = -50
    Y1 = -128

    x = obj
    if x == 0:
        return 0
    result = round(M*(x - X1)) + Y1
    return result


def exact(value):
    if isinstance(value, float):
        return ("float", value.hex())
    return (type(value).__name__, repr(value))


def outcome(fn, *args):
    try:
        return ("ok", exact(fn(*args)))
    except BaseException as exc:  # noqa: BLE001
        return ("exc", type(exc).__name__, repr(exc.args))


FAIL = 0
CHECKED = 0


def same(a, b, what):
    global FAIL, CHECKED
    CHECKED += 1
    if a != b:
        FAIL += 1
        if FAIL < 20:
            print("MISMATCH", what, a, b)


def main():
    rnd = random.Random(18)
    values = list(range(-600, 601))
    values += [True, False, 0.0, -0.0, 0.5, -0.5, 49.99999, 50.0, -50.0, 1e-9,
               1e308, -1e308, float("inf"), float("-inf"), float("nan"),
               Fraction(1, 3), Fraction(0), Fraction(-50), Decimal("1.5"),
               Decimal(0), None, "0", "12", b"\x00", [], [0], (0,), 0j, 1 + 2j,
               2 ** 80, -2 ** 80]
    values += [rnd.uniform(-60, 60) for _ in range(3000)]
    values += [k / 2 for k in range(-260, 261)]          # round-half cases
    values += [(k + 0.5) * 100 / 255 - 50 + 0 for k in range(-5, 260)]

    for v in values:
        same(outcome(orig_parse_akai_tune_cents, v),
             outcome(live.parse_akai_tune_cents, v), ("parse", v))
        same(outcome(orig_build_akai_tune_cents, v),
             outcome(live.build_akai_tune_cents, v), ("build", v))

    # every byte value, signed and unsigned view, and the promised round trip
    for b in list(range(-128, 128)) + list(range(128, 256)):
        cents_o = orig_parse_akai_tune_cents(b)
        cents_l = live.parse_akai_tune_cents(b)
        same(exact(cents_o), exact(cents_l), ("byte-parse", b))
        same(outcome(orig_build_akai_tune_cents, cents_o),
             outcome(live.build_akai_tune_cents, cents_l), ("byte-build", b))
        same(("ok", exact(b)), outcome(live.build_akai_tune_cents, cents_l),
             ("roundtrip", b))

    # through the construct adapter, as the rest of the package uses it
    for subcon in (Int8sl, Int8ul):
        adapter = live.AkaiTuneCents(subcon)
        for raw in range(256):
            data = bytes([raw])
            expect = outcome(
                lambda d: orig_parse_akai_tune_cents(subcon.parse(d)), data)
            same(expect, outcome(adapter.parse, data), ("adapter-parse", raw))
            parsed = subcon.parse(data)
            cents = orig_parse_akai_tune_cents(parsed)
            expect_b = outcome(
                lambda c: subcon.build(orig_build_akai_tune_cents(c)), cents)
            same(expect_b, outcome(adapter.build, cents), ("adapter-build", raw))

    print("checked", CHECKED, "failures", FAIL)
    return 1 if FAIL else 0


if __name__ == "__main__":
    sys.exit(main())
