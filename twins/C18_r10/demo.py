"""Equivalence demo for r10: char_ascii_to_akai (default-then-override instead
of if/else, keyword arguments, no `result` temporary) and AkaiString._decode /
_encode (try/except/else, direct return).  Compares against inline copies of
the ORIGINAL bodies and re-checks the character-set bijection of C18."""
import itertools
import random
import sys

from construct.core import ConstructError, GreedyBytes

from smpl_extract.akai import akai_string
from smpl_extract.akai.akai_string import AkaiPaddedString, AkaiString
from smpl_extract.akai.akai_string import _char_format_convert
from smpl_extract.akai.akai_string import char_akai_to_ascii
from smpl_extract.akai.akai_string import char_ascii_to_akai
from smpl_extract.akai.data_types import CharFormat, InvalidCharacter


def orig_char_ascii_to_akai(str_in):
    if isinstance(str_in, str):
        bytes_in = str_in.upper().encode("ascii")
    else:
        bytes_in = str_in
    result = _char_format_convert(
        bytes_in,
        CharFormat.ASCII,
        CharFormat.AKAI
    )
    return bytes(result)


def orig_decode(self, obj, context, path):
    del context, path  # Unused
    try:
        result = char_akai_to_ascii(obj)
    except (InvalidCharacter):
        raise ConstructError
    return result


def orig_encode(self, obj, context, path):
    del context, path  # Unused
    result = orig_char_ascii_to_akai(obj)
    return result


def outcome(fn, *args):
    try:
        value = fn(*args)
        return ("ok", type(value).__name__, repr(value))
    except BaseException as exc:  # noqa: BLE001
        ctx = exc.__context__
        return ("exc", type(exc).__name__, repr(exc.args),
                type(ctx).__name__, repr(getattr(ctx, "args", None)),
                type(exc.__cause__).__name__, exc.__suppress_context__)


FAIL = 0
CHECKED = 0


def same(a, b, what):
    global FAIL, CHECKED
    CHECKED += 1
    if a != b:
        FAIL += 1
        if FAIL < 20:
            print("MISMATCH", what, a, b)


class Text(str):
    pass


class Raw(bytes):
    pass


class OneShot:
    """iterator that records how many items were pulled."""
    def __init__(self, items):
        self.items = list(items)
        self.pulled = 0

    def __iter__(self):
        return self

    def __next__(self):
        if self.pulled >= len(self.items):
            raise StopIteration
        self.pulled += 1
        return self.items[self.pulled - 1]


AKAI_ALPHABET = "0123456789 ABCDEFGHIJKLMNOPQRSTUVWXYZ#+-."


def main():
    rnd = random.Random(10)
    adapter = AkaiString(GreedyBytes)

    # ---- char_ascii_to_akai: every single code point 0..0x2ff as text,
    # every byte as bytes / list / subclass, and odd argument types.
    inputs = []
    for cp in range(0x300):
        inputs.append(chr(cp))
        inputs.append(Text(chr(cp)))
    for b in range(256):
        inputs.append(bytes([b]))
        inputs.append(Raw([b]))
        inputs.append([b])
        inputs.append((b,))
        inputs.append(bytearray([b]))
    inputs += ["", b"", [], (), "abc xyz#+-.09", "Straße", "ﬁx", " a ",
               "A\x00B", b"abc", b"ABC abc", [65, 300], [65, -1], [65, "B"],
               [65, None], [65.0], None, 65, 6.5, object(), {65: 1}, {65, 66},
               range(48, 58), memoryview(b"AB")]
    for _ in range(3000):
        n = rnd.randint(0, 12)
        word = "".join(rnd.choice(AKAI_ALPHABET + "abcxyz") for _ in range(n))
        inputs.append(word)
        inputs.append(word.encode("ascii"))
    for _ in range(500):
        n = rnd.randint(0, 12)
        inputs.append(bytes(rnd.randrange(256) for _ in range(n)))
    for item in inputs:
        same(outcome(orig_char_ascii_to_akai, item),
             outcome(char_ascii_to_akai, item), ("a2k", repr(item)[:40]))
        same(outcome(orig_encode, adapter, item, None, "p"),
             outcome(AkaiString._encode, adapter, item, None, "p"),
             ("_encode", repr(item)[:40]))

    # one-shot iterators: same number of items consumed, same outcome
    for items in ([65, 66, 67], [65, 1, 67], [1, 65], [], [48, 57, 300, 65]):
        a_it, b_it = OneShot(items), OneShot(items)
        a = outcome(orig_char_ascii_to_akai, a_it)
        b = outcome(char_ascii_to_akai, b_it)
        same((a, a_it.pulled), (b, b_it.pulled), ("oneshot", items))

    # ---- AkaiString._decode: every byte, called directly and through parse
    dec_inputs = [bytes([b]) for b in range(256)] + [[b] for b in range(256)]
    dec_inputs += [b"", [], None, 5, "AB", [1, "x"], [1, None], [300], [-1],
                   [2.0], bytes(range(41)), bytes(range(42))]
    for _ in range(2000):
        n = rnd.randint(0, 12)
        dec_inputs.append(bytes(rnd.randrange(0, 45) for _ in range(n)))
    for item in dec_inputs:
        same(outcome(orig_decode, adapter, item, None, "p"),
             outcome(AkaiString._decode, adapter, item, None, "p"),
             ("_decode", repr(item)[:40]))
        if isinstance(item, bytes):
            same(outcome(orig_decode, adapter, item, None, "p"),
                 outcome(adapter.parse, item), ("parse", item))

    # ---- C18: bijection on the 41 valid characters, rejection of the rest
    seen = set()
    for b in range(256):
        dec = outcome(char_akai_to_ascii, bytes([b]))
        if b <= 0x28:
            same(dec[0], "ok", ("valid akai", b))
            text = char_akai_to_ascii(bytes([b]))
            seen.add(text)
            same(char_ascii_to_akai(text), bytes([b]), ("rt akai", b))
            same(adapter.build(text), bytes([b]), ("build", b))
        else:
            same(dec[1], "InvalidCharacter", ("invalid akai", b))
            same(outcome(adapter.parse, bytes([b]))[1], "ConstructError",
                 ("parse invalid", b))
        enc = outcome(char_ascii_to_akai, bytes([b]))
        if chr(b) in AKAI_ALPHABET:
            same(char_akai_to_ascii(char_ascii_to_akai(bytes([b]))), chr(b),
                 ("rt ascii", b))
        else:
            same(enc[1], "InvalidCharacter", ("invalid ascii", b))
    same(len(seen), 41, "41 distinct characters")
    same(seen, set(AKAI_ALPHABET), "alphabet")

    # strings over the AKAI alphabet up to length 12, incl. padded field
    field = AkaiPaddedString(12)
    for _ in range(4000):
        n = rnd.randint(0, 12)
        word = "".join(rnd.choice(AKAI_ALPHABET) for _ in range(n))
        raw = char_ascii_to_akai(word)
        same(raw, orig_char_ascii_to_akai(word), ("word enc", word))
        same(char_akai_to_ascii(raw), word, ("word rt", word))
        same(adapter.parse(adapter.build(word)), word, ("adapter rt", word))
        built = field.build(word)
        same(len(built), 12, ("padded len", word))
        same(field.parse(built), word.rstrip(" "), ("padded rt", word))
    for word in itertools.product(AKAI_ALPHABET, repeat=2):
        word = "".join(word)
        same(char_akai_to_ascii(char_ascii_to_akai(word)), word, ("pair", word))

    same(akai_string.char_ascii_to_akai is char_ascii_to_akai, True, "name")
    print("checked", CHECKED, "mismatches", FAIL)
    return 1 if FAIL else 0


if __name__ == "__main__":
    sys.exit(main())
