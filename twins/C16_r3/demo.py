"""Equivalence demo for r3: Image.sanitize_names_general
(smpl_extract/structural.py) and the two routines built on it.

Compares the live method against an inline copy of the ORIGINAL implementation
on many random element lists with heavy name collisions (including names that
already look like "X (2)", stereo "-L"/"-R" endings, empty / punctuation-only
names, directories vs files), checks returned list identity, the exact order of
f_set calls, the resulting _safe_name/_export_name, repeated application on the
same (shared) elements, and the CouldNotDetermineName error path.
Exit 0 = everything agrees, 1 = mismatch.
"""
import random
import sys

from smpl_extract.base import ElementTypes
from smpl_extract.structural import CouldNotDetermineName
from smpl_extract.structural import Image


class OrigMixin:
    """Verbatim copy of the original sanitize_names_general."""

    def sanitize_names_general(self, elements, f_sanitize, f_set):
        candidate_names = {}
        for element in elements:
            is_file = element.type_id != ElementTypes.DirectoryEntry
            candidate_name = f_sanitize(element.name, is_file)

            if candidate_name not in candidate_names.keys():
                candidate_names[candidate_name] = []
            candidate_names[candidate_name].append(element)

        assigned_names = set()  # as in the tree after the numbering fix
        for name, subelements in candidate_names.items():
            if len(subelements) == 1:
                element = subelements[0]
                f_set(element, name)
                continue

            i = 0
            for element in subelements:
                i += 1
                if i > 1:
                    next_name = self._add_count_to_name(name, i)
                    j = 0
                    while (next_name in candidate_names.keys() or next_name in assigned_names):
                        i += 1
                        j += 1
                        next_name = self._add_count_to_name(name, i)
                        if j > len(candidate_names.keys()):
                            # This should never(?) happen
                            raise CouldNotDetermineName(
                                "Unable to determine proper (sanitized) "
                                f"name for {element.name}. Too many name "
                                "collisions."
                            )
                else:
                    next_name = name
                f_set(element, next_name)
                assigned_names.add(next_name)

        result = elements
        return result


class OrigImage(OrigMixin, Image):
    pass


class StuckMixin:
    """Forces the 'too many collisions' branch."""

    def _add_count_to_name(self, name, count):
        return name


class StuckLive(StuckMixin, Image):
    pass


class StuckOrig(StuckMixin, OrigMixin, Image):
    pass


class Elem:
    def __init__(self, ident, name, type_id):
        self.ident = ident
        self.name = name
        self.type_id = type_id
        self._safe_name = None
        self._export_name = None


BASES = [
    "KICK", "KICK (2)", "KICK (3)", "KICK (4)", "SNARE -L", "SNARE -R",
    "SNARE (2) L", "SNARE  L", "PAD.", "PAD", "PAD-", "", " ", "'", "...",
    "a/b", "a\\b", "a:b", ":x", "HAT L", "HAT R", "HAT (2) L", "x" * 12,
    "Str 1", "Str 1 ", " Str 1", "STR 1", "été", "#1", "-", "0",
]
TYPES = [
    ElementTypes.DirectoryEntry,
    ElementTypes.SampleEntry,
    ElementTypes.SampleEntry,
    ElementTypes.ProgramEntry,
]


def make_elements(rng):
    n = rng.choice([0, 1, 2, 3, 5, 8, 13, 20])
    pool = rng.sample(BASES, rng.randint(1, min(6, len(BASES))))
    return [
        Elem(i, rng.choice(pool), rng.choice(TYPES))
        for i in range(n)
    ]


def run(image_cls, seed):
    rng = random.Random(seed)
    image = image_cls(lambda ctx: [])
    elements = make_elements(rng)
    trace = []
    steps = [rng.choice(["safe", "export", "custom", "upper"])
             for _ in range(rng.randint(1, 4))]
    for step in steps:
        calls = []
        try:
            if step == "safe":
                out = image.make_safe_names_routine(elements)
            elif step == "export":
                out = image.make_export_names_routine(elements)
            elif step == "custom":
                out = image.sanitize_names_general(
                    elements,
                    lambda name, is_file: name.strip()[:4] + ("" if is_file else "/"),
                    lambda e, n: calls.append((e.ident, n)),
                )
            else:
                out = image.sanitize_names_general(
                    elements,
                    lambda name, is_file: name.upper(),
                    lambda e, n: (calls.append((e.ident, n)),
                                  setattr(e, "_safe_name", n)),
                )
            trace.append(("ok", step, out is elements, [e.ident for e in out]))
        except CouldNotDetermineName as e:
            trace.append(("exc", step, str(e)))
        trace.append(("calls", calls))
        trace.append(("names", [(e.ident, e.name, e._safe_name, e._export_name)
                                for e in elements]))
        if rng.random() < 0.3:
            rng.shuffle(elements)
    return trace


def run_stuck(image_cls, seed):
    rng = random.Random(seed)
    image = image_cls(lambda ctx: [])
    elements = make_elements(rng)
    calls = []
    try:
        out = image.sanitize_names_general(
            elements,
            lambda name, is_file: name,
            lambda e, n: calls.append((e.ident, n)),
        )
        return ("ok", out is elements, calls)
    except CouldNotDetermineName as e:
        return ("exc", str(e), calls)


def main():
    bad = 0
    cases = 0
    for seed in range(4000):
        cases += 1
        expected = run(OrigImage, seed)
        actual = run(Image, seed)
        if expected != actual:
            bad += 1
            if bad <= 5:
                print("MISMATCH", seed)
                print("  expected", expected)
                print("  actual  ", actual)
    raised = 0
    for seed in range(500):
        cases += 1
        expected = run_stuck(StuckOrig, seed)
        actual = run_stuck(StuckLive, seed)
        raised += expected[0] == "exc"
        if expected != actual:
            bad += 1
            if bad <= 5:
                print("MISMATCH stuck", seed, expected, actual)
    if raised == 0:
        print("error path never exercised")
        bad += 1
    print("cases=%d mismatches=%d (error path hit %d times)" % (cases, bad, raised))
    return 1 if bad else 0


if __name__ == "__main__":
    sys.exit(main())
