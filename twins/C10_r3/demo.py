"""Equivalence demo for r3: actions.ls_action (not-found reporting).

Runs the live ls_action and an inline copy of the ORIGINAL on synthetic images
with many path strings and compares: captured stdout, return value, raised
exception (type + text) and the order of calls made on the image / item.
Exit status 0 = everything agrees, 1 = a difference was found.
"""
from contextlib import redirect_stdout
from dataclasses import dataclass
from functools import wraps
from io import StringIO
import random
import sys
from typing import Callable
from typing import Dict
from typing import Union

from smpl_extract import actions
from smpl_extract.actions import determine_image_type
from smpl_extract.base import ElementTypes
from smpl_extract.base import Printable
from smpl_extract.elements import LeafElement
from smpl_extract.structural import ErrorInvalidPath
from smpl_extract.structural import Image
from smpl_extract.structural import T_ROUTINE
from smpl_extract.structural import Traversable


# ---------------------------------------------------------------------------
# verbatim copy of the ORIGINAL implementation (wrapper + action)
# ---------------------------------------------------------------------------
def _wrap_filestream(func: Callable):
    @wraps(func)
    def inner(file: Union[str, Image], *args, **kwargs):
        if isinstance(file, str):
            result = determine_image_type(file)
        else:
            result = file
        func(result, *args, **kwargs)
    return inner


@_wrap_filestream
def ls_action(image: Image, path: str):

    routines: Dict[str, T_ROUTINE] = {
        "make_safe_names": image.make_safe_names_routine,
        "make_export_names": image.make_export_names_routine
    }

    image.set_routines(routines)

    try:
        item = image.parse_path(path)
    except ErrorInvalidPath as e:
        print(e)
        return

    info = item.get_info()
    result_str = info.to_string()
    print(result_str)


# keep the original's own name so that TypeError texts are comparable
ls_action_original = ls_action
del ls_action


# ---------------------------------------------------------------------------
# synthetic images
# ---------------------------------------------------------------------------
@dataclass
class Leaf(LeafElement):
    name: str = ""
    type_name: str = "Leaf"
    type_id = ElementTypes.ProgramEntry
    payload: str = "x"
    numbers: tuple = (1, 2, 3)


class BrokenInfo(Printable):
    def to_string(self):
        raise RuntimeError("to_string exploded")


class NotFoundInInfo(Printable):
    def to_string(self):
        raise ErrorInvalidPath("raised while rendering")


@dataclass
class BrokenLeaf(Leaf):
    mode: str = "get_info"

    def get_info(self):
        if self.mode == "get_info":
            raise KeyError("get_info exploded")
        if self.mode == "invalid_path":
            raise ErrorInvalidPath("raised inside get_info")
        if self.mode == "to_string_invalid_path":
            return NotFoundInInfo()
        return BrokenInfo()


class Dir(Traversable):
    type_name = "Dir"

    def __init__(self, name, spec, routines=None, path=None, parent=None):
        self.name = name
        self._spec = spec
        super().__init__(self._realize, routines, path, parent)

    def _realize(self, context):
        result = []
        for name, sub in self._spec:
            if sub is None:
                child = Leaf(name=name)
            elif isinstance(sub, str):
                child = BrokenLeaf(name=name, mode=sub)
            else:
                child = Dir(name, sub, context["_elem_routines"],
                            self.path + [name], self)
            if not isinstance(child, Dir):
                child._path = self.path + [name]
                child._parent = self
            result.append(child)
        return result


SPEC = [
    ("A", [
        ("VOLUME 1", [("KICK  -L", None), ("KICK  -R", None), ("", None),
                      ("a:b", None), ("  pad  ", None)]),
        ("VOLUME 1", [("dup", None)]),
        ("", []),
        ("long " * 12, [("n" * 120, None)]),
    ]),
    ("B", []),
    ("bad get_info", "get_info"),
    ("bad to_string", "to_string"),
    ("bad invalid_path", "invalid_path"),
    ("bad to_string_invalid_path", "to_string_invalid_path"),
    ("leaf", None),
    ("Ümläut 音", [("サンプル", None)]),
]


class LoggedImage(Image):
    name = "Synthetic"
    type_name = "Synthetic Image"

    def __init__(self, parse_failure=None):
        self._spec = SPEC
        self.log = []
        self._parse_failure = parse_failure
        Traversable.__init__(self, self._realize)

    _realize = Dir._realize

    def set_routines(self, routines):
        self.log.append(("set_routines", tuple(routines)))
        return super().set_routines(routines)

    def parse_path(self, path):
        self.log.append(("parse_path", path))
        if self._parse_failure is not None:
            raise self._parse_failure
        return super().parse_path(path)

    def get_info(self):
        self.log.append(("get_info",))
        return super().get_info()


def all_paths():
    image = LoggedImage()
    image.set_routines({"make_safe_names": image.make_safe_names_routine})
    paths = set()

    def walk(node, prefix):
        if isinstance(node, Traversable):
            for child in node.children:
                here = prefix + (child.safe_name,)
                for sep in ("/", "\\"):
                    joined = sep.join(here)
                    paths.update([joined, joined + sep, " " + joined + " ",
                                  joined.lower(), joined + "x", joined[:-1],
                                  joined + sep + "nope", sep + joined])
                walk(child, here)

    walk(image, ())
    paths.update(["", " ", "/", "\\", "//", "nope", "nope/nope", "A", "A/",
                  "A//", "leaf/x", "leaf/x/y", "B/", "B/x", "音", "\x00",
                  "\U0001F600/ ", "A/VOLUME 1 (2)/dup"])
    rng = random.Random(303)
    alphabet = ["/", "\\", " ", "A", "B", "leaf", "VOLUME 1", "x", "", ":",
                "bad get_info", "bad to_string", "音"]
    for _ in range(1500):
        paths.add("".join(rng.choice(alphabet) for _ in range(rng.randint(0, 6))))
    return sorted(paths)


def run(action, image, *args, **kwargs):
    buffer = StringIO()
    try:
        with redirect_stdout(buffer):
            value = action(image, *args, **kwargs)
    except BaseException as e:  # noqa
        result = ("raise", type(e).__name__, str(e))
    else:
        result = ("ok", value)
    return result, buffer.getvalue(), image.log


def main():
    mismatches = 0
    checked = 0

    def compare(label, make_image, *args, **kwargs):
        nonlocal mismatches, checked
        checked += 1
        got = run(actions.ls_action, make_image(), *args, **kwargs)
        expected = run(ls_action_original, make_image(), *args, **kwargs)
        if got != expected:
            mismatches += 1
            if mismatches <= 10:
                print("MISMATCH", label, args, kwargs, got, expected)

    for path in all_paths():
        compare("path", LoggedImage, path)
        compare("kw", LoggedImage, path=path)

    # non-string paths and wrong arity
    for value in (None, 3, b"A", ["A"], ("A", "B")):
        compare("non-str", LoggedImage, value)
    compare("no-path", LoggedImage)
    compare("two-paths", LoggedImage, "A", "B")

    # parse_path failing in other ways than "not found"
    failures = [
        ErrorInvalidPath("custom not found text"), ErrorInvalidPath(),
        ErrorInvalidPath("a", "b"), ErrorInvalidPath("音\n second line"),
        ValueError("bad"), KeyError("k"), StopIteration(), RuntimeError("x"),
        KeyboardInterrupt(), SystemExit(3),
    ]
    for failure in failures:
        compare("failure", lambda failure=failure: LoggedImage(failure), "A")

    # the decorated function keeps its metadata
    checked += 1
    if (actions.ls_action.__name__, actions.ls_action.__wrapped__.__name__) != \
            ("ls_action", "ls_action"):
        mismatches += 1
        print("MISMATCH metadata")

    print(f"checked {checked} cases, {mismatches} mismatches")
    return 1 if mismatches else 0


if __name__ == "__main__":
    sys.exit(main())
