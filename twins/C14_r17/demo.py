"""Equivalence demo for r17 (smpl_extract/util/fat.py,
FileAllocationTable.get_path - the walk along the sector chain that starts at
the `start` field of an AKAI file table entry (via
SegmentAllocationTable.get_segment, called from the computed `file_stream`
field of FileEntryConstruct inside the skip-on-error loop of
FileEntriesAdapter._parse) or at the `fat_entry` field of a Roland directory
record (via RolandFileAllocationTable.get_file)).

The refactoring turns the `while loop_cnt < self.size` counting loop with the
`if loop_cnt >= self.size: raise` check behind it into `for ... else`.

An inline copy of the ORIGINAL method is compared with the live one.

 A. unit level: every FAT with up to 4 links (every next in -1..len, every end
    flag), every size in -1..6 (also True/False), every starting sector in
    -3..len+2; link objects that log their attribute reads; long random FATs
    with loops, chains that leave the table, sizes smaller/larger than the
    table.  Compared: returned list (type and content), exception type, text
    and cause, the log of attribute reads on the links, and that the table is
    left untouched.
 B. the two subclasses that reach the method (get_segment / get_file with and
    without cluster offset): sector lists of the returned streams.
 C. end to end: synthetic AKAI partitions whose file table is damaged in the
    way of property C14 (every value of both bytes of the start sector of one
    entry, every byte of an entry set to several values, random multi-byte
    damage confined to one entry, SAT damage) are listed once with the
    original method patched into the class and once with the live one.
    Compared: error type/text, entry names, file names and paths, decoded
    sample bytes and the trace of every seek/read/tell on the image stream.

Exit 0 when everything agrees, 1 otherwise.
"""
import io
import itertools
import random
import struct
import sys
from typing import List

from construct.core import Int16ul
from construct.core import Struct
from construct.expr import this

import smpl_extract.util.fat as fat_mod
from smpl_extract.akai.akai_string import char_ascii_to_akai
from smpl_extract.akai.data_types import AKAI_PARTITION_MAGIC
from smpl_extract.akai.data_types import AKAI_SAT_ENTRY_CNT
from smpl_extract.akai.data_types import AKAI_VOLUME_ENTRY_CNT
from smpl_extract.akai.file_entry import FileEntriesAdapter
from smpl_extract.akai.file_entry import FileEntryConstruct
from smpl_extract.akai.partition import PartitionHeaderConstruct
from smpl_extract.akai.sat import SegmentAllocationTable
from smpl_extract.akai.sat import SegmentAllocationTableAdapter
from smpl_extract.akai.volume import VolumeEntryConstruct
from smpl_extract.roland.s7xx.fat import RolandFileAllocationTable
from smpl_extract.util.fat import FileAllocationTable
from smpl_extract.util.fat import InvalidFatDefinition
from smpl_extract.util.fat import RequestedInvalidSector
from smpl_extract.util.fat import SectorLink
from smpl_extract.util.stream import StreamOffset


# ---------------------------------------------------------------- original
def orig_get_path(
        self,
        starting_sector: int
)->List[int]:

    path = []
    current_sector = starting_sector

    loop_cnt = 0
    while loop_cnt < self.size:
        if current_sector >= len(self.sector_links):
            raise RequestedInvalidSector

        path.append(current_sector)
        sector_link = self.sector_links[current_sector]

        if sector_link.end:
            break
        current_sector = sector_link.next
        loop_cnt += 1

    if loop_cnt >= self.size:
        raise InvalidFatDefinition("Broken FAT. Loop? Sector path exceeds size?")

    return path


LIVE_GET_PATH = FileAllocationTable.get_path

failures = []
checked = 0


def check(cond, msg):
    global checked
    checked += 1
    if not cond:
        failures.append(msg)


# ---------------------------------------------------------------- part A
class LoggingLink:
    """a link that records every read of .end / .next"""

    def __init__(self, index, nxt, end, log):
        self._index = index
        self._next = nxt
        self._end = end
        self._log = log

    @property
    def end(self):
        self._log.append(("end", self._index))
        return self._end

    @property
    def next(self):
        self._log.append(("next", self._index))
        return self._next


def call(method, table, start):
    try:
        result = method(table, start)
    except BaseException as e:  # noqa: B902
        return ("raise", type(e), str(e), type(e.__cause__), type(e.__context__))
    return ("ok", type(result), list(result))


def compare_table(label, size, spec, starts, table_cls=FileAllocationTable):
    """spec: list of (next, end)"""
    out = []
    for method in (orig_get_path, LIVE_GET_PATH):
        log = []
        links = [LoggingLink(i, n, e, log) for i, (n, e) in enumerate(spec)]
        table = table_cls(io.BytesIO(b""), size, links)
        results = []
        for start in starts:
            log.append(("call", start))
            results.append(call(method, table, start))
        same_links = len(table.sector_links) == len(links) and all(
            a is b for a, b in zip(table.sector_links, links)
        )
        out.append((results, log, same_links, table.size))
    check(out[0] == out[1],
          f"{label} size={size!r} spec={spec}: {str(out[0])[:300]} != {str(out[1])[:300]}")
    return out[1]


def part_a():
    n = 0
    for length in range(0, 5):
        starts = list(range(-3, length + 3))
        nexts = list(range(-1, length + 1))
        per_link = [(nx, end) for nx in nexts for end in (False, True)]
        if length == 4:
            # 4 links: all end flag patterns, nexts from a reduced set
            per_link = [(nx, end) for nx in (-1, 0, 2, 3, 4) for end in (False, True)]
        for spec in itertools.product(per_link, repeat=length):
            for size in (-1, 0, 1, 2, 3, length, length + 1, 6, True, False):
                compare_table("exhaustive", size, list(spec), starts)
                n += 1
    check(n > 1000, "exhaustive part ran")

    rng = random.Random(0xC14)
    for _ in range(1500):
        length = rng.randrange(1, 60)
        spec = []
        for i in range(length):
            kind = rng.random()
            if kind < 0.6:
                nx = (i + 1) if rng.random() < 0.7 else rng.randrange(0, length)
            elif kind < 0.8:
                nx = rng.randrange(length, length + 5)
            else:
                nx = rng.randrange(-length, 0)
            spec.append((nx, rng.random() < 0.15))
        size = rng.choice([length, length, length - 1, length + 1, length // 2,
                           0, 1, 2 * length, rng.randrange(0, 80)])
        starts = [rng.randrange(-length - 2, length + 3) for _ in range(12)]
        compare_table("random", size, spec, starts)

    # straight chains whose length sits right at the limit
    for length in range(1, 12):
        spec = [(i + 1, i == length - 1) for i in range(length)]
        for size in range(0, length + 3):
            res = compare_table("chain", size, spec, list(range(length + 1)))
            # independent expectation for start 0
            first = res[0][0]
            if size >= length:
                check(first == ("ok", list, list(range(length))),
                      f"chain of {length} fits size {size}: {first}")
            else:
                check(first[0] == "raise" and first[1] is InvalidFatDefinition
                      and first[2] == "Broken FAT. Loop? Sector path exceeds size?",
                      f"chain of {length} exceeds size {size}: {first}")
            last = res[0][length]
            if size > 0:
                check(last[0] == "raise" and last[1] is RequestedInvalidSector
                      and last[2] == "", f"start beyond table: {last}")

    # real SectorLink objects, default table, table whose links are shared
    for size in range(0, 6):
        table = FileAllocationTable(io.BytesIO(b""), size, [SectorLink()] * size)
        for start in range(-2, size + 2):
            a = call(orig_get_path, table, start)
            b = call(LIVE_GET_PATH, table, start)
            check(a == b, f"shared default link size={size} start={start}: {a} != {b}")
    table = FileAllocationTable(io.BytesIO(b""))
    for start in (-1, 0, 1):
        a = call(orig_get_path, table, start)
        b = call(LIVE_GET_PATH, table, start)
        check(a == b and b[1] is InvalidFatDefinition,
              f"default table start={start}: {a} != {b}")
    # starting sector of another type
    table = FileAllocationTable(
        io.BytesIO(b""), 3,
        [SectorLink(1, False), SectorLink(2, False), SectorLink(0, True)]
    )
    for start in (None, "1", 1.0, 0.5, [0], True):
        a = call(orig_get_path, table, start)
        b = call(LIVE_GET_PATH, table, start)
        check(a == b, f"odd start {start!r}: {a} != {b}")


# ---------------------------------------------------------------- part B
def part_b():
    rng = random.Random(0xB17)
    for _ in range(300):
        length = rng.randrange(1, 40)
        links = [
            SectorLink(rng.randrange(0, length + 2), rng.random() < 0.2)
            for _ in range(length)
        ]
        size = rng.choice([length, length + 1, length - 1])
        parent = io.BytesIO(b"")
        sat = SegmentAllocationTable(parent, size, links)
        rfat = RolandFileAllocationTable(parent, size, links)
        for start in range(-1, length + 2):
            outs = []
            for method in (orig_get_path, LIVE_GET_PATH):
                FileAllocationTable.get_path = method
                try:
                    row = []
                    try:
                        seg = sat.get_segment(start)
                        row.append(("segment", type(seg).__name__, seg.sector_list,
                                    seg.end_of_file, seg.substream is parent))
                    except BaseException as e:  # noqa: B902
                        row.append(("raise", type(e), str(e)))
                    for cluster_offset in (0, 1, 3, -1):
                        try:
                            f = rfat.get_file(start, cluster_offset=cluster_offset)
                            row.append(("file", type(f).__name__, f.sector_list,
                                        f.end_of_file))
                        except BaseException as e:  # noqa: B902
                            row.append(("raise", type(e), str(e)))
                    outs.append(row)
                finally:
                    FileAllocationTable.get_path = LIVE_GET_PATH
            check(outs[0] == outs[1],
                  f"subclass start={start}: {str(outs[0])[:300]} != {str(outs[1])[:300]}")


# ---------------------------------------------------------------- part C
SECT = 0x2000
PREAMBLE_HDR_LEN = 2 + 2 + len(AKAI_PARTITION_MAGIC) + 4

PreambleParser = Struct(
    "header" / PartitionHeaderConstruct,
    "volume_entries" / VolumeEntryConstruct[AKAI_VOLUME_ENTRY_CNT],
    "sat" / SegmentAllocationTableAdapter(
        this.header.partition_stream,
        Int16ul[AKAI_SAT_ENTRY_CNT]  # type: ignore
    ),
)


def akai_name(text):
    return bytes(char_ascii_to_akai(text.ljust(12)[:12]))


def record(name, ftype, size, start, pad1=b"\0" * 4, pad2=b"\0\0"):
    return (
        akai_name(name) + pad1 + bytes([ftype]) + size.to_bytes(3, "little")
        + struct.pack("<H", start) + pad2
    )


def make_partition(size, volumes):
    """volumes: list of (name, type, [(fname, ftype, data)])."""
    buf = bytearray(size * SECT)
    hdr = (
        struct.pack("<H", size)
        + b"\x00\x00" + AKAI_PARTITION_MAGIC + b"\x55\xba\x2f\x00"
    )
    buf[:len(hdr)] = hdr
    sat = [0] * AKAI_SAT_ENTRY_CNT
    sat[0] = sat[1] = sat[2] = 0x4000
    next_sector = 3
    vol_entries = b""
    for vname, vtype, files in volumes:
        vsect = next_sector
        next_sector += 1
        sat[vsect] = 0xC000
        vol_entries += akai_name(vname) + struct.pack("<HH", vtype, vsect)
        table = b""
        for fname, ftype, data in files:
            nsect = max(1, -(-len(data) // SECT))
            start = next_sector
            for k in range(nsect):
                sat[start + k] = start + k + 1 if k < nsect - 1 else 0xC000
            next_sector += nsect
            buf[start * SECT:start * SECT + len(data)] = data
            table += record(fname, ftype, len(data), start)
        table += b"\x00" * 8 + struct.pack("<H", 0xD747) + b"\x00" * 14
        buf[vsect * SECT:vsect * SECT + len(table)] = table
    assert next_sector <= max(size, 3)
    off = len(hdr)
    buf[off:off + len(vol_entries)] = vol_entries
    off = len(hdr) + 16 * AKAI_VOLUME_ENTRY_CNT
    buf[off:off + 2 * AKAI_SAT_ENTRY_CNT] = struct.pack(
        f"<{AKAI_SAT_ENTRY_CNT}H", *sat
    )
    return bytes(buf)


class TracingFile(io.BytesIO):

    def __init__(self, data):
        super().__init__(data)
        self.trace = []

    def tell(self):
        pos = super().tell()
        self.trace.append(("tell", pos))
        return pos

    def seek(self, *args):
        pos = super().seek(*args)
        self.trace.append(("seek", args, pos))
        return pos

    def read(self, *args):
        data = super().read(*args)
        self.trace.append(("read", args, len(data)))
        return data


class VolParent:
    path = ["IMG", "A:", "VOL"]


def describe_entries(entries):
    out = []
    for entry in entries:
        item = [type(entry).__name__, entry.name, str(entry.file_type)]
        try:
            f = entry.file
        except BaseException as e:  # noqa: B902
            item.append(("file-raise", type(e), str(e)))
            out.append(item)
            continue
        item += [type(f).__name__, getattr(f, "name", None),
                 list(getattr(f, "path", []))]
        stream = getattr(f, "_data_stream", None)
        if stream is not None:
            try:
                stream.seek(0)
                item.append(stream.read(4096))
            except BaseException as e:  # noqa: B902
                item.append(("data-raise", type(e), str(e)))
        out.append(item)
    return out


PREAMBLE_LEN = PREAMBLE_HDR_LEN + 16 * AKAI_VOLUME_ENTRY_CNT + 2 * AKAI_SAT_ENTRY_CNT
_preamble_cache = {}


def load_image(data):
    """header, volume table and SAT are decoded once per distinct preamble
    (the SAT decoder is slow and does not call get_path); the SAT object of an
    image is then rebuilt around that image's own traced stream exactly as the
    partition parser builds it (StreamOffset over the file, offset 0)"""
    key = bytes(data[:PREAMBLE_LEN])
    if key not in _preamble_cache:
        try:
            pre = PreambleParser.parse_stream(io.BytesIO(data))
        except BaseException as e:  # noqa: B902
            _preamble_cache[key] = ("preamble-raise", type(e), str(e))
        else:
            check(type(pre.sat) is SegmentAllocationTable
                  and type(pre.header.partition_stream) is StreamOffset
                  and pre.header.partition_stream.offset == 0, "preamble shape")
            _preamble_cache[key] = (
                "ok", pre.header.total_size, pre.sat.size, pre.sat.sector_links
            )
    cached = _preamble_cache[key]
    if cached[0] == "preamble-raise":
        return cached
    f = TracingFile(data)
    partition_stream = StreamOffset(f, cached[1], offset=0)
    sat = SegmentAllocationTable(partition_stream, cached[2], cached[3])
    return (f, sat)


def run_image(method, loaded, volume_starts):
    if loaded[0] == "preamble-raise":
        return loaded
    f, sat = loaded
    f.seek(0)
    f.trace.clear()
    out = []
    parent = VolParent()
    FileAllocationTable.get_path = method
    try:
        for start in volume_starts:
            f.trace.append(("--- volume", start))
            try:
                table_stream = sat.get_segment(start)
                adapter = FileEntriesAdapter(sat, FileEntryConstruct)
                entries = adapter.parse_stream(
                    table_stream, _elem_parent=parent, _elem_routines={}
                )
                out.append(("ok", type(entries), describe_entries(entries)))
            except BaseException as e:  # noqa: B902
                out.append(("table-raise", type(e), str(e)))
    finally:
        FileAllocationTable.get_path = LIVE_GET_PATH
    return ("ok", out, list(f.trace))


def sample(n, seed):
    rng = random.Random(seed)
    return b"\x03" + b"\x00" * 149 + bytes(rng.getrandbits(8) for _ in range(n))


def part_c():
    rng = random.Random(0x17C)
    s1, s2, s3 = sample(200, 1), sample(20000, 2), sample(64, 3)
    volumes = [
        ("VOL ONE", 1, [("SAMPLE A", 0x73, s1), ("SAMPLE B", 0xF3, s2),
                        ("THIRD", 0x73, s3), ("FOURTH", 0xF3, s1)]),
        ("SECOND", 3, [("X", 0x73, s3)]),
        ("EMPTY", 1, []),
    ]
    good = make_partition(16, volumes)
    starts = (3, 10, 12, 4000)
    # sectors 2, 15 and -1 hold no table at all (hundreds of unreadable slots)
    more_starts = starts + (2, 15, -1)
    images = [("good", good), ("truncated-body", good[:6 * SECT])]
    ft = 3 * SECT
    for value in range(256):
        d = bytearray(good)
        d[ft + 2 * 24 + 20] = value          # start sector, low byte
        images.append((f"file[2].start_lo={value:#x}", bytes(d)))
        d = bytearray(good)
        d[ft + 1 * 24 + 21] = value          # start sector, high byte
        images.append((f"file[1].start_hi={value:#x}", bytes(d)))
    for entry in (0, 1, 3, 4):
        for field_off in range(24):
            for value in (0x00, 0x0A, 0xD7, 0xFF):
                d = bytearray(good)
                d[ft + entry * 24 + field_off] = value
                images.append((f"file[{entry}]+{field_off}={value:#x}", bytes(d)))
    for _ in range(100):
        d = bytearray(good)
        base = ft + rng.randrange(0, 5) * 24
        for _ in range(rng.randrange(2, 8)):
            d[base + rng.randrange(24)] = rng.getrandbits(8)
        images.append(("random-entry-damage", bytes(d)))
    sat_off = PREAMBLE_HDR_LEN + 16 * AKAI_VOLUME_ENTRY_CNT
    for _ in range(60):
        d = bytearray(good)
        for _ in range(rng.randrange(1, 4)):
            idx = rng.randrange(0, 18)
            d[sat_off + 2 * idx:sat_off + 2 * idx + 2] = struct.pack(
                "<H", rng.choice([0, 3, 4, 5, 11, 12, 0x4000, 0x8000, 0xC000,
                                  0xFFFF, rng.randrange(0, 0x10000)])
            )
        images.append(("sat-damage", bytes(d)))

    for label, data in images:
        loaded = load_image(data)
        which = more_starts if label in ("good", "truncated-body", "sat-damage") \
            else starts
        a = run_image(orig_get_path, loaded, which)
        b = run_image(LIVE_GET_PATH, loaded, which)
        check(a == b, f"image mismatch {label}: {str(a)[:500]} != {str(b)[:500]}")

    # expected values, independent of the inline copy
    res = run_image(LIVE_GET_PATH, load_image(good), (3, 10, 12))
    check(res[0] == "ok" and all(v[0] == "ok" for v in res[1]),
          f"good image lists: {str(res)[:300]}")
    if res[0] == "ok" and res[1][0][0] == "ok":
        names = [[e[1] for e in v[2]] for v in res[1]]
        check(names == [["SAMPLE A", "SAMPLE B", "THIRD", "FOURTH"], ["X"], []],
              f"entry names {names}")
        first = res[1][0][2][0]
        check(first[4] == "SAMPLE A" and first[5] == VolParent.path + ["SAMPLE A"],
              f"file name/path {first[:6]}")
        check(first[-1] == b"", "sample A bytes")
    d = bytearray(good)
    d[ft + 24 + 20:ft + 24 + 22] = struct.pack("<H", 4000)   # start beyond the SAT use
    res = run_image(LIVE_GET_PATH, load_image(bytes(d)), (3,))
    check(res[0] == "ok" and res[1][0][0] == "ok"
          and [e[1] for e in res[1][0][2]][0] == "SAMPLE A"
          and [e[1] for e in res[1][0][2]][-2:] == ["THIRD", "FOURTH"],
          f"damaged start sector keeps the neighbours: {str(res[1])[:300]}")


def main():
    check(FileAllocationTable.get_path is LIVE_GET_PATH
          and fat_mod.FileAllocationTable is FileAllocationTable, "setup")
    part_a()
    part_b()
    part_c()
    check(FileAllocationTable.get_path is LIVE_GET_PATH, "class restored")
    print(f"{checked} checks, {len(failures)} failures")
    for msg in failures[:15]:
        print("FAIL:", msg)
    return 1 if failures else 0


if __name__ == "__main__":
    sys.exit(main())
