"""Equivalence demo for r12 (FileAllocationTable.get_path).

The ORIGINAL body of FileAllocationTable.get_path is pasted below into a
subclass.  Both versions are run on
  (a) EVERY allocation table with 0..4 entries (each entry any next index in
      -1..n+1 combined with end True/False), every declared size -1..n+2 (n-1..n+1 for n=4) and
      every starting sector -2..n+1  (exhaustive), and
  (b) thousands of random tables up to 40 entries: well-formed chains built
      with add_to_sector_links, tables with cycles, chains longer than the
      declared size, links that point outside the table, empty tables,
and the results are compared: returned path (value and list type), exception
type and text, and that the table itself is left untouched.  For the
well-formed chains the path is additionally compared with the chain that was
written into the table, and a chained FileStream built from the path (as
get_file/get_segment do) is read through seek/read histories against the
concatenation of the chained sectors, for both versions.
Exit 0 = all agree, 1 = mismatch.
"""
import copy
import itertools
import random
import sys
from io import BytesIO, SEEK_SET
from typing import List

from smpl_extract.util.fat import FileAllocationTable
from smpl_extract.util.fat import FileStream
from smpl_extract.util.fat import InvalidFatDefinition
from smpl_extract.util.fat import RequestedInvalidSector
from smpl_extract.util.fat import SectorLink
from smpl_extract.util.fat import add_to_sector_links


class OrigFileAllocationTable(FileAllocationTable):
    """Original get_path, verbatim."""

    def get_path(
            self,
            starting_sector: int
    )->List[int]:

        path = []
        current_sector = starting_sector

        loop_cnt = 0
        while loop_cnt < self.size:
            if current_sector >= len(self.sector_links):
                raise RequestedInvalidSector

            path.append(current_sector)
            sector_link = self.sector_links[current_sector]

            if sector_link.end:
                break
            current_sector = sector_link.next
            loop_cnt += 1

        if loop_cnt >= self.size:
            raise InvalidFatDefinition("Broken FAT. Loop? Sector path exceeds size?")

        return path


def call(fn, *a, **k):
    try:
        return ("ok", fn(*a, **k))
    except Exception as e:  # noqa: BLE001
        return ("exc", type(e).__name__, str(e), type(e.__cause__).__name__)


def compare(links, size, start, label):
    links_new, links_old = copy.deepcopy(links), copy.deepcopy(links)
    parent = BytesIO(b"")
    t_new = FileAllocationTable(parent, size, links_new)
    t_old = OrigFileAllocationTable(parent, size, links_old)
    r_new = call(t_new.get_path, start)
    r_old = call(t_old.get_path, start)
    ok = r_new == r_old
    if ok and r_new[0] == "ok":
        ok = type(r_new[1]) is list and type(r_old[1]) is list
    # nothing may be written to the table or the object
    ok = ok and links_new == links and links_old == links
    ok = ok and t_new.size == t_old.size == size and t_new.sector_links == t_old.sector_links
    if not ok:
        print("MISMATCH", label, size, start, links, r_new, r_old)
    return ok, r_new


def main():
    ok = True
    count = 0
    rng = random.Random(1212)

    # (a) exhaustive tiny tables
    for n in range(0, 5):
        cells = [SectorLink(next=nx, end=e) for nx in range(-1, n + 2) for e in (False, True)]
        if n == 4:   # keep the product manageable: next in 0..n only
            cells = [SectorLink(next=nx, end=e) for nx in range(0, n + 1) for e in (False, True)]
        for table in itertools.product(cells, repeat=n):
            links = list(table)
            for size in (range(-1, n + 3) if n < 4 else (n - 1, n, n + 1)):
                for start in range(-2, n + 2):
                    good, _ = compare(links, size, start, "tiny")
                    ok &= good
                    count += 1

    # (b) random larger tables
    for trial in range(4000):
        n = rng.randint(0, 40)
        links = [SectorLink() for _ in range(n)]
        flavour = rng.choice(["chains", "chains", "wild", "cycle"])
        chains = []
        if flavour == "chains" and n:
            free = list(range(n))
            rng.shuffle(free)
            while free:
                k = rng.randint(1, max(1, len(free)))
                chain, free = free[:k], free[k:]
                add_to_sector_links(chain, links)
                chains.append(chain)
        elif flavour == "wild":
            links = [SectorLink(next=rng.randint(-2, n + 2), end=rng.random() < 0.2)
                     for _ in range(n)]
        elif flavour == "cycle" and n:
            order = list(range(n))
            rng.shuffle(order)
            for a, b in zip(order, order[1:] + order[:1]):
                links[a] = SectorLink(next=b, end=False)
            if rng.random() < 0.5:
                links[rng.choice(order)] = SectorLink(next=0, end=True)
        for size in {n, n - 1, n + 1, 0, 1, rng.randint(0, n + 3), True}:
            for start in {0, n - 1, n, -1, rng.randint(-1, n + 1), rng.randint(0, max(n - 1, 0))}:
                good, res = compare(links, size, start, ("rand", trial, flavour))
                ok &= good
                count += 1
        # well-formed chains: the path is the chain, and the chained file
        # stream made from it reads the chained sectors back
        for chain in chains:
            good, res = compare(links, n, chain[0], ("chain", trial))
            ok &= good
            count += 1
            if res != ("ok", chain):
                # a chain of k <= n entries meets its end marker on step k
                print("MODEL path", trial, chain, res)
                ok = False
            if res[0] != "ok":
                continue
            ss = rng.randint(1, 5)
            image = bytes(rng.randrange(256) for _ in range(n * ss))
            logical = b"".join(image[s * ss:(s + 1) * ss] for s in chain)
            for cls in (FileAllocationTable, OrigFileAllocationTable):
                table = cls(BytesIO(image), n, copy.deepcopy(links))
                stream = FileStream(table.parent_stream, ss, table.get_path(chain[0]))
                for _ in range(10):
                    pos = rng.randint(0, max(len(logical) - 1, 0))
                    want = rng.randint(0, len(logical) - pos)
                    stream.seek(pos, SEEK_SET)
                    if stream.read(want) != logical[pos:pos + want] \
                            or stream.tell() != pos + want:
                        print("MODEL read", cls.__name__, trial, chain, pos, want)
                        ok = False

    # (c) odd starting sectors reach the same exceptions (size is an int
    # everywhere in the code base: len(block) or FAT_NUM_ENTRIES)
    base = [SectorLink(next=1, end=False), SectorLink(next=0, end=True)]
    for size in (2, 1, 0, -3, True, False, 10 ** 6):
        for start in (0, 1, 2, -1, 0.0, None, "0", True):
            good, _ = compare(base, size, start, "odd")
            ok &= good
            count += 1

    print("compared", count, "get_path calls:", "all agree" if ok else "MISMATCH")
    return 0 if ok else 1


if __name__ == "__main__":
    sys.exit(main())
