"""Equivalence demo for r2 (named constant _BITS_PER_BYTE and explicit
parentheses in the Rebuild expressions of WavFormatChunkStruct,
smpl_extract/formats/wav.py).

The module's WavFormatChunkStruct is compared with an inline copy of the
ORIGINAL definition: same bytes on build, same container on parse, same
exception type and message on failure; also through the enclosing
WavRiffChunkStruct / RiffStruct.  Exit 0 = all agree, 1 = difference.
"""
import itertools
import random
import sys

from construct.core import Int16ul
from construct.core import Int32ul
from construct.core import Rebuild
from construct.core import Struct
from construct.expr import this
from construct.lib.containers import Container

from smpl_extract.formats import wav as W


# --------------------------------------------------------------------------
# ORIGINAL implementation (verbatim)
# --------------------------------------------------------------------------
OrigWavFormatChunkStruct = Struct(
    "audio_format"      / Int16ul,
    "channel_cnt"       / Int16ul,
    "sample_rate"       / Int32ul,
    "byte_rate"         / Rebuild(
        Int32ul,
        this.sample_rate * this.channel_cnt * this.bits_per_sample//8
    ),
    "block_align"       / Rebuild(
        Int16ul,
        this.channel_cnt * this.bits_per_sample//8
    ),
    "bits_per_sample"   / Int16ul
)

failures = []
checks = 0
n_ok = 0


def outcome(f):
    try:
        return ("ok", f())
    except BaseException as e:  # noqa
        return ("exc", type(e).__name__, str(e))


def plain(c):
    return {k: v for k, v in c.items() if k != "_io"}


def check(label, f_new, f_old):
    global checks, n_ok
    checks += 1
    a = outcome(f_new)
    b = outcome(f_old)
    if a[0] == "ok":
        n_ok += 1
    if a != b:
        failures.append((label, a, b))


channel_values = [0, 1, 2, 3, 4, 6, 8, 255, 256, 4095, 65535, 65536, -1]
rate_values = [0, 1, 7, 8000, 11025, 22050, 32000, 44100, 48000, 96000,
               192000, 0x7FFFFFFF, 0xFFFFFFFF, 0x100000000, -1]
bits_values = [0, 1, 4, 7, 8, 9, 12, 15, 16, 17, 20, 24, 32, 64, 65535,
               65536, -8]

# 1. full sweep via the dataclass container used by the exporter
for ch, rate, bits in itertools.product(channel_values, rate_values, bits_values):
    def make():
        return W.WavFormatChunkContainer(
            audio_format=1, channel_cnt=ch, sample_rate=rate,
            bits_per_sample=bits)
    check(("build", ch, rate, bits),
          lambda: W.WavFormatChunkStruct.build(make()),
          lambda: OrigWavFormatChunkStruct.build(make()))

# 2. the derived values themselves, checked against plain arithmetic
for ch, rate, bits in itertools.product([1, 2, 3, 8], [1, 8000, 44100, 48000],
                                        [8, 12, 16, 20, 24, 32]):
    raw = W.WavFormatChunkStruct.build(W.WavFormatChunkContainer(1, ch, rate, bits))
    got = W.WavFormatChunkStruct.parse(raw)
    checks += 1
    if (got.byte_rate, got.block_align) != (rate * ch * bits // 8, ch * bits // 8):
        failures.append(("arith", ch, rate, bits, got.byte_rate, got.block_align))

# 3. unusual value types / missing or surplus keys (error paths, float maths)
odd = [
    dict(audio_format=1, channel_cnt=2.0, sample_rate=44100, bits_per_sample=16),
    dict(audio_format=1, channel_cnt=2, sample_rate=44100.0, bits_per_sample=16),
    dict(audio_format=1, channel_cnt=2, sample_rate=44100, bits_per_sample=16.0),
    dict(audio_format=1, channel_cnt=3, sample_rate=0.1, bits_per_sample=0.7),
    dict(audio_format=1, channel_cnt=True, sample_rate=44100, bits_per_sample=16),
    dict(audio_format=1, channel_cnt="2", sample_rate=44100, bits_per_sample=16),
    dict(audio_format=1, channel_cnt=2, sample_rate="x", bits_per_sample=16),
    dict(audio_format=1, channel_cnt=2, sample_rate=44100, bits_per_sample=None),
    dict(audio_format=1, channel_cnt=None, sample_rate=44100, bits_per_sample=16),
    dict(audio_format=1, channel_cnt=[1], sample_rate=2, bits_per_sample=16),
    dict(audio_format=1, sample_rate=44100, bits_per_sample=16),
    dict(audio_format=1, channel_cnt=2, bits_per_sample=16),
    dict(audio_format=1, channel_cnt=2, sample_rate=44100),
    dict(channel_cnt=2, sample_rate=44100, bits_per_sample=16),
    dict(),
    dict(audio_format=1, channel_cnt=2, sample_rate=44100, bits_per_sample=16,
         byte_rate=5, block_align=9),          # stale values must be ignored
    dict(audio_format=3, channel_cnt=1, sample_rate=8000, bits_per_sample=32,
         extra="ignored"),
]
for i, d in enumerate(odd):
    check(("odd", i),
          lambda: W.WavFormatChunkStruct.build(Container(d)),
          lambda: OrigWavFormatChunkStruct.build(Container(d)))
    check(("odd-dict", i),
          lambda: W.WavFormatChunkStruct.build(dict(d)),
          lambda: OrigWavFormatChunkStruct.build(dict(d)))

# 4. parsing (Rebuild is transparent when parsing) incl. short input, sizeof
rnd = random.Random(2)
for n in range(600):
    blob = bytes(rnd.getrandbits(8) for _ in range(rnd.choice([0, 3, 15, 16, 16, 16, 17, 40])))
    check(("parse", n),
          lambda: plain(W.WavFormatChunkStruct.parse(blob)),
          lambda: plain(OrigWavFormatChunkStruct.parse(blob)))
check(("sizeof",),
      lambda: W.WavFormatChunkStruct.sizeof(),
      lambda: OrigWavFormatChunkStruct.sizeof())
check(("names",),
      lambda: [sc.name for sc in W.WavFormatChunkStruct.subcons],
      lambda: [sc.name for sc in OrigWavFormatChunkStruct.subcons])

# 5. through the enclosing chunk / file structs: the fmt chunk bytes produced
#    by the module must be id + size + the ORIGINAL struct's payload
for ch, rate, bits in itertools.product([1, 2], [0, 22050, 44100, 48000], [8, 16, 24]):
    fmt = W.WavFormatChunkContainer(1, ch, rate, bits)
    expected_payload = OrigWavFormatChunkStruct.build(fmt)
    expected_chunk = b"fmt " + len(expected_payload).to_bytes(4, "little") + expected_payload
    check(("chunk", ch, rate, bits),
          lambda: W.WavRiffChunkStruct.build(Container(
              {"riff_id": W.WavRiffChunkType.FMT, "data": fmt})),
          lambda: expected_chunk)
    pcm = bytes(range(48))
    expected_file = (b"RIFF" + (4 + len(expected_chunk) + 8 + len(pcm)).to_bytes(4, "little")
                     + b"WAVE" + expected_chunk
                     + b"data" + len(pcm).to_bytes(4, "little") + pcm)
    check(("file", ch, rate, bits),
          lambda: W.RiffStruct.build(Container({"data": Container({"chunks": [
              Container({"riff_id": W.WavRiffChunkType.FMT, "data": fmt}),
              Container({"riff_id": W.WavRiffChunkType.DATA, "data": [pcm[:20], pcm[20:]]}),
          ]})})),
          lambda: expected_file)

print(f"{checks} checks ({n_ok} succeeded without exception), {len(failures)} differences")
for f in failures[:10]:
    print("DIFF", f)
sys.exit(1 if failures else 0)
