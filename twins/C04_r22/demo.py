"""Equivalence demo for r22: combine_stereo (smpl_extract/generalized/sample.py)
- merges a left and a right mono sample into one split-stream stereo sample
and sets num_channels = number of data streams, i.e. the channel_cnt from
which WavFormatChunkStruct derives block_align and byte_rate.

An inline copy of the ORIGINAL function is compared with the tree's function:
 1. results for many left/right pairs (0..3 streams each, loops, notes, names,
    paths, parents, new_name None / '' / text / non-string): every dataclass
    field, the identity relations between the result, its parts and the
    inputs (which lists are fresh copies, which elements are shared), and that
    neither input is mutated;
 2. failing inputs (right without data_streams, left not a dataclass / another
    dataclass / a subclass with extra fields, tuples instead of lists, None)
    -> same exception type and message;
 3. the order in which attributes of `left` and `right` are read (logging
    subclasses / proxies), also when a read fails half way;
 4. whole files: export_wav of the combined sample from both functions, byte
    for byte, plus independent checks of the fmt chunk (channels, block align
    = channels x 2, byte rate = rate x block align) and of the RIFF sizes.
Exit 0 when everything agrees, 1 otherwise.
"""
import copy
import io
import itertools
import os
import re
import shutil
import struct
import sys
import tempfile
from dataclasses import dataclass
from dataclasses import fields
from typing import Optional

from smpl_extract import structural
from smpl_extract.data_streams import DataStream
from smpl_extract.data_streams import Endianess
from smpl_extract.data_streams import StreamEncoding
from smpl_extract.generalized import sample as gs
from smpl_extract.generalized import wav as gw
from smpl_extract.generalized.sample import ChannelConfig
from smpl_extract.generalized.sample import LoopRegion
from smpl_extract.generalized.sample import LoopType
from smpl_extract.generalized.sample import Sample
from smpl_extract.midi import MidiNote


# ---- verbatim copy of the original implementation ------------------------
def orig_combine_stereo(left: Sample, right: Sample, new_name: Optional[str] = None) -> Sample:
    dict_copy = dict(
        (field.name, copy.copy(getattr(left, field.name)))
        for field in fields(left)
    )
    result = Sample(**dict_copy)
    result.data_streams += right.data_streams
    result.channel_config = ChannelConfig.STEREO_SPLIT_STREAMS
    result.num_channels = len(result.data_streams)
    if new_name is not None:
        result._export_name = new_name

    return result
# -------------------------------------------------------------------------
NEW = gs.combine_stereo
OLD = orig_combine_stereo

failures = []
checks = 0


def check(cond, msg):
    global checks
    checks += 1
    if not cond:
        failures.append(msg)
        if len(failures) <= 20:
            print("MISMATCH:", msg[:400])


def outcome(f):
    try:
        r = f()
        return ("ok", type(r).__name__, r)
    except Exception as e:  # noqa: BLE001
        return ("exc", type(e).__name__, str(e))


check(structural.combine_stereo is gs.combine_stereo,
      "structural uses another combine_stereo")

FIELD_NAMES = [f.name for f in fields(Sample)]


def pcm(n, seed):
    return bytes((seed * 31 + i * 7) % 256 for i in range(n))


def make_mono(tag, num_streams, num_frames, variant):
    streams = [
        DataStream(io.BytesIO(pcm(2 * (num_frames + k), variant + k)),
                   StreamEncoding(Endianess.BIG if variant % 2 else
                                  Endianess.LITTLE, 2, 1, True))
        for k in range(num_streams)
    ]
    loops = [LoopRegion(i, 10 + i, loop_type=list(LoopType)[i % 3],
                        repeat_forever=bool(i % 2),
                        play_cnt=None if i % 2 else i,
                        duration=None if i % 3 else 0.25)
             for i in range(variant % 4)]
    return Sample(
        name="%s-%d" % (tag, variant),
        channel_config=list(ChannelConfig)[variant % 3],
        sample_rate=(0, 1, 22050, 44100, 48000)[variant % 5],
        num_channels=(1, 2, 0, 7)[variant % 4],
        num_audio_samples=None if variant % 2 else num_frames,
        data_streams=streams,
        loop_regions=loops,
        midi_note=None if variant % 3 == 0 else MidiNote.from_midi_byte(50 + variant),
        pitch_offset_semi=None if variant % 4 == 1 else variant - 3,
        pitch_offset_cents=None if variant % 5 == 2 else 7 * variant - 20,
        _parent=None if variant % 2 else Sample(name="parent"),
        _path=["a", "b", tag][: variant % 4],
        _safe_name=None if variant % 3 else "safe " + tag,
        _export_name=None if variant % 2 == 0 else "exp " + tag,
    )


def freeze(sample):
    """state of an input sample: values + identities of its mutable parts"""
    return [(n, id(getattr(sample, n)), repr(getattr(sample, n)),
             [id(x) for x in getattr(sample, n)]
             if isinstance(getattr(sample, n), (list, tuple)) else None)
            for n in FIELD_NAMES]


def describe(result, left, right):
    """everything observable about a result, relative to its inputs"""
    out = {"type": type(result).__name__}
    for n in FIELD_NAMES:
        v, lv = getattr(result, n), getattr(left, n)
        out[n] = (type(v).__name__, repr(v) if n != "data_streams" else len(v),
                  v is lv, v == lv if n != "data_streams" else None)
    ls, rs = list(left.data_streams), list(right.data_streams)
    out["streams"] = [("L", ls.index(s)) if any(s is x for x in ls) else
                      ("R", [i for i, x in enumerate(rs) if x is s][0])
                      if any(s is x for x in rs) else ("?", None)
                      for s in result.data_streams]
    out["loops shared"] = [a is b for a, b in
                           zip(result.loop_regions, left.loop_regions)]
    out["path shared"] = result._path is left._path
    out["vars"] = sorted(vars(result))
    out["props"] = (result.export_name, result.safe_name, result.path,
                    result.parent is left.parent, result.export_path())
    return out


# ---- 1. results ----------------------------------------------------------
NEW_NAMES = [None, "", "stereo", "Pad L", 0, 5, ("t",), False]
n_pairs = 0
for nl, nr, frames, vl, vr in itertools.product(
        range(4), range(4), (0, 5), range(0, 12, 1), (1, 4, 6)):
    new_name = NEW_NAMES[(nl + 3 * nr + vl + vr) % len(NEW_NAMES)]
    res = []
    for func in (NEW, OLD):
        left, right = make_mono("L", nl, frames, vl), make_mono("R", nr, frames, vr)
        before = freeze(left), freeze(right)
        r = outcome(lambda: func(left, right, new_name))
        after = freeze(left), freeze(right)
        # ids differ between the two runs -> compare "unchanged" flags only
        res.append((r[0], r[1], describe(r[2], left, right) if r[0] == "ok" else r[2],
                    before == after, r[0] == "ok" and r[2] is not left))
    check(res[0] == res[1], "pair %r: %r vs %r"
          % ((nl, nr, frames, vl, vr, new_name), res[0], res[1]))
    check(res[0][3], "inputs mutated %r" % ((nl, nr, frames, vl, vr),))
    d = res[0][2]
    check(d["num_channels"][1] == repr(nl + nr)
          and d["channel_config"][1] == repr(ChannelConfig.STEREO_SPLIT_STREAMS)
          and d["streams"] == [("L", i) for i in range(nl)]
          + [("R", i) for i in range(nr)], "expected values %r" % (d,))
    n_pairs += 1

# default argument, keyword use, same object on both sides
for func_args in (
        lambda f, l, r: f(l, r),
        lambda f, l, r: f(left=l, right=r),
        lambda f, l, r: f(l, r, new_name="kw"),
        lambda f, l, r: f(right=r, new_name="kw", left=l),
        lambda f, l, r: f(l, l),
        lambda f, l, r: f(l, l, "twice"),
        lambda f, l, r: f(f(l, r, "inner"), r, None),
        lambda f, l, r: f(l),
        lambda f, l, r: f(l, r, "a", "b"),
        lambda f, l, r: f(l, r, name="x"),
):
    res = []
    for func in (NEW, OLD):
        left, right = make_mono("L", 1, 6, 3), make_mono("R", 1, 6, 8)
        r = outcome(lambda: func_args(func, left, right))
        if r[0] == "ok":
            r = (r[0], r[1], describe(r[2], left, right))
        elif r[1] == "TypeError":
            r = (r[0], r[1], r[2].replace("orig_combine_stereo", "combine_stereo"))
        res.append(r)
    check(res[0] == res[1], "call form: %r vs %r" % (res[0], res[1]))


# ---- 2. failing / unusual inputs -----------------------------------------
@dataclass
class Other:
    name: str = "o"
    data_streams: list = None


@dataclass
class SampleWithExtra(Sample):
    extra: int = 3


class Plain:
    data_streams = [1, 2]


def unusual_inputs():
    ok = make_mono("L", 1, 4, 2)
    tuple_streams = make_mono("T", 2, 4, 5)
    tuple_streams.data_streams = tuple(tuple_streams.data_streams)
    none_streams = make_mono("N", 1, 4, 5)
    none_streams.data_streams = None
    gen_right = Plain()
    gen_right.data_streams = iter([7, 8])
    return [
        ("right None", ok, None), ("left None", None, ok),
        ("right int", ok, 5), ("left int", 5, ok),
        ("right plain", ok, Plain()), ("left plain", Plain(), ok),
        ("right other dataclass", ok, Other(data_streams=["x"])),
        ("left other dataclass", Other(), ok),
        ("left class not instance", Sample, ok),
        ("left subclass extra", SampleWithExtra(name="e"), ok),
        ("right subclass extra", ok, SampleWithExtra(name="e", data_streams=[1])),
        ("left tuple streams", tuple_streams, ok),
        ("right tuple streams", ok, tuple_streams),
        ("both tuple streams", tuple_streams, tuple_streams),
        ("left None streams", none_streams, ok),
        ("right None streams", ok, none_streams),
        ("right iterator streams", ok, gen_right),
        ("right str streams", ok, Other(data_streams="ab")),
        ("right loop region", ok, LoopRegion()),
        ("left loop region", LoopRegion(), ok),
    ]


for idx in range(len(unusual_inputs())):
    res = []
    for func in (NEW, OLD):
        label, left, right = unusual_inputs()[idx]
        r = outcome(lambda: func(left, right, "n"))
        if r[0] == "ok":
            s = r[2]
            r = ("ok", r[1], [(n, re.sub(r"0x[0-9a-f]+", "0x", repr(getattr(s, n))))
                              for n in FIELD_NAMES],
                 s.num_channels, type(s.data_streams).__name__)
        res.append(r)
    check(res[0] == res[1], "unusual %s: %r vs %r" % (label, res[0], res[1]))


# ---- 3. order of reads on the inputs -------------------------------------
LOG = []


class LoggingSample(Sample):
    fail_on = None

    def __getattribute__(self, name):
        if not name.startswith("__"):
            LOG.append(("left", name))
            if name == type(self).fail_on:
                raise RuntimeError("left." + name)
        return object.__getattribute__(self, name)


class LoggingRight:
    def __init__(self, streams, fail=False):
        self._streams, self._fail = streams, fail

    def __getattr__(self, name):
        LOG.append(("right", name))
        if self._fail or name != "data_streams":
            raise AttributeError("right." + name)
        return self._streams


class LoggingList(list):
    def __iter__(self):
        LOG.append(("iter right streams", len(self)))
        return super().__iter__()

    def __len__(self):
        LOG.append(("len right streams",))
        return super().__len__()


def traced(func, fail_on, right_fails, new_name):
    del LOG[:]
    LoggingSample.fail_on = fail_on
    try:
        left = LoggingSample(name="left", data_streams=[
            DataStream(io.BytesIO(b"abcd"), StreamEncoding(Endianess.BIG, 2, 1))])
        right = LoggingRight(LoggingList([
            DataStream(io.BytesIO(b"efgh"), StreamEncoding(Endianess.BIG, 2, 1))]),
            right_fails)
        del LOG[:]
        r = outcome(lambda: func(left, right, new_name))
        if r[0] == "ok":
            r = ("ok", r[1], [(n, repr(getattr(r[2], n))) for n in FIELD_NAMES
                              if n != "data_streams"], len(r[2].data_streams))
        return r, list(LOG)
    finally:
        LoggingSample.fail_on = None


for fail_on, right_fails, new_name in itertools.product(
        [None] + FIELD_NAMES, (False, True), (None, "nm")):
    x = traced(NEW, fail_on, right_fails, new_name)
    y = traced(OLD, fail_on, right_fails, new_name)
    check(x == y, "trace (fail_on=%r right_fails=%r new_name=%r): %r vs %r"
          % (fail_on, right_fails, new_name, x, y))
res, log = traced(NEW, None, False, None)
check([e[1] for e in log if e[0] == "left"] == FIELD_NAMES,
      "left fields are read once each, in declaration order: %r" % (log,))


# ---- 4. whole files ------------------------------------------------------
tmp_dir = tempfile.mkdtemp(prefix="r22_demo_")
try:
    n = 0
    for nl, nr, frames, vl, vr in itertools.product(
            (1, 2), (0, 1, 2), (0, 3, 2048, 3000), (0, 1, 2, 3, 4, 7), (1, 6)):
        n += 1
        args = (nl, nr, frames, vl, vr)
        out = []
        for tag, func in (("new", NEW), ("old", OLD)):
            path = os.path.join(tmp_dir, "%s%d.wav" % (tag, n))
            left, right = make_mono("L", nl, frames, vl), \
                make_mono("R", nr, frames + 2, vr)
            x = outcome(lambda: gw.export_wav(func(left, right, "st"), path))
            out.append((x, open(path, "rb").read()))
        check(out[0][0] == out[1][0], "export outcome %r: %r vs %r"
              % (args, out[0][0], out[1][0]))
        check(out[0][1] == out[1][1], "bytes differ for %r" % (args,))
        raw = out[0][1]
        if out[0][0][0] == "ok":
            channels = nl + nr
            check(struct.unpack("<I", raw[4:8])[0] == len(raw) - 8, "riff size")
            check(raw[12:20] == b"fmt \x10\x00\x00\x00", "fmt header")
            f = struct.unpack("<HHIIHH", raw[20:36])
            check(f[0] == 1 and f[1] == channels and f[4] == 2 * channels
                  and f[3] == f[2] * f[4] and f[5] == 16,
                  "fmt fields %r for %r" % (f, args))
            pos = 36
            if raw[pos:pos + 4] == b"smpl":
                size = struct.unpack("<I", raw[pos + 4:pos + 8])[0]
                cnt = struct.unpack("<I", raw[pos + 8 + 28:pos + 8 + 32])[0]
                check(size == 36 + 24 * cnt, "smpl size")
                pos += 8 + size
            check(raw[pos:pos + 4] == b"data", "data chunk id")
            size = struct.unpack("<I", raw[pos + 4:pos + 8])[0]
            check(pos + 8 + size == len(raw) and size % (2 * channels) == 0,
                  "data size %r" % (args,))
finally:
    shutil.rmtree(tmp_dir, ignore_errors=True)

print("%d checks, %d failures (%d pairs)" % (checks, len(failures), n_pairs))
sys.exit(1 if failures else 0)
