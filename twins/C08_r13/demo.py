"""Equivalence demo for r13 (StreamWrapper.readall).

The ORIGINAL body of StreamWrapper.readall is pasted below into a mix-in that
is put in front of every view class (plain wrapper, offset window, reversed
view, sector stream, chained file stream, raw-sector MDF view).  For each
view, twin objects (live class / class with the original readall) are built
over twin recording images and driven through the same histories of
seek / tell / read(n) / read(None) / read(-1) / readall() calls, with many
buffer lengths (0, 1, odd, larger than the view, negative).  After every
call the demo compares: the returned value (and its type), the exception type
and text, position / true_size / end_of_file of the view, and the complete
ordered log of tell/seek/read calls made on the underlying image.  Where the
logical content is known the result of readall is also checked against it.
Exit 0 = all agree, 1 = mismatch.
"""
import itertools
import random
import sys
from io import BytesIO, SEEK_CUR, SEEK_END, SEEK_SET

from smpl_extract.alcohol.mdf import MdfStream
from smpl_extract.util.fat import FileStream
from smpl_extract.util.sector import SectorStream
from smpl_extract.util.stream import StreamOffset
from smpl_extract.util.stream import StreamReversed
from smpl_extract.util.stream import StreamWrapper


class OrigReadall:
    """Original readall, verbatim."""

    def readall(self)->bytes:
        result = bytes()
        while True:
            new_read = self.read(self.buffer_length)
            if len(new_read) < 1:
                break
            result += new_read

        return result


class OWrapper(OrigReadall, StreamWrapper): ...
class OOffset(OrigReadall, StreamOffset): ...
class OReversed(OrigReadall, StreamReversed): ...
class OSector(OrigReadall, SectorStream): ...
class OFile(OrigReadall, FileStream): ...
class OMdf(OrigReadall, MdfStream): ...


class Image(BytesIO):
    """BytesIO that logs every call made on it."""

    def __init__(self, data):
        super().__init__(data)
        self.log = []

    def tell(self):
        r = super().tell()
        self.log.append(("tell", r))
        return r

    def seek(self, *a):
        r = super().seek(*a)
        self.log.append(("seek", a, r))
        return r

    def read(self, *a):
        r = super().read(*a)
        self.log.append(("read", a, r))
        return r


def call(fn, *a):
    try:
        r = fn(*a)
        return ("ok", type(r).__name__, r)
    except RecursionError:
        return ("exc", "RecursionError")
    except Exception as e:  # noqa: BLE001
        return ("exc", type(e).__name__, str(e))


def state(v):
    return (v.position, v.true_size, v.end_of_file, v.buffer_length)


# --- view factories: each returns (view, [images], logical content or None)
def mk_wrapper(new, rng, bl):
    n = rng.randint(0, 40)
    data = bytes(rng.randrange(256) for _ in range(n))
    size = rng.choice([n, n, max(0, n - 3), n + 4, 0])
    img = Image(data)
    cls = StreamWrapper if new else OWrapper
    logical = data[:size] if 0 < size <= n else None
    return cls(img, size, buffer_length=bl), [img], logical


def mk_offset(new, rng, bl):
    n = rng.randint(1, 60)
    data = bytes(rng.randrange(256) for _ in range(n))
    off = rng.randint(0, n)
    size = rng.randint(0, n - off)
    img = Image(data)
    cls = StreamOffset if new else OOffset
    logical = data[off:off + size] if size > 0 else None
    return cls(img, size, off, buffer_length=bl), [img], logical


def mk_reversed(new, rng, bl):
    w = rng.choice([1, 2, 3, 4])
    k = rng.randint(0, 12)
    data = bytes(rng.randrange(256) for _ in range(w * k))
    img = Image(data)
    cls = StreamReversed if new else OReversed
    samples = [data[i:i + w] for i in range(0, len(data), w)]
    logical = b"".join(reversed(samples)) if k > 0 else None
    return cls(img, len(data), sample_width=w, buffer_length=bl), [img], logical


def mk_sector(new, rng, bl):
    sl = rng.randint(1, 9)
    k = rng.randint(0, 7)
    data = bytes(rng.randrange(256) for _ in range(sl * k))
    img = Image(data)
    cls = SectorStream if new else OSector
    logical = data if k > 0 else None
    return cls(img, len(data), sl, buffer_length=bl), [img], logical


def mk_file(new, rng, bl):
    sl = rng.randint(1, 8)
    total = rng.randint(1, 9)
    data = bytes(rng.randrange(256) for _ in range(sl * total))
    chain = list(range(total))
    rng.shuffle(chain)
    chain = chain[:rng.randint(0, total)]
    img = Image(data)
    cls = FileStream if new else OFile
    logical = b"".join(data[s * sl:(s + 1) * sl] for s in chain) if chain else None
    return cls(img, sl, chain, buffer_length=bl), [img], logical


def mk_mdf(new, rng, bl):
    k = rng.randint(0, 3)
    data = bytes(rng.randrange(256) for _ in range(2352 * k + rng.choice([0, 0, 100])))
    img = Image(data)
    img.seek(rng.randint(0, len(data)), SEEK_SET)
    cls = OMdf if not new else MdfStream
    logical = b"".join(data[s * 2352 + 16:s * 2352 + 16 + 2048] for s in range(k)) if k else None
    return cls(img, buffer_length=bl), [img], logical


def mk_nested(new, rng, bl):
    """offset window -> chained file -> reversed view (all with the tested readall)."""
    sl = rng.choice([2, 4, 6])
    total = rng.randint(1, 6)
    lead = rng.randint(0, 5)
    data = bytes(rng.randrange(256) for _ in range(lead + sl * total + 3))
    chain = list(range(total))
    rng.shuffle(chain)
    img = Image(data)
    a = (StreamOffset if new else OOffset)(img, sl * total, lead, buffer_length=bl)
    b = (FileStream if new else OFile)(a, sl, chain, buffer_length=bl)
    w = rng.choice([1, 2])
    c = (StreamReversed if new else OReversed)(b, sl * total, sample_width=w, buffer_length=bl)
    content = b"".join(data[lead + s * sl:lead + (s + 1) * sl] for s in chain)
    samples = [content[i:i + w] for i in range(0, len(content), w)]
    return c, [img], b"".join(reversed(samples))


FACTORIES = [mk_wrapper, mk_offset, mk_reversed, mk_sector, mk_file, mk_mdf, mk_nested]
BUFFER_LENGTHS = [0, 1, 2, 3, 4, 5, 7, 8, 16, 100, 0x1000, -1]


def random_ops(rng, length):
    ops = []
    for _ in range(length):
        kind = rng.choice(["seek", "tell", "read", "readall", "readnone", "readneg", "readall"])
        if kind == "seek":
            ops.append(("seek", rng.randint(-5, 50), rng.choice([SEEK_SET, SEEK_CUR, SEEK_END])))
        elif kind == "read":
            ops.append(("read", rng.randint(0, 20)))
        else:
            ops.append((kind,))
    return ops


def apply(view, op):
    if op[0] == "seek":
        return call(view.seek, op[1], op[2])
    if op[0] == "tell":
        return call(view.tell)
    if op[0] == "read":
        return call(view.read, op[1])
    if op[0] == "readall":
        return call(view.readall)
    if op[0] == "readnone":
        return call(view.read, None)
    return call(view.read, -1)


def run_pair(factory, seed, bl, ops):
    v_new, imgs_new, logical = factory(True, random.Random(seed), bl)
    v_old, imgs_old, logical_old = factory(False, random.Random(seed), bl)
    assert logical == logical_old
    ok = True
    for i, op in enumerate(ops):
        pos_before = v_new.position
        r_new = apply(v_new, op)
        r_old = apply(v_old, op)
        same = (
            r_new == r_old
            and state(v_new) == state(v_old)
            and [im.log for im in imgs_new] == [im.log for im in imgs_old]
        )
        # ground truth for successful whole-file reads
        if (same and logical is not None and op[0] in ("readall", "readnone", "readneg")
                and r_new[0] == "ok" and bl > 0):
            if r_new[2] != logical[pos_before:]:
                print("WRONG CONTENT", factory.__name__, seed, bl, i, op, r_new, logical[pos_before:])
                same = False
        if not same:
            print("MISMATCH", factory.__name__, seed, bl, i, op, r_new, r_old,
                  state(v_new), state(v_old))
            ok = False
            break
    return ok


def main():
    ok = True
    count = 0
    old_limit = sys.getrecursionlimit()
    sys.setrecursionlimit(400)
    try:
        rng = random.Random(1313)
        # (a) fresh view, readall straight away / after one seek, every buffer length
        for factory in FACTORIES:
            for bl in BUFFER_LENGTHS:
                for seed in range(6):
                    for pre in ([], [("seek", 0, SEEK_END)], [("seek", 3, SEEK_SET)],
                                [("seek", -1, SEEK_END)], [("read", 2)]):
                        for final in (("readall",), ("readnone",), ("readneg",)):
                            ok &= run_pair(factory, seed, bl, pre + [final, ("tell",), final])
                            count += 1
        # (b) exhaustive short histories over a small alphabet on tiny views
        alphabet = [("readall",), ("readnone",), ("read", 0), ("read", 1), ("read", 3),
                    ("seek", 0, SEEK_SET), ("seek", 1, SEEK_CUR), ("seek", -2, SEEK_END), ("tell",)]
        for factory in FACTORIES:
            for bl in (1, 2, 3, 0x1000):
                for ops in itertools.product(alphabet, repeat=3):
                    ok &= run_pair(factory, 7, bl, list(ops))
                    count += 1
        # (c) long random histories
        for trial in range(1500):
            factory = rng.choice(FACTORIES)
            bl = rng.choice(BUFFER_LENGTHS)
            ok &= run_pair(factory, rng.randrange(10 ** 6), bl, random_ops(rng, rng.randint(1, 25)))
            count += 1
    finally:
        sys.setrecursionlimit(old_limit)

    print(f"{count} histories compared: {'all agree' if ok else 'MISMATCH'}")
    return 0 if ok else 1


if __name__ == "__main__":
    sys.exit(main())
