"""Equivalence demo for r15: smpl_extract/util/stream.py StreamWrapper.read
(the public read of every stream class; for the Roland export it is the code
that cuts a sample off at the end of its StreamOffset / StreamReversed window
- mechanism 'loop mode -> data window, reversal').

Refactoring: read() was split.  The block computing self.true_size (clamped to
the bytes left in the window, never negative) moved into the private method
_clamp_read_size(size); the block that compares the parent stream's tell() with
the translated position and re-seeks moved into _sync_substream(); read() keeps
the size guard, calls both helpers in the original order, then reads and
advances the position exactly as before.

An inline copy of the ORIGINAL read() is mounted on subclasses of
StreamWrapper, StreamOffset, StreamReversed, FileStream and RolandFile and is
compared with the working-tree classes on
  (1) random sequences of read / seek / readall / tell (sizes None, negative,
      0, beyond the window, windows of size 0 / None / negative),
  (2) the exact sequence of tell/seek/read calls made on the shared parent,
  (3) position / true_size bookkeeping after every call,
  (4) exception type and message (BadReadSize, BadAlign, SectorReadError, ...),
  (5) the seven Roland loop modes through SampleFile.to_generalized() over a
      permuted cluster chain, against independently computed expected PCM.
Exit 0 when everything agrees, 1 otherwise.
"""
import io
import random
import sys
from typing import Union

from smpl_extract.roland.s7xx.data_types import ROLAND_CLUSTER_SIZE
from smpl_extract.roland.s7xx.data_types import RolandLoopMode
from smpl_extract.roland.s7xx.fat import RolandFile
from smpl_extract.roland.s7xx.sample_entry import SampleParamLoopPoint
from smpl_extract.roland.s7xx.sample_file import SampleFile
from smpl_extract.util.fat import FileStream
from smpl_extract.util.stream import StreamOffset
from smpl_extract.util.stream import StreamReversed
from smpl_extract.util.stream import StreamWrapper


# ---------------------------------------------------------------- original --
def original_read(self, size: Union[int, None]) -> bytes:

    if size is None or size < 0:
        return self.readall()

    self.true_size = size
    if self.end_of_file is not None:  # as in the tree after the empty-view fix
        self.true_size = min(self.end_of_file - self.position, size)
    if self.true_size < 0:
        self.true_size = 0

    true_position = self.substream.tell()
    expected_position = self._translate_addr(self.position)
    if expected_position != true_position:
        self._seek(self.position)

    result = self._read(self.true_size)
    self.position += self.true_size
    return result


class OrigWrapper(StreamWrapper):
    read = original_read


class OrigOffset(StreamOffset):
    read = original_read


class OrigReversed(StreamReversed):
    read = original_read


class OrigFileStream(FileStream):
    read = original_read


class OrigRolandFile(RolandFile):
    read = original_read


class LoggingBytesIO(io.BytesIO):

    def __init__(self, data):
        super().__init__(data)
        self.log = []

    def seek(self, *a):
        r = super().seek(*a)
        self.log.append(("seek", a, r))
        return r

    def read(self, *a):
        r = super().read(*a)
        self.log.append(("read", a, len(r)))
        return r

    def tell(self):
        r = super().tell()
        self.log.append(("tell", r))
        return r


failures = 0
checks = 0


def run(f):
    try:
        return ("ok", f())
    except Exception as e:  # noqa
        return ("exc", type(e).__name__, str(e))


def check(a, b, what):
    global failures, checks
    checks += 1
    if a != b:
        failures += 1
        if failures < 20:
            print("MISMATCH", what, repr(a)[:300], repr(b)[:300])


rnd = random.Random(150915)


def random_ops(limit, n=10):
    ops = []
    for _ in range(n):
        k = rnd.choice(("read", "read", "read", "seek", "readall", "tell"))
        if k == "read":
            ops.append(("read", rnd.choice(
                [None, -1, -7, 0, 1, 2, 3, 4, 5, 6, 8, limit - 1, limit,
                 limit + 1, 2 * limit, 0x1000, rnd.randrange(0, limit + 5)])))
        elif k == "seek":
            ops.append(("seek", rnd.randrange(-3, limit + 4),
                        rnd.choice((0, 1, 2))))
        else:
            ops.append((k,))
    return ops


def apply(stream, op):
    if op[0] == "read":
        return run(lambda: stream.read(op[1]))
    if op[0] == "seek":
        return run(lambda: stream.seek(op[1], op[2]))
    if op[0] == "readall":
        return run(lambda: stream.readall())
    return run(lambda: stream.tell())


def compare_pair(make_old, make_new, payload, ops, what):
    pa = LoggingBytesIO(payload)
    pb = LoggingBytesIO(payload)
    a = make_old(pa)
    b = make_new(pb)
    for n, op in enumerate(ops):
        ra = apply(a, op)
        rb = apply(b, op)
        check(ra, rb, what + (n, op))
        check((a.position, a.true_size, a.end_of_file),
              (b.position, b.true_size, b.end_of_file),
              what + (n, op, "state"))
    check(pa.log, pb.log, what + ("log",))


# (1)-(4) plain wrappers, offset windows, reversed windows -------------------
payload = bytes(rnd.getrandbits(8) for _ in range(96))
for size in (None, -4, 0, 1, 2, 5, 16, 95, 96, 97, 200):
    limit = size if isinstance(size, int) and size > 0 else 20
    for position in (0, 1, 7, limit, limit + 3):
        for buffer_length in (0x1000, 1, 4, 0):
            if buffer_length == 0 and (size is None or size <= 0):
                continue  # readall() would spin forever in both versions
            for trial in range(3):
                ops = random_ops(limit)
                if buffer_length == 0:
                    ops = [o for o in ops if o[0] != "readall"
                           and not (o[0] == "read"
                                    and (o[1] is None or o[1] < 0))]
                if size is None or size <= 0:
                    # an unbounded window never reports EOF for reads of
                    # size 0 ... keep readall but only with progress
                    ops = [o for o in ops if not (o[0] == "read" and o[1] == 0)]
                compare_pair(
                    lambda p: OrigWrapper(p, size, position, buffer_length),
                    lambda p: StreamWrapper(p, size, position, buffer_length),
                    payload, ops,
                    ("wrapper", size, position, buffer_length, trial))

for size in (0, 1, 2, 6, 10, 32, 64):
    for offset in (0, 1, 2, 30, 90, 96, 100, -2):
        for trial in range(4):
            ops = random_ops(max(size, 4))
            if size == 0:
                ops = [o for o in ops if o[0] != "readall"
                       and not (o[0] == "read" and (o[1] is None or o[1] < 0))]
            compare_pair(
                lambda p: OrigOffset(p, size, offset),
                lambda p: StreamOffset(p, size, offset),
                payload, ops, ("offset", size, offset, trial))

for width in (1, 2, 3, 4):
    for size in (width, 2 * width, 6 * width, 12 * width, 6 * width + 1):
        for offset in (0, 2, 3, 40):
            for trial in range(4):
                ops = random_ops(size)
                compare_pair(
                    lambda p: OrigReversed(OrigOffset(p, size, offset), size,
                                           sample_width=width),
                    lambda p: StreamReversed(StreamOffset(p, size, offset),
                                             size, sample_width=width),
                    payload, ops, ("reversed", width, size, offset, trial))

# sector streams (RolandFile / FileStream inherit read())
big = bytes(rnd.getrandbits(8) for _ in range(8 * 16))
for chain in ([], [3], [5, 0, 3], [7, 6, 5, 4, 1]):
    for short in (False, True):
        data = big[:40] if short else big
        for trial in range(5):
            ops = random_ops(16 * max(1, len(chain)))
            if not chain:
                ops = [o for o in ops if o[0] != "readall"
                       and not (o[0] == "read" and (o[1] is None or o[1] < 0))]
            compare_pair(
                lambda p: OrigFileStream(p, 16, list(chain)),
                lambda p: FileStream(p, 16, list(chain)),
                data, ops, ("filestream", tuple(chain), short, trial))


# (5) the seven loop modes end to end ------------------------------------------
NUM_CLUSTERS = 6
image = bytes(rnd.getrandbits(8) for _ in range(NUM_CLUSTERS * ROLAND_CLUSTER_SIZE))
chain = [4, 1, 5, 2]
logical = b"".join(
    image[c * ROLAND_CLUSTER_SIZE:(c + 1) * ROLAND_CLUSTER_SIZE] for c in chain)
WORDS = len(logical) // 2


def expected_pcm(mode, start, s_end, r_end):
    if mode in (RolandLoopMode.FORWARD_RELEASE, RolandLoopMode.FORWARD_ONESHOT):
        end = r_end
    else:
        end = s_end
    n = end - start + 1
    raw = logical[2 * start: 2 * start + 2 * max(n, 0)] if n > 0 else None
    if raw is None:
        return None
    if mode in (RolandLoopMode.REVERSE_ONESHOT, RolandLoopMode.REVERSE_LOOP):
        words = [raw[i:i + 2] for i in range(0, len(raw), 2)]
        raw = b"".join(reversed(words))
    return raw


def sample_file(cls, parent, mode, start, s_start, s_end, r_start, r_end):
    return SampleFile(
        loop_mode=mode,
        start_sample=SampleParamLoopPoint(0, start),
        sustain_loop_start=SampleParamLoopPoint(0, s_start),
        sustain_loop_end=SampleParamLoopPoint(0, s_end),
        release_loop_start=SampleParamLoopPoint(0, r_start),
        release_loop_end=SampleParamLoopPoint(0, r_end),
        name="s",
        _data_stream=cls(parent, list(chain)),
    )


def drain(stream, chunk):
    out = b""
    while True:
        part = stream.read(chunk)
        if len(part) < 1:
            break
        out += part
    return out


last_word = WORDS - 1
point_sets = [
    (0, 10, 100, 120, 200),
    (5, 5, 5, 5, 5),
    (0, 0, last_word, 0, last_word),              # fills the last cluster
    (4608, 4700, 2 * 4608 - 1, 4700, 3 * 4608 - 1),   # cluster boundaries
    (100, 50, 4607, 60, 4608),
    (last_word, last_word, last_word, last_word, last_word),
]
for _ in range(6):
    st = rnd.randrange(0, WORDS - 10)
    se_ = rnd.randrange(st, WORDS)
    re_ = rnd.randrange(st, WORDS)
    point_sets.append((st, rnd.randrange(0, WORDS), se_,
                       rnd.randrange(0, WORDS), re_))

for mode in list(RolandLoopMode) + [99]:
    for pts in point_sets:
        for chunk in (2, 4096, 0x1000 - 2, 9216, 10 ** 6):
            pa = LoggingBytesIO(image)
            pb = LoggingBytesIO(image)
            ga = sample_file(OrigRolandFile, pa, mode, *pts).to_generalized()
            gb = sample_file(RolandFile, pb, mode, *pts).to_generalized()
            sa = ga.data_streams[0].stream
            sb = gb.data_streams[0].stream
            # old read() on every layer of the old stack
            for layer in (sa, getattr(sa, "substream", None)):
                if isinstance(layer, StreamWrapper) \
                        and not isinstance(layer, OrigRolandFile):
                    layer.read = original_read.__get__(layer)
            ra = run(lambda: drain(sa, chunk))
            rb = run(lambda: drain(sb, chunk))
            what = ("loop mode", int(mode), pts, chunk)
            check(ra, rb, what)
            check(pa.log, pb.log, what + ("log",))
            check(ga.loop_regions, gb.loop_regions, what + ("loops",))
            m = mode if mode != 99 else RolandLoopMode.FORWARD_END
            exp = expected_pcm(m, pts[0], pts[2], pts[4])
            if exp is not None and exp != b"":
                check(rb, ("ok", exp), what + ("expected pcm",))

print(f"{checks} checks, {failures} mismatches")
sys.exit(1 if failures else 0)
