"""Equivalence demo for ExportManager.export_samples (C06, r10).

The live method is compared against an inline copy of the ORIGINAL body.
Both run in fresh temporary directories against a logging fake export_wav,
with os.path.exists / os.makedirs wrapped so every call is recorded.
Compared: the event log (routine calls, exists/makedirs calls, export_wav
calls), stdout, the resulting directory tree, the manager state afterwards
(samples list identity + content, level), the return value and any exception.
"""
import contextlib
import io
import itertools
import os
import random
import shutil
import sys
import tempfile

import smpl_extract.structural as structural
from smpl_extract.structural import ExportManager


# --------------------------------------------------------------------------
# ORIGINAL implementation (verbatim; export_wav looked up in the module so
# that the patched fake is used by both versions)
# --------------------------------------------------------------------------
def original_export_samples(self):
    samples = self.samples
    for f_routine in self.routines.values():
        samples = f_routine(samples)

    for sample in samples:
        inner_path = self.make_output_path(sample)
        total_path = os.path.join(self.output_directory, inner_path) + ".wav"
        dir_name = os.path.dirname(total_path)
        if not os.path.exists(dir_name):
            os.makedirs(dir_name)
        structural.export_wav(sample, total_path)
        print(f"Exported {inner_path}.wav")

    self.samples.clear()
    return


class FakeSample:
    def __init__(self, label, components, log, fail=None):
        self.label = label
        self.components = components
        self.log = log
        self.fail = fail

    def export_path(self):
        self.log.append(("export_path", self.label))
        if self.fail == "export_path":
            raise LookupError("no path for " + self.label)
        return self.components

    def __repr__(self):
        return f"<S {self.label}>"


class OddManager(ExportManager):
    """make_output_path overridden: returns a str subclass with __format__."""
    class Loud(str):
        def __format__(self, spec):
            return "LOUD(" + str(self) + ")"

    def make_output_path(self, sample):
        return self.Loud(super().make_output_path(sample))


def relativise(text, root):
    return text.replace(root, "<ROOT>")


def run(impl, scenario):
    top = tempfile.mkdtemp(prefix="r10demo_")
    # work four levels down so that ".." components stay inside `top`
    root = os.path.join(top, "w1", "w2", "w3", "w4")
    os.makedirs(root)
    old_cwd = os.getcwd()
    log = []
    real_exists, real_makedirs = os.path.exists, os.makedirs
    real_export_wav = structural.export_wav

    def exists(path):
        result = real_exists(path)
        log.append(("exists", relativise(str(path), root), result))
        return result

    def guard(path):
        # safety net: the demo must never touch anything outside `top`
        real = os.path.realpath(os.path.abspath(path))
        if not (real + os.sep).startswith(os.path.realpath(top) + os.sep):
            raise PermissionError("outside sandbox: " + relativise(str(path), root))

    def makedirs(path, *args, **kwargs):
        log.append(("makedirs", relativise(str(path), root), args, sorted(kwargs)))
        guard(path)
        return real_makedirs(path, *args, **kwargs)

    def fake_export_wav(sample, path):
        log.append(("export_wav", sample.label, relativise(path, root)))
        if sample.fail == "export_wav":
            raise IOError("cannot write " + sample.label)
        guard(path)
        with open(path, "ab") as handle:      # real failure if dir is bad
            handle.write(sample.label.encode() + b"\n")

    try:
        os.chdir(root)
        for pre in scenario.get("pre_dirs", ()):
            real_makedirs(os.path.join(root, pre), exist_ok=True)
        for pre in scenario.get("pre_files", ()):
            with open(os.path.join(root, pre), "w") as handle:
                handle.write("x")

        out_dir = scenario["out"].replace("<ROOT>", root)
        samples = [
            FakeSample(label, [c.replace("<ROOT>", root) if isinstance(c, str) else c for c in comps], log, fail)
            for label, comps, fail in scenario["samples"]
        ]
        routines = {}
        for idx, kind in enumerate(scenario["routines"] or ()):
            def routine(items, _kind=kind, _idx=idx):
                log.append(("routine", _idx, _kind, repr(items)))
                if _kind == "same":
                    return items
                if _kind == "reverse":
                    return list(reversed(items))
                if _kind == "drop_last":
                    return items[:-1]
                if _kind == "iter":
                    return iter(list(items))
                if _kind == "dup":
                    return list(items) + list(items)
                if _kind == "raise":
                    raise RuntimeError("routine failed")
                raise AssertionError(_kind)
            routines[f"{idx}:{kind}"] = routine

        cls = OddManager if scenario.get("odd") else ExportManager
        if scenario["routines"] is None:
            manager = cls(out_dir)
        else:
            manager = cls(out_dir, routines)
        manager.set_level(("some", "level"))
        for sample in samples:
            manager.add_sample(sample)
        samples_list = manager.samples

        os.path.exists, os.makedirs = exists, makedirs
        structural.export_wav = fake_export_wav
        stdout = io.StringIO()
        try:
            with contextlib.redirect_stdout(stdout):
                try:
                    if scenario.get("via_finish"):
                        if impl == "live":
                            value = manager.finish_level()
                        else:
                            value = original_export_samples(manager)
                            manager.level = ()
                    elif impl == "live":
                        value = manager.export_samples()
                    else:
                        value = original_export_samples(manager)
                    ret = ("ok", repr(value))
                except Exception as exc:  # noqa: BLE001
                    ret = ("exc", type(exc).__name__, relativise(str(exc), root))
        finally:
            os.path.exists, os.makedirs = real_exists, real_makedirs
            structural.export_wav = real_export_wav

        tree = []
        for dirpath, dirnames, filenames in os.walk(top):
            dirnames.sort()
            rel = os.path.relpath(dirpath, top)
            for name in sorted(filenames):
                with open(os.path.join(dirpath, name), "rb") as handle:
                    tree.append((rel, name, handle.read()))
            if not filenames and not dirnames:
                tree.append((rel, None, None))
        state = (repr(manager.samples), manager.samples is samples_list,
                 manager.level, sorted(vars(manager)))
        return ret, relativise(stdout.getvalue(), root), log, tree, state
    finally:
        os.chdir(old_cwd)
        shutil.rmtree(top, ignore_errors=True)


def scenarios():
    sample_sets = [
        [],
        [("a", ["A", "VOL", "kick"], None)],
        [("a", ["A", "VOL", "kick"], None), ("b", ["A", "VOL", "snare"], None),
         ("c", ["A", "OTHER", "kick"], None)],
        [("a", ["A", "VOL", "kick"], None), ("b", ["A", "VOL", "kick"], None)],
        [("e", [], None)],
        [("e", [""], None)],
        [("d", ["only"], None)],
        [("p", ["A", "..", "..", "esc"], None)],
        [("q", ["A", "x{0}y{}", "br{ace}"], None)],
        [("abs", ["<ROOT>", "absdir", "file"], None)],
        [("f1", ["A", "V", "s1"], None), ("f2", ["A", "V", "s2"], "export_wav"),
         ("f3", ["A", "V", "s3"], None)],
        [("g1", ["A", "V", "s1"], None), ("g2", ["A", "V", "s2"], "export_path"),
         ("g3", ["A", "V", "s3"], None)],
        [("h", ["blocked", "inner", "s"], None)],
        [("i", ["isfile", "s"], None)],
        [("u", ["A", "Vé", "naïve ♫"], None)],
        [("n", ["A", 5, "x"], None)],
    ]
    routine_specs = [None, [], ["same"], ["reverse"], ["same", "drop_last"],
                     ["iter"], ["dup", "reverse"], ["raise"],
                     ["reverse", "raise", "same"]]
    outs = ["<ROOT>/out", "<ROOT>/out/", "out", "", ".", "<ROOT>/deep/er/out",
            "<ROOT>/existing"]
    for samples, routines, out in itertools.product(sample_sets, routine_specs, outs):
        yield dict(samples=samples, routines=routines, out=out,
                   pre_dirs=("existing", "blocked"), pre_files=("isfile", "blocked/inner"))
    for samples in sample_sets:
        yield dict(samples=samples, routines=["same"], out="<ROOT>/out", odd=True)
        yield dict(samples=samples, routines=["reverse"], out="<ROOT>/o", via_finish=True)
        yield dict(samples=samples, routines=None, out="<ROOT>/isfile",
                   pre_files=("isfile",))
    rng = random.Random(1010)
    names = ["A", "B", "VOL 1", "kick", "snare -L", "snare -R", "x.y", "(2)", "..", "", "0"]
    for _ in range(200):
        samples = []
        for k in range(rng.randrange(0, 6)):
            comps = [rng.choice(names) for _ in range(rng.randrange(0, 4))]
            if len(comps) > 1 and comps[0] == "":
                comps[0] = "<ROOT>"     # absolute, but inside the sandbox
            samples.append((f"s{k}", comps, rng.choice([None] * 8 + ["export_wav", "export_path"])))
        yield dict(samples=samples, routines=rng.choice(routine_specs),
                   out=rng.choice(outs), pre_dirs=("existing",),
                   via_finish=rng.random() < 0.3)


def main():
    total = mismatches = 0
    for scenario in scenarios():
        total += 1
        live = run("live", scenario)
        orig = run("orig", scenario)
        if live != orig:
            mismatches += 1
            if mismatches <= 5:
                print("MISMATCH", scenario)
                for a, b in zip(live, orig):
                    if a != b:
                        print("  live:", a)
                        print("  orig:", b)
    print(f"{total} scenarios, {mismatches} mismatches")
    return 1 if mismatches else 0


if __name__ == "__main__":
    sys.exit(main())
