"""Equivalence demo for Image.make_safe_name and its regex constants (C06, r6).

The live method and the live compiled patterns are compared against an inline
copy of the ORIGINAL patterns / body: every single code point, every string up
to length 4 over a punctuation-heavy alphabet, and random strings.
"""
import itertools
import random
import re
import sys
import warnings

warnings.simplefilter("error")  # a regex FutureWarning would be a change too

from smpl_extract.structural import Image  # noqa: E402


ORIG_REMOVE = re.compile(r"[\'\"\`]+")
ORIG_REPLACE = re.compile(r"([^\w\-=\:.@#&+ ]+|(?<!\w)\:+)")


def original_make_safe_name(name, is_file=True):
    del is_file
    safe_name = ORIG_REMOVE.sub("", name)
    safe_name = ORIG_REPLACE.sub(" ", safe_name)
    safe_name = safe_name.strip()
    return safe_name


def outcome(fn, *args, **kwargs):
    try:
        value = fn(*args, **kwargs)
        return ("ok", type(value).__name__, value)
    except Exception as exc:  # noqa: BLE001
        return ("exc", type(exc).__name__, str(exc))


def spans(pattern, text):
    return [(m.span(), m.groups()) for m in pattern.finditer(text)]


class StrSub(str):
    pass


def main():
    image = Image(lambda ctx: [])
    failures = 0
    checked = 0

    def check(name, **kwargs):
        nonlocal failures, checked
        checked += 1
        got = outcome(image.make_safe_name, name, **kwargs)
        want = outcome(original_make_safe_name, name, **kwargs)
        if got != want:
            failures += 1
            if failures <= 10:
                print("MISMATCH", repr(name), kwargs, got, want)

    # compiled-pattern level: flags, group count and every match span
    for live, orig in ((Image._INVALID_CHARS_REMOVE, ORIG_REMOVE),
                       (Image._INVALID_CHARS_REPLACE, ORIG_REPLACE)):
        if (live.flags, live.groups, live.groupindex) != (
                orig.flags, orig.groups, orig.groupindex):
            failures += 1
            print("MISMATCH pattern attributes", live, orig)

    # every code point on its own, and embedded between word chars / colons
    for cp in range(sys.maxunicode + 1):
        ch = chr(cp)
        check(ch)
        check("a" + ch + ":b")
        check(":" + ch + ":")
    for cp in itertools.chain(range(0x3000), range(0xD7F0, 0xE010),
                              range(0xFF00, 0x10010)):
        ch = chr(cp)
        for text in (ch, "a" + ch + ":", ":" + ch + "::" + ch, ch + "'" + ch):
            for live, orig in ((Image._INVALID_CHARS_REMOVE, ORIG_REMOVE),
                               (Image._INVALID_CHARS_REPLACE, ORIG_REPLACE)):
                checked += 1
                if spans(live, text) != spans(orig, text):
                    failures += 1
                    if failures <= 10:
                        print("MISMATCH spans", repr(text), live.pattern)

    alphabet = ["a", "Z", "0", "_", " ", "-", "=", ":", ".", "@", "#", "&",
                "+", "'", '"', "`", "/", "\\", "\n", "\t", "*", "?", "é",
                "(", ")", "^", "]", "["]
    for n in range(0, 5):
        for combo in itertools.product(alphabet, repeat=n):
            check("".join(combo))

    rng = random.Random(6062)
    pool = "".join(alphabet) * 3 + "bcXY19<>|!$%,;{}~\x00\x1f\x7f\xa0\u2028 ñ中"
    for _ in range(60000):
        check("".join(rng.choice(pool) for _ in range(rng.randint(0, 24))))

    specials = [
        "", " ", "  ", "..", "../..", "..\\..", "/etc/passwd", "C:\\x", "C:",
        ":C", "a:b", "a::b", " :a", "::", "a :b", "'':", "':'", "a':'b",
        "\"quoted\"", "`tick`", "it's", "a'\"`b", "  padded  ", "\tTAB\t",
        "CON", "NUL.", "name.", "name .", "x" * 5000, "'" * 100 + ":" * 100,
        "Track 01 / Side: A", "A&B+C@D#E=F-G.H", "\u00a0x\u00a0", "\x85x\x85",
        StrSub("sub'class:"),
    ]
    for name in specials:
        check(name)
        check(name, is_file=False)
        check(name, is_file=True)
    for bad in (None, 5, b"bytes'", ["a"], 1.5):
        check(bad)
        check(bad, is_file=False)

    print(f"checked {checked} cases, {failures} mismatches")
    return 1 if failures else 0


if __name__ == "__main__":
    sys.exit(main())
