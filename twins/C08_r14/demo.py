"""Equivalence demo for r14 (SectorStream._get_address_given_sector_index and
SectorStream._translate_address).

The ORIGINAL bodies of the two methods are pasted below into OrigSector, a
subclass of SectorStream, which is also spliced between FileStream / MdfStream
and SectorStream in the MRO so that FileStream's super() call and the
inherited _translate_address of those classes reach the original code.

Compared, live class against original:
  (a) _get_address_given_sector_index(i, o) for every i, o in -6..40 and every
      sector length -3..9 (value and type), plus large random ints;
  (b) _translate_address(a) for every a in -30..120, every sector length
      -3..9 (0 included: ZeroDivisionError text) and several logical sizes,
      on plain sector streams, chained file streams (SectorReadError text for
      indices outside the chain) and the raw-sector MDF view;
  (c) seek / tell / read histories (exhaustive short ones and long random ones)
      on plain, chained and nested sector views over recording images:
      returned values, exceptions, cursor state and the ordered log of calls
      on the image, and the bytes against the logical content.
Exit 0 = all agree, 1 = mismatch.
"""
import itertools
import random
import sys
from io import BytesIO, SEEK_CUR, SEEK_END, SEEK_SET

from smpl_extract.alcohol.mdf import MdfStream
from smpl_extract.util.fat import FileStream
from smpl_extract.util.sector import SectorStream


class OrigSector(SectorStream):
    """Original methods, verbatim."""

    def _get_address_given_sector_index(
            self,
            sector_index: int,
            offset: int
        ):
        sector_address  = sector_index * self.sector_length

        parent_address = sector_address + offset
        return parent_address


    def _translate_address(
            self,
            content_address: int
    )->int:

        if content_address >= self.end_of_file:
            return self.end_of_file

        sector_index    = content_address // self.sector_length
        sector_offset   = content_address % self.sector_length

        partition_address = self._get_address_given_sector_index(
            sector_index,
            sector_offset
        )
        return partition_address


class OFile(FileStream, OrigSector): ...
class OMdf(MdfStream, OrigSector): ...


assert OFile.__mro__[1:4] == (FileStream, OrigSector, SectorStream)
assert OMdf.__mro__[1:4] == (MdfStream, OrigSector, SectorStream)


class Image(BytesIO):
    def __init__(self, data):
        super().__init__(data)
        self.log = []

    def tell(self):
        r = super().tell()
        self.log.append(("tell", r))
        return r

    def seek(self, *a):
        r = super().seek(*a)
        self.log.append(("seek", a, r))
        return r

    def read(self, *a):
        r = super().read(*a)
        self.log.append(("read", a, r))
        return r


def call(fn, *a):
    try:
        r = fn(*a)
        return ("ok", type(r).__name__, r)
    except Exception as e:  # noqa: BLE001
        return ("exc", type(e).__name__, str(e), type(e.__cause__).__name__)


def state(v):
    return (v.position, v.true_size, v.end_of_file, v.sector_length)


def check(label, new, old, method, *args):
    r_new = call(getattr(new, method), *args)
    r_old = call(getattr(old, method), *args)
    if r_new != r_old or state(new) != state(old):
        print("MISMATCH", label, method, args, r_new, r_old)
        return False
    return True


def part_a_b():
    ok = True
    count = 0
    rng = random.Random(1414)
    for sl in range(-3, 10):
        for size in (0, 1, 5, 17, 36, 90, 200):
            new = SectorStream(BytesIO(b""), size, sl)
            old = OrigSector(BytesIO(b""), size, sl)
            for i in range(-6, 41):
                for o in range(-6, 41):
                    if size == 17:      # address of (index, offset) does not depend on size
                        ok &= check("plain", new, old, "_get_address_given_sector_index", i, o)
                        count += 1
            for a in range(-30, 121):
                ok &= check("plain", new, old, "_translate_address", a)
                count += 1
    for _ in range(3000):
        sl = rng.choice([1, 2, 512, 2048, 0x2000, rng.randint(1, 10 ** 9)])
        size = rng.randint(0, 10 ** 12)
        new = SectorStream(BytesIO(b""), size, sl)
        old = OrigSector(BytesIO(b""), size, sl)
        ok &= check("big", new, old, "_get_address_given_sector_index",
                    rng.randint(-10 ** 12, 10 ** 12), rng.randint(-10 ** 6, 10 ** 12))
        ok &= check("big", new, old, "_translate_address", rng.randint(-10 ** 6, 2 * 10 ** 12))
        count += 2

    # chained files: sector index -> chain entry -> base-class address
    for sl in range(1, 7):
        for n in range(0, 6):
            for _ in range(6):
                chain = [rng.randint(-2, 12) for _ in range(n)]
                new = FileStream(BytesIO(b""), sl, chain)
                old = OFile(BytesIO(b""), sl, chain)
                for i in range(-n - 2, n + 3):
                    for o in range(-2, sl + 3):
                        ok &= check("chain", new, old, "_get_address_given_sector_index", i, o)
                        count += 1
                for a in range(-2 * sl - 1, sl * n + 5):
                    ok &= check("chain", new, old, "_translate_address", a)
                    count += 1
                # size larger than the chain: lookups beyond it raise SectorReadError
                new.end_of_file = old.end_of_file = sl * (n + 3)
                for a in range(sl * n - 2, sl * (n + 3) + 2):
                    ok &= check("chain+", new, old, "_translate_address", a)
                    count += 1

    # raw-sector view: inherited _translate_address over the MDF address rule
    for k in range(0, 4):
        new = MdfStream(BytesIO(bytes(2352 * k)))
        old = OMdf(BytesIO(bytes(2352 * k)))
        for a in list(range(-5, 40)) + list(range(2040, 2060)) + list(range(2048 * k - 5, 2048 * k + 5)):
            ok &= check("mdf", new, old, "_translate_address", a)
            count += 1
    return ok, count


# ---- histories
def mk_plain(new, rng):
    sl = rng.randint(1, 6)
    k = rng.randint(1, 6)
    data = bytes(rng.randrange(256) for _ in range(sl * k + rng.randint(0, 3)))
    img = Image(data)
    return (SectorStream if new else OrigSector)(img, sl * k, sl), img, data[:sl * k]


def mk_chain(new, rng):
    sl = rng.randint(1, 6)
    total = rng.randint(1, 7)
    data = bytes(rng.randrange(256) for _ in range(sl * total))
    chain = list(range(total))
    rng.shuffle(chain)
    chain = chain[:rng.randint(1, total)]
    img = Image(data)
    logical = b"".join(data[s * sl:(s + 1) * sl] for s in chain)
    return (FileStream if new else OFile)(img, sl, chain), img, logical


def mk_nested(new, rng):
    """chained file laid over a plain sector stream laid over the image."""
    sl = rng.choice([2, 3, 4])
    total = rng.randint(1, 6)
    data = bytes(rng.randrange(256) for _ in range(sl * total))
    img = Image(data)
    inner = (SectorStream if new else OrigSector)(img, sl * total, rng.choice([1, sl, 2 * sl, 5]))
    chain = list(range(total))
    rng.shuffle(chain)
    logical = b"".join(data[s * sl:(s + 1) * sl] for s in chain)
    return (FileStream if new else OFile)(inner, sl, chain), img, logical


def mk_mdf(new, rng):
    k = rng.randint(1, 2)
    data = bytes(rng.randrange(256) for _ in range(2352 * k))
    img = Image(data)
    logical = b"".join(data[s * 2352 + 16:s * 2352 + 2064] for s in range(k))
    return (MdfStream if new else OMdf)(img), img, logical


def apply(view, op):
    if op[0] == "seek":
        return call(view.seek, op[1], op[2])
    if op[0] == "tell":
        return call(view.tell)
    return call(view.read, op[1])


def run_pair(factory, seed, ops):
    v_new, img_new, logical = factory(True, random.Random(seed))
    v_old, img_old, _ = factory(False, random.Random(seed))
    for i, op in enumerate(ops):
        before = v_new.position
        r_new, r_old = apply(v_new, op), apply(v_old, op)
        same = r_new == r_old and state(v_new) == state(v_old) and img_new.log == img_old.log
        if same and op[0] == "read" and r_new[0] == "ok" and op[1] is not None and op[1] >= 0:
            same = r_new[2] == logical[before:before + op[1]]
        if not same:
            print("MISMATCH", factory.__name__, seed, i, op, r_new, r_old)
            return False
    return True


def part_c():
    ok = True
    count = 0
    rng = random.Random(4141)
    factories = [mk_plain, mk_chain, mk_nested, mk_mdf]
    alphabet = [("read", 0), ("read", 1), ("read", 2), ("read", 5), ("read", 40), ("read", None),
                ("seek", 0, SEEK_SET), ("seek", 1, SEEK_CUR), ("seek", -1, SEEK_END),
                ("seek", 0, SEEK_END), ("tell",)]
    for factory in factories[:3]:
        for seed in range(4):
            for ops in itertools.product(alphabet, repeat=3):
                ok &= run_pair(factory, seed, list(ops))
                count += 1
    for _ in range(1500):
        factory = rng.choice(factories)
        ops = []
        for _ in range(rng.randint(1, 30)):
            kind = rng.choice(["seek", "read", "read", "tell"])
            if kind == "seek":
                ops.append(("seek", rng.randint(-8, 60), rng.choice([SEEK_SET, SEEK_CUR, SEEK_END])))
            elif kind == "read":
                ops.append(("read", rng.choice([0, 1, 2, 3, 7, 11, 30, 2048, 2049, None, -1])))
            else:
                ops.append(("tell",))
        ok &= run_pair(factory, rng.randrange(10 ** 6), ops)
        count += 1
    return ok, count


def main():
    ok1, n1 = part_a_b()
    ok2, n2 = part_c()
    ok = ok1 and ok2
    print(f"{n1} address computations and {n2} histories compared: "
          f"{'all agree' if ok else 'MISMATCH'}")
    return 0 if ok else 1


if __name__ == "__main__":
    sys.exit(main())
