"""Equivalence demo for r4: cue line consumption (smpl_extract/cuesheet.py:
get_nonempty_entry, parse_cue_sheet and the regexes / adapters they drive).

The complete ORIGINAL module source is embedded below and executed as a
separate module; the live module and the original are then run on many cue
sheets (valid, case / whitespace variants, corrupted lines, shuffled lines,
truncated, random text, unicode case-folding corner cases) and compared on:
return value (as nested dicts), raised exception (type + message), and the
in-place mutation of the caller's `lines` list (lines are consumed with pop).
The compiled regexes are compared too (pattern + flags).
Exit 0 when everything agrees, 1 otherwise.
"""
import copy
import dataclasses
import random
import sys
import types

import smpl_extract.cuesheet as live

ORIGINAL_SOURCE = r'''
from dataclasses import dataclass
from dataclasses import field
import re
from typing import List
from typing import Optional
from typing import Protocol
from typing import Tuple
from typing import TypeVar


class BadCueSheet(Exception): pass


def get_nonempty_entry(lines: List[str]) -> Tuple[str, List[str]]:
    text = ""
    while len(lines):
        text = lines.pop(0).strip()
        if len(text):
            break
    return text, lines


T = TypeVar("T", covariant=True)
class CueItemAdapter(Protocol[T]):
    def parse(self, lines: List[str]) -> T: ...


_AUDIO_FRAMES_PER_SECOND = 75
@dataclass
class CueSheetIndex:
    number: int = 0
    n_minutes: int = 0
    n_seconds: int = 0
    n_frames: int = 0

    def get_total_audio_frames(self) -> int:
        total_seconds = 60*self.n_minutes + self.n_seconds
        total_frames = _AUDIO_FRAMES_PER_SECOND*total_seconds + \
            self.n_frames
        return total_frames


@dataclass
class CueSheetTrack:
    number: int = 0
    mode: str = ""
    title: Optional[str] = None
    indices: List[CueSheetIndex] = field(default_factory=list)
    unparsed: List = field(default_factory=list)


_TRACK_LINE_REGEX = re.compile(r"\s*TRACK\s+(\d+)\s+([A-z\d\/]+)", flags=re.I)
_TITLE_LINE_REGEX = re.compile(r"\s*TITLE\s+\"(.*?)\"", flags=re.I)
_INDEX_LINE_REGEX = re.compile(r"\s*INDEX\s+(\d+)\s+(\d+):(\d+):(\d+)", flags=re.I)
class CueSheetTrackAdapter:
    @classmethod
    def parse(cls, lines: List[str]):
        text, lines = get_nonempty_entry(lines)
        if len(text) <= 0:
            raise BadCueSheet
        result = _TRACK_LINE_REGEX.match(text)
        if not result:
            raise BadCueSheet
        track_number = int(result.groups()[0])
        track_mode = result.groups()[1]
        track = CueSheetTrack(
            track_number,
            track_mode
        )

        while len(lines):
            text, lines = get_nonempty_entry(lines)
            if len(text) <= 0:
                break

            # Check if next track began
            result = _TRACK_LINE_REGEX.match(text)
            if result:
                lines = [text] + lines
                break

            # check known properties
            result = _INDEX_LINE_REGEX.match(text)
            if result:
                index_number = int(result.groups()[0])
                n_minutes = int(result.groups()[1])
                n_seconds = int(result.groups()[2])
                n_frames = int(result.groups()[3])
                index = CueSheetIndex(
                    index_number,
                    n_minutes,
                    n_seconds,
                    n_frames
                )
                track.indices.append(index)
                continue

            result = _TITLE_LINE_REGEX.match(text)
            if result:
                title = result.groups()[0]
                track.title = title
                continue

            track.unparsed.append(text)

        return track, lines


@dataclass
class CueSheetFile:
    bin_file_name: str
    tracks: List[CueSheetTrack] = field(default_factory=list)


_FILE_LINE_REGEX = re.compile(r"\s*FILE\s+\"(.*?)\"\s+BINARY", flags=re.I)
class CueSheetFileAdapter:


    @classmethod
    def parse(cls, lines: List[str]):
        text, lines = get_nonempty_entry(lines)
        if len(text) <= 0:
            raise BadCueSheet
        result = _FILE_LINE_REGEX.match(text)
        if not result:
            raise BadCueSheet
        
        bin_file_name = result.groups()[0]
        cue_sheet = CueSheetFile(bin_file_name)
        while len(lines):
            text, lines = get_nonempty_entry(lines)
            if len(text) <= 0:
                break
            lines = [text] + lines
            track, lines = CueSheetTrackAdapter.parse(lines)
            if track:
                cue_sheet.tracks.append(track)

        return cue_sheet, lines


def parse_cue_sheet(lines: List[str]) -> CueSheetFile:
    cue_sheet_files = []
    while len(lines):
        text, lines = get_nonempty_entry(lines)
        match_result = _FILE_LINE_REGEX.match(text)
        if match_result:
            lines = [text] + lines
            cue_sheet_file, lines = CueSheetFileAdapter.parse(lines)
            cue_sheet_files.append(cue_sheet_file)
    
    if len(cue_sheet_files) <= 0:
        raise BadCueSheet("No FILE entry")
    
    result = cue_sheet_files[0]
    return result

'''

orig = types.ModuleType("orig_cuesheet")
sys.modules["orig_cuesheet"] = orig
exec(compile(ORIGINAL_SOURCE, "orig_cuesheet.py", "exec"), orig.__dict__)


def norm(value):
    if dataclasses.is_dataclass(value) and not isinstance(value, type):
        return (type(value).__name__, norm(dataclasses.asdict(value)))
    if isinstance(value, dict):
        return tuple((k, norm(v)) for k, v in value.items())
    if isinstance(value, (list, tuple)):
        return (type(value).__name__,) + tuple(norm(v) for v in value)
    return value


def call(fn, lines):
    arg = list(lines)
    try:
        out = ("ok", norm(fn(arg)))
    except Exception as e:  # noqa: BLE001
        out = ("exc", type(e).__name__, str(e), type(e).__mro__[1].__name__)
    return out, tuple(arg)


VALID = """FILE "disc.bin" BINARY
  TRACK 01 MODE1/2352
    INDEX 01 00:00:00
  TRACK 02 AUDIO
    TITLE "Second"
    PREGAP 00:02:00
    INDEX 00 10:11:12
    INDEX 01 10:13:12
  TRACK 03 AUDIO
    FLAGS DCP
    INDEX 01 70:59:74
"""

AUDIO_ONLY = """REM GENRE Test
PERFORMER "x"
FILE "a b c.bin" BINARY
TRACK 1 AUDIO
INDEX 1 0:0:0
TRACK 2 AUDIO
INDEX 1 1:2:3
"""

TWO_FILES = VALID + 'FILE "second.bin" BINARY\n  TRACK 09 AUDIO\n    INDEX 01 00:00:00\n'

FRAGMENTS = [
    "", " ", "\t", "\n", "\r\n", "   \n", 'FILE "x.bin" BINARY', 'file "x.bin" binary',
    'FiLe "x" BiNaRy', 'FILE "x.bin" WAVE', 'FILE x.bin BINARY', 'FILE "" BINARY',
    'FILE "a" "b" BINARY', '  FILE  "q"   BINARY  trailing', 'XFILE "x" BINARY',
    "TRACK 01 AUDIO", "track 01 audio", "TRACK 1 MODE2/2352", "TRACK AUDIO", "TRACK 01",
    "TRACK 99999999999999999999 A_z^[]", "TRACK 01 AUDIO extra", "  TRACK\t2\tAUDIO",
    "TRACK -1 AUDIO", "INDEX 01 00:00:00", "index 1 2:3:4", "INDEX 01 00:00",
    "INDEX 01 00:00:00:00", "INDEX 01 99:99:99", "INDEX a 00:00:00", "INDEX 01 00 :00:00",
    'TITLE "t"', 'title "T t"', 'TITLE ""', 'TITLE "a" "b"', "TITLE t", 'TITLE "unterminated',
    "REM comment", "PREGAP 00:02:00", "FLAGS DCP", "garbage", "\x00\x01\x02", "FILE", "TRACK",
    # unicode case folding corner cases of re.IGNORECASE on str patterns
    'FİLE "x" BINARY', 'fıle "x" bınary', "TRACK 01 AUDIO",
    "ſTRACK 01 AUDIO", "TRACK 01 AUDIOK", 'TITLE "Kſ"',
    "INDEX ١ 00:00:00", "TRACK ٣ AUDIO", "INDEX 01 ٠٠:00:00",
    " TRACK 01 AUDIO", "\x0cFILE \"ff\" BINARY", "\x1cTRACK 5 AUDIO\x1d",
]


def cases():
    rng = random.Random(4)
    yield "empty-list", []
    yield "blank-only", ["", "  ", "\n", "\t\n"]
    for name, text in (("valid", VALID), ("audio-only", AUDIO_ONLY), ("two-files", TWO_FILES)):
        lines = text.splitlines(keepends=True)
        yield name, lines
        yield name + "-no-newlines", text.splitlines()
        yield name + "-lower", [l.lower() for l in lines]
        yield name + "-upper", [l.upper() for l in lines]
        yield name + "-swapcase", [l.swapcase() for l in lines]
        yield name + "-crlf", [l.rstrip("\n") + "\r\n" for l in lines]
        yield name + "-blank-interleaved", [x for l in lines for x in (l, "\n", "   \n")]
        yield name + "-leading-blanks", ["\n"] * 5 + lines
        yield name + "-trailing-blanks", lines + ["\n"] * 5
        yield name + "-reversed", lines[::-1]
        yield name + "-doubled", lines + lines
        for cut in range(len(lines) + 1):
            yield f"{name}-head-{cut}", lines[:cut]
            yield f"{name}-tail-{cut}", lines[cut:]
        for drop in range(len(lines)):
            yield f"{name}-drop-{drop}", lines[:drop] + lines[drop + 1:]
        for idx in range(len(lines)):
            for frag in FRAGMENTS:
                yield f"{name}-line{idx}=<{frag!r}>", lines[:idx] + [frag + "\n"] + lines[idx + 1:]
        for k in range(40):
            mutated = list(lines)
            for _ in range(rng.randint(1, 4)):
                r = rng.random()
                pos = rng.randrange(len(mutated)) if mutated else 0
                if r < 0.3 and mutated:
                    del mutated[pos]
                elif r < 0.6:
                    mutated.insert(pos, rng.choice(FRAGMENTS) + "\n")
                elif r < 0.8 and mutated:
                    chars = list(mutated[pos])
                    if chars:
                        chars[rng.randrange(len(chars))] = chr(rng.randrange(32, 127))
                    mutated[pos] = "".join(chars)
                else:
                    rng.shuffle(mutated)
            yield f"{name}-mut-{k}", mutated
    for frag in FRAGMENTS:
        yield f"single-<{frag!r}>", [frag]
    for k in range(300):
        yield f"fragment-soup-{k}", [rng.choice(FRAGMENTS) + rng.choice(["", "\n", " \n"])
                                      for _ in range(rng.randint(1, 25))]
    for k in range(100):
        yield f"random-text-{k}", "".join(
            chr(rng.choice([10, 32, 34, 58] + list(range(32, 127))))
            for _ in range(rng.randint(0, 400))).splitlines(keepends=True)
    yield "many-files", ['FILE "f%d" BINARY\n' % i for i in range(500)]
    yield "many-tracks", ['FILE "f" BINARY\n'] + ["TRACK %d AUDIO\n" % i for i in range(2000)]
    yield "many-blank", ["\n"] * 5000 + ['FILE "f" BINARY\n'] + ["\n"] * 5000


FUNCS = (
    "parse_cue_sheet",
    "get_nonempty_entry",
    ("CueSheetFileAdapter", "parse"),
    ("CueSheetTrackAdapter", "parse"),
)


def resolve(module, spec):
    if isinstance(spec, str):
        return getattr(module, spec)
    return getattr(getattr(module, spec[0]), spec[1])


def main():
    bad = 0
    n = 0
    for rx in ("_TRACK_LINE_REGEX", "_TITLE_LINE_REGEX", "_INDEX_LINE_REGEX", "_FILE_LINE_REGEX"):
        a, b = getattr(orig, rx), getattr(live, rx)
        n += 1
        if (a.pattern, a.flags, a.groups) != (b.pattern, b.flags, b.groups):
            bad += 1
            print(f"MISMATCH regex {rx}: {a!r} vs {b!r}")
    hist = {}
    for name, lines in cases():
        for spec in FUNCS:
            n += 1
            a = call(resolve(orig, spec), lines)
            b = call(resolve(live, spec), lines)
            if spec == "parse_cue_sheet":
                key = a[0][0] if a[0][0] == "ok" else f"{a[0][1]}({a[0][2]})"
                hist[key] = hist.get(key, 0) + 1
            if a != b:
                bad += 1
                print(f"MISMATCH {spec} on {name}: original={a} live={b}")
    print(f"{n} comparisons, {bad} mismatches; parse_cue_sheet outcomes: {hist}")
    return 1 if bad else 0


if __name__ == "__main__":
    sys.exit(main())
