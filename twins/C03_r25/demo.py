"""Equivalence demo for r25: smpl_extract/cuesheet.py _TRACK_LINE_REGEX
respelled (`\\d\\d*` for `\\d+`, class members reordered and `/` unescaped,
re.IGNORECASE for re.I, pattern split over commented lines).

The complete ORIGINAL cuesheet.py is pasted below and executed in its own
namespace; the live module is compared with it:

  A. regexes: flags / group count of all four line regexes, and match(),
     fullmatch(), search(), match(pos=1), finditer() on ~3000 texts built
     from keywords (case variants, Kelvin sign, dotted/dotless i, long s),
     ASCII and Unicode white space, ASCII / Unicode / non-decimal digits,
     mode strings with every character of and next to the `A-z` range
     (``[ \\ ] ^ _ ` @ {``), `/` and `\\`, and case-folding oddities:
     groups, spans, regs must be identical.
  B. parsers: parse_cue_sheet, CueSheetFileAdapter.parse and
     CueSheetTrackAdapter.parse on fixed and ~500 random sheets (including
     5000-digit numbers that make int() raise ValueError): same result or same
     exception type and args, and the same leftover in the list passed in.
     Plus one sheet with independently written expected values.
  C. end to end: 60 cue/bin pairs exported to WAV with the original and the
     live parser: identical trees and printed text, and the PCM tiles the
     bin at the index positions (independent expected values).
Exit 0 on full agreement, 1 otherwise.
"""
import contextlib
import io
import os
import random
import re
import shutil
import sys
import tempfile

from smpl_extract import actions
from smpl_extract import cuesheet as live


ORIGINAL_SOURCE = r'''
from dataclasses import dataclass
from dataclasses import field
import re
from typing import List
from typing import Optional
from typing import Protocol
from typing import Tuple
from typing import TypeVar


class BadCueSheet(Exception): pass


def get_nonempty_entry(lines: List[str]) -> Tuple[str, List[str]]:
    text = ""
    while len(lines):
        text = lines.pop(0).strip()
        if len(text):
            break
    return text, lines


T = TypeVar("T", covariant=True)
class CueItemAdapter(Protocol[T]):
    def parse(self, lines: List[str]) -> T: ...


_AUDIO_FRAMES_PER_SECOND = 75
@dataclass
class CueSheetIndex:
    number: int = 0
    n_minutes: int = 0
    n_seconds: int = 0
    n_frames: int = 0

    def get_total_audio_frames(self) -> int:
        total_seconds = 60*self.n_minutes + self.n_seconds
        total_frames = _AUDIO_FRAMES_PER_SECOND*total_seconds + \
            self.n_frames
        return total_frames


@dataclass
class CueSheetTrack:
    number: int = 0
    mode: str = ""
    title: Optional[str] = None
    indices: List[CueSheetIndex] = field(default_factory=list)
    unparsed: List = field(default_factory=list)


_TRACK_LINE_REGEX = re.compile(r"\s*TRACK\s+(\d+)\s+([A-z\d\/]+)", flags=re.I)
_TITLE_LINE_REGEX = re.compile(r"\s*TITLE\s+\"(.*?)\"", flags=re.I)
_INDEX_LINE_REGEX = re.compile(r"\s*INDEX\s+(\d+)\s+(\d+):(\d+):(\d+)", flags=re.I)
class CueSheetTrackAdapter:
    @classmethod
    def parse(cls, lines: List[str]):
        text, lines = get_nonempty_entry(lines)
        if len(text) <= 0:
            raise BadCueSheet
        result = _TRACK_LINE_REGEX.match(text)
        if not result:
            raise BadCueSheet
        track_number = int(result.groups()[0])
        track_mode = result.groups()[1]
        track = CueSheetTrack(
            track_number,
            track_mode
        )

        while len(lines):
            text, lines = get_nonempty_entry(lines)
            if len(text) <= 0:
                break

            # Check if next track began
            result = _TRACK_LINE_REGEX.match(text)
            if result:
                lines = [text] + lines
                break

            # check known properties
            result = _INDEX_LINE_REGEX.match(text)
            if result:
                index_number = int(result.groups()[0])
                n_minutes = int(result.groups()[1])
                n_seconds = int(result.groups()[2])
                n_frames = int(result.groups()[3])
                index = CueSheetIndex(
                    index_number,
                    n_minutes,
                    n_seconds,
                    n_frames
                )
                track.indices.append(index)
                continue

            result = _TITLE_LINE_REGEX.match(text)
            if result:
                title = result.groups()[0]
                track.title = title
                continue

            track.unparsed.append(text)

        return track, lines


@dataclass
class CueSheetFile:
    bin_file_name: str
    tracks: List[CueSheetTrack] = field(default_factory=list)


_FILE_LINE_REGEX = re.compile(r"\s*FILE\s+\"(.*?)\"\s+BINARY", flags=re.I)
class CueSheetFileAdapter:


    @classmethod
    def parse(cls, lines: List[str]):
        text, lines = get_nonempty_entry(lines)
        if len(text) <= 0:
            raise BadCueSheet
        result = _FILE_LINE_REGEX.match(text)
        if not result:
            raise BadCueSheet
        
        bin_file_name = result.groups()[0]
        cue_sheet = CueSheetFile(bin_file_name)
        while len(lines):
            text, lines = get_nonempty_entry(lines)
            if len(text) <= 0:
                break
            lines = [text] + lines
            track, lines = CueSheetTrackAdapter.parse(lines)
            if track:
                cue_sheet.tracks.append(track)

        return cue_sheet, lines


def parse_cue_sheet(lines: List[str]) -> CueSheetFile:
    cue_sheet_files = []
    while len(lines):
        text, lines = get_nonempty_entry(lines)
        match_result = _FILE_LINE_REGEX.match(text)
        if match_result:
            lines = [text] + lines
            cue_sheet_file, lines = CueSheetFileAdapter.parse(lines)
            cue_sheet_files.append(cue_sheet_file)
    
    if len(cue_sheet_files) <= 0:
        raise BadCueSheet("No FILE entry")
    
    result = cue_sheet_files[0]
    return result
'''
# The original module runs in its own namespace (its own regexes, adapters and
# parse functions) but shares the exception and the dataclasses - which the
# refactoring does not touch - with the live module, so that results compare
# with == and `except BadCueSheet` in actions.py catches both.
_ns = {"__name__": "original_cuesheet"}
exec(compile(ORIGINAL_SOURCE, "<original cuesheet>", "exec"), _ns)
for _shared in ("BadCueSheet", "CueSheetIndex", "CueSheetTrack",
                "CueSheetFile"):
    _ns[_shared] = getattr(live, _shared)


class original:
    pass


for _name, _value in _ns.items():
    setattr(original, _name, _value)

REGEX_NAMES = ("_TRACK_LINE_REGEX", "_INDEX_LINE_REGEX", "_TITLE_LINE_REGEX",
               "_FILE_LINE_REGEX")


# ------------------------------------------------------------------ inputs
SPACES = ["", " ", "  ", "\t", " \t ", " ", " ", "\x1c", "\x1f",
          "\x85", "　", "\n", "\r\n", "\x0b", "\x0c", "​"]
KEYWORDS = ["TRACK", "track", "Track", "tRaCk", "TRACK", "tracK",
            "TRACKS", "TRAK", "XTRACK", "INDEX", "index", "Index", "İNDEX",
            "ındex", "iNDEX", "INDEχ", "INDEXX", "NDEX", "TITLE",
            "FILE", "REM", "PREGAP", "FLAGS", "", "T", "I"]
NUMBERS = ["0", "1", "01", "00", "2", "10", "99", "100", "007", "", "-1",
           "+1", "1.5", "0x10", "1_0", "٣", "1٣", "१२",
           "１２", "²", "①", "Ⅷ", "三", "a", "1a",
           "a1", " 1", "1 ", "123456789012345678901234567890",
           "\U0001d7d8\U0001d7d9", "௧"]
MODES = ["AUDIO", "audio", "Audio", "MODE1/2352", "MODE2/2336", "mode1/2048",
         "CDG", "CDI/2352", "", "A", "z", "Z", "a", "[", "\\", "]", "^", "_",
         "`", "@", "{", "|", "~", "/", "//", "\\/", "A-Z", "A.B", "AU DIO",
         "AUDıO", "AUDİO", "ſtereo", "Kelvin", "Å",
         "é", "٣", "Ａ", "MODE1\\2352", "MODE1:2352", "0", "9",
         "Á", "ẞ", "ﬁ", "ΐ", "ΐ", "A\nB", "A\tB"]
SEPARATORS = [":", ":", ":", ";", " : ", ": ", "", ".", "：", "::"]
TAILS = ["", " ", "\n", " trailing", "\"", " ; comment", ":00", "\x00"]


def track_texts(rng, count):
    texts = []
    for keyword in KEYWORDS:
        for number in ("01", "٣", ""):
            for mode in MODES:
                texts.append("%s %s %s" % (keyword, number, mode))
    for _ in range(count):
        texts.append("".join([
            rng.choice(SPACES), rng.choice(KEYWORDS), rng.choice(SPACES),
            rng.choice(NUMBERS), rng.choice(SPACES), rng.choice(MODES),
            rng.choice(TAILS)]))
    return texts


def index_texts(rng, count):
    texts = []
    for keyword in KEYWORDS:
        for number in ("01", "٣", "", "x"):
            for sep in (":", ";", ""):
                texts.append("%s %s 00%s02%s33" % (keyword, number, sep, sep))
    for _ in range(count):
        texts.append("".join([
            rng.choice(SPACES), rng.choice(KEYWORDS), rng.choice(SPACES),
            rng.choice(NUMBERS), rng.choice(SPACES), rng.choice(NUMBERS),
            rng.choice(SEPARATORS), rng.choice(NUMBERS),
            rng.choice(SEPARATORS), rng.choice(NUMBERS), rng.choice(TAILS)]))
    return texts


def other_texts(rng, count):
    texts = ["", " ", "\n", "TITLE \"x\"", "title \"\"", "TITLE \"a\" \"b\"",
             "FILE \"disc.bin\" BINARY", "file \"a b.bin\"   binary",
             "FILE \"x.wav\" WAVE", "FILE disc.bin BINARY", "REM GENRE x",
             "PERFORMER \"p\"", "FLAGS DCP", "PREGAP 00:02:00",
             "TITLE \"TRACK 01 AUDIO\"", "REM TRACK 01 AUDIO",
             "REM INDEX 01 00:00:00", "ISRC ABCDE1234567",
             "INDEX 01 00:00:00 TRACK 02 AUDIO",
             "TRACK 01 AUDIO INDEX 01 00:00:00"]
    alphabet = "TRACKINDEXtrackindex 01239:/\"\t٣KıİA[z{"
    for _ in range(count):
        texts.append("".join(rng.choice(alphabet)
                             for _ in range(rng.randint(0, 24))))
    return texts


# ----------------------------------------------------------------- regexes
def describe_match(m):
    if m is None:
        return None
    return (m.groups(), m.span(), m.regs, m.group(0), m.lastindex,
            m.groupdict())


def regex_cases():
    rng = random.Random(0x525)
    count = 0
    failures = 0
    texts = track_texts(rng, 700) + index_texts(rng, 700) \
        + other_texts(rng, 300)
    for name in REGEX_NAMES:
        old = getattr(original, name)
        new = getattr(live, name)
        count += 1
        if (old.flags, old.groups, old.groupindex) != \
                (new.flags, new.groups, new.groupindex):
            failures += 1
            print("MISMATCH (regex attributes)", name)
        for text in texts:
            for method in ("match", "fullmatch", "search"):
                expected = describe_match(getattr(old, method)(text))
                actual = describe_match(getattr(new, method)(text))
                count += 1
                if expected != actual:
                    failures += 1
                    if failures < 10:
                        print("MISMATCH (regex)", name, method, repr(text),
                              expected, actual)
            # also with a start position, and every match of a long text
            expected = describe_match(old.match(text, 1))
            actual = describe_match(new.match(text, 1))
            count += 1
            if expected != actual:
                failures += 1
                print("MISMATCH (regex pos)", name, repr(text))
        joined = "\n".join(texts)
        count += 1
        if [describe_match(m) for m in old.finditer(joined)] != \
                [describe_match(m) for m in new.finditer(joined)]:
            failures += 1
            print("MISMATCH (finditer)", name)
    return count, failures


# ------------------------------------------------------------------ parsers
def outcome(function, lines):
    """Result or exception of function(lines) and the argument afterwards
    (the parsers pop from the list they are given)."""
    try:
        value = ("OK", function(lines))
    except BaseException as error:
        value = ("RAISED", type(error), error.args)
    return value, list(lines)


def random_sheet(rng, pools):
    tracks, indices, others = pools
    lines = []
    if rng.random() < 0.85:
        lines.append(rng.choice(["FILE \"disc.bin\" BINARY",
                                 "  file \"d.bin\" binary  ",
                                 "FILE \"disc.bin\" WAVE", "REM x", ""]))
    for _ in range(rng.randint(0, 5)):
        kind = rng.random()
        if kind < 0.7:
            lines.append(rng.choice(["  TRACK %02d AUDIO" % rng.randint(0, 99),
                                     "TRACK 1 MODE1/2352",
                                     rng.choice(tracks)]))
        for _ in range(rng.randint(0, 4)):
            kind = rng.random()
            if kind < 0.55:
                lines.append(rng.choice([
                    "    INDEX %02d %02d:%02d:%02d" % (
                        rng.randint(0, 3), rng.randint(0, 99),
                        rng.randint(0, 59), rng.randint(0, 74)),
                    rng.choice(indices)]))
            elif kind < 0.75:
                lines.append(rng.choice(["    TITLE \"Loop %d\"" % kind,
                                         "TITLE \"\"", "title \"a\" b"]))
            elif kind < 0.9:
                lines.append(rng.choice(others))
            else:
                lines.append(rng.choice(["", "   ", "\n", "\t"]))
        if rng.random() < 0.08:
            lines.append("FILE \"second.bin\" BINARY")
    return [line + rng.choice(["\n", "\n", "", "\r\n"]) for line in lines]


BIG = "7" * 5000        # int() refuses it: ValueError, must stay the same one
FIXED_SHEETS = [
    [],
    [""],
    ["FILE \"a.bin\" BINARY"],
    ["FILE \"a.bin\" BINARY", "TRACK 01 AUDIO"],
    ["FILE \"a.bin\" BINARY", "INDEX 01 00:00:00"],
    ["TRACK 01 AUDIO", "INDEX 01 00:00:00"],
    ["FILE \"a.bin\" BINARY", "TRACK 01 AUDIO", "INDEX 01 00:00:00",
     "TRACK 02 AUDIO", "INDEX 00 00:01:74", "INDEX 01 00:02:00"],
    ["FILE \"a.bin\" BINARY", "TRACK " + BIG + " AUDIO", "INDEX 01 00:00:00"],
    ["FILE \"a.bin\" BINARY", "TRACK 01 AUDIO", "INDEX " + BIG + " 00:00:00"],
    ["FILE \"a.bin\" BINARY", "TRACK 01 AUDIO", "INDEX 01 " + BIG + ":00:00"],
    ["FILE \"a.bin\" BINARY", "TRACK 01 AUDIO", "INDEX 01 00:" + BIG + ":00"],
    ["FILE \"a.bin\" BINARY", "TRACK 01 AUDIO", "INDEX 01 00:00:" + BIG],
    ["FILE \"a.bin\" BINARY", "TRACK 01 AUDIO",
     "INDEX " + BIG + " " + BIG + ":00:" + BIG, "INDEX 02 00:00:01"],
    ["FILE \"a.bin\" BINARY", "TRACK 01 AUDIO",
     "INDEX ١ ٢:３:௧", "INDEX 1٣ 00:0٣:00"],
    ["FILE \"a.bin\" BINARY", "tracK 01 aſ/[\\]^_`", "ındex 1 2:3:4",
     "İNDEX 1 2:3:4"],
    ["FILE \"a.bin\" BINARY", "TRACK 01 AUDIO", "INDEX 01 00:00:00 TRACK 02 X",
     "TITLE \"TRACK 03 AUDIO\"", "REM TRACK 04 AUDIO", "TRACK 05 {"],
]


def parser_cases():
    rng = random.Random(0xC03)
    pools = (track_texts(rng, 300), index_texts(rng, 300),
             other_texts(rng, 100))
    sheets = list(FIXED_SHEETS)
    for _ in range(500):
        sheets.append(random_sheet(rng, pools))
    count = 0
    failures = 0
    for sheet in sheets:
        for name in ("parse_cue_sheet", "CueSheetFileAdapter",
                     "CueSheetTrackAdapter"):
            old = getattr(original, name)
            new = getattr(live, name)
            if name != "parse_cue_sheet":
                old, new = old.parse, new.parse
            expected = outcome(old, list(sheet))
            actual = outcome(new, list(sheet))
            count += 1
            if expected != actual:
                failures += 1
                if failures < 10:
                    print("MISMATCH (parser)", name, sheet, expected, actual)
        # from the second line on as well, so that track and index lines are
        # the first thing CueSheetTrackAdapter.parse sees
        expected = outcome(original.CueSheetTrackAdapter.parse, sheet[1:])
        actual = outcome(live.CueSheetTrackAdapter.parse, sheet[1:])
        count += 1
        if expected != actual:
            failures += 1
            print("MISMATCH (track parser)", sheet)
    # independent expected values for a plain sheet
    sheet = ["FILE \"d.bin\" BINARY\n", "  TRACK 01 AUDIO\n",
             "    TITLE \"One\"\n", "    INDEX 00 00:00:00\n",
             "    INDEX 01 00:02:33\n", "  track 02 mode1/2352\n",
             "    index 1 71:59:74\n", "    FLAGS DCP\n"]
    parsed = live.parse_cue_sheet(list(sheet))
    count += 1
    if parsed != live.CueSheetFile("d.bin", [
            live.CueSheetTrack(1, "AUDIO", "One", [
                live.CueSheetIndex(0, 0, 0, 0),
                live.CueSheetIndex(1, 0, 2, 33)], []),
            live.CueSheetTrack(2, "mode1/2352", None, [
                live.CueSheetIndex(1, 71, 59, 74)], ["FLAGS DCP"])]) \
            or parsed.tracks[0].indices[1].get_total_audio_frames() != 183 \
            or parsed.tracks[1].indices[0].get_total_audio_frames() != 323999:
        failures += 1
        print("MISMATCH (expected values)", parsed)
    return count, failures


# ------------------------------------------------------------------- export
def msf(total):
    return "%02d:%02d:%02d" % (total // 4500, (total // 75) % 60, total % 75)


def make_cue(rng, n_sectors):
    lines = ["FILE \"disc.bin\" BINARY\n"]
    position = rng.randint(0, 2)
    for t in range(rng.randint(1, 6)):
        lines.append(rng.choice(["  TRACK %02d AUDIO\n", "TRACK %d AUDIO\n",
                                 "\ttrack  %02d  audio \n"]) % (t + 1))
        if rng.random() < 0.6:
            lines.append("    TITLE \"%s\"\n" % rng.choice(
                ["Intro", "Intro", "a/b", "Loop L", "Loop R", "x."]))
        for k in range(rng.choice([1, 1, 2, 3])):
            lines.append(rng.choice(["    INDEX %02d %s\n", "INDEX %d %s\n",
                                     "  index   %02d   %s  \n"])
                         % (k, msf(position)))
            position += rng.choice([1, 1, 2, 3])
        if position >= n_sectors:
            break
    return lines


def read_tree(root):
    found = {}
    for directory, _dirs, files in os.walk(root):
        for name in files:
            path = os.path.join(directory, name)
            with open(path, "rb") as f:
                found[os.path.relpath(path, root)] = f.read()
    return found


def run_export(parse_function, cue_path, destination):
    captured = io.StringIO()
    os.mkdir(destination)
    saved = actions.parse_cue_sheet
    actions.parse_cue_sheet = parse_function
    try:
        with contextlib.redirect_stdout(captured):
            actions.export_samples_to_wav(cue_path, destination)
    finally:
        actions.parse_cue_sheet = saved
    return read_tree(destination), captured.getvalue()


def export_cases():
    rng = random.Random(0x325326)
    failures = 0
    count = 0
    base = tempfile.mkdtemp(prefix="r2526demo_")
    try:
        for number in range(60):
            n_sectors = rng.randint(1, 14)
            tail = rng.choice([0, 0, 1, 2, 3, 5, 1177, 2351])
            data = bytes(rng.getrandbits(8)
                         for _ in range(n_sectors*2352 + tail))
            lines = make_cue(rng, n_sectors)
            directory = os.path.join(base, "case%03d" % number)
            os.mkdir(directory)
            with open(os.path.join(directory, "disc.bin"), "wb") as f:
                f.write(data)
            cue_path = os.path.join(directory, "disc.cue")
            with open(cue_path, "w", encoding="ascii") as f:
                f.writelines(lines)
            expected = run_export(original.parse_cue_sheet, cue_path,
                                  os.path.join(directory, "out_a"))
            actual = run_export(live.parse_cue_sheet, cue_path,
                                os.path.join(directory, "out_b"))
            count += 1
            if expected != actual:
                failures += 1
                print("MISMATCH (export)", number)
                continue
            starts = []
            in_track = False
            for line in lines:
                words = line.split()
                if words[0].upper() == "TRACK":
                    in_track = True
                elif words[0].upper() == "INDEX" and in_track:
                    mm, ss, ff = (int(x) for x in words[2].split(":"))
                    starts.append(((mm*60 + ss)*75 + ff)*2352)
                    in_track = False
            if starts[-1] > len(data):
                continue
            ends = starts[1:] + [len(data) - (len(data) - starts[-1]) % 4]
            exported = [line[len("Exported "):]
                        for line in actual[1].splitlines()
                        if line.startswith("Exported ")]
            count += 1
            if len(exported) != len(starts) \
                    or sorted(exported) != sorted(actual[0]):
                failures += 1
                print("MISMATCH (file list)", number, exported)
                continue
            joined = b""
            for name, start, end in zip(exported, starts, ends):
                blob = actual[0][name]
                if blob[44:] != data[start:end]:
                    failures += 1
                    print("MISMATCH (tiling)", number, name)
                    break
                joined += blob[44:]
            else:
                if joined != data[starts[0]:ends[-1]]:
                    failures += 1
                    print("MISMATCH (concatenation)", number)
    finally:
        shutil.rmtree(base, ignore_errors=True)
    return count, failures


def main():
    total = 0
    failed = 0
    for part in (regex_cases, parser_cases, export_cases):
        count, failures = part()
        print(part.__name__, "cases:", count, "failures:", failures)
        total += count
        failed += failures
    print("total cases:", total, "failures:", failed)
    return 1 if failed else 0


if __name__ == "__main__":
    sys.exit(main())
