"""Equivalence demo for r22: structural.Image.make_export_name and its class
regexes (the per-image name normalisation that the `make_export_names`
routine installed by ls_action / export_samples_to_wav runs, through
Image.sanitize_names_general, on every sibling list that Traversable.children
realizes - so it runs, and may fail, before `ls` can list or resolve
anything; its results are the directory / file names used on export).

Compared with an inline copy of the ORIGINAL method and regexes:
  1. Image._INVALID_FILE_NAME against the original pattern: sub(" ", s) for
     every string below, plus flags / number of groups.
  2. Image.make_export_name(name, is_file) for every string of length <= 4
     over a 12-letter alphabet (blank, tab, newline, dot, dash, hash, quote,
     slash, colon, letter, digit, underscore), for longer hand-written names
     (unicode letters / digits / blanks, combining marks, control
     characters, str subclasses) and for non-strings, with is_file given as
     True, False, omitted, 0, 1, None, "", "x", [] : same value and type or
     the same exception type and message.
  3. on subclasses overriding make_safe_name: it is still called exactly
     once, first, with the raw name (and an exception it raises still
     propagates before anything else happens); a subclass bringing its own
     _INVALID_FILE_NAME / _SAFE_ENDING is still honoured.
  4. Image.make_export_names_routine / make_safe_names_routine on sibling
     lists (files and directories) with colliding export names.
  5. end to end: stdout of ls_action on a synthetic image tree, and the
     export_path() of every leaf reached through parse_path, with the
     original method patched onto Image versus the tree as it is.
Exit 0 when all agree, else 1.
"""
import contextlib
from dataclasses import dataclass
import io
import itertools
import re
import sys

import smpl_extract.actions as actions
from smpl_extract.base import ElementTypes
from smpl_extract.elements import LeafElement
from smpl_extract.structural import Image
from smpl_extract.structural import Traversable


# ---- ORIGINAL implementation (verbatim) ------------------------------------
ORIG_SAFE_ENDING = re.compile(r"(.+?)\s*\.?\s*$")
ORIG_INVALID_FILE_NAME = re.compile(r"[^\w\-\.# ]+")


def orig_make_export_name(self, name, is_file=True) -> str:
    export_name = self.make_safe_name(name)
    export_name = self._INVALID_FILE_NAME.sub(" ", name).strip()
    match = self._SAFE_ENDING.match(export_name)
    if match:
        export_name = match.group(1)
    if len(export_name) <= 0:
        export_name = "0"
    match = re.match(r"\w", export_name)
    if not match:
        export_name = "0" + export_name
    if not is_file:
        if export_name[-1] in (".", "-"):
            export_name = export_name + "0"
    return export_name


@contextlib.contextmanager
def original_world():
    saved = {k: Image.__dict__[k] for k in
             ("_SAFE_ENDING", "_INVALID_FILE_NAME", "make_export_name")}
    Image._SAFE_ENDING = ORIG_SAFE_ENDING
    Image._INVALID_FILE_NAME = ORIG_INVALID_FILE_NAME
    Image.make_export_name = orig_make_export_name
    try:
        yield
    finally:
        for key, value in saved.items():
            setattr(Image, key, value)


class OrigImage(Image):
    """An Image whose export-name code is the ORIGINAL one."""
    name = "orig"
    type_name = "orig"
    _SAFE_ENDING = ORIG_SAFE_ENDING
    _INVALID_FILE_NAME = ORIG_INVALID_FILE_NAME
    make_export_name = orig_make_export_name


class LiveImage(Image):
    name = "live"
    type_name = "live"


failures = []


def check(label, got, want):
    if got != want:
        failures.append(label)
        if len(failures) <= 20:
            print("MISMATCH", label, "\n   got ", repr(got)[:300],
                  "\n   want", repr(want)[:300])


def outcome(func, *args, **kwargs):
    try:
        result = func(*args, **kwargs)
        return ("ok", type(result).__name__, result)
    except BaseException as exc:  # noqa: B902
        return ("exc", type(exc).__name__, str(exc))


# ---- inputs ---------------------------------------------------------------
ALPHABET = [" ", "\t", "\n", ".", "-", "#", "'", "/", ":", "a", "7", "_"]


class StrSub(str):
    pass


LONG_NAMES = [
    "KICK", "KICK.", "KICK .", "KICK . ", "KICK..", "KICK. .", "KICK-", "-KICK",
    ".KICK", "#KICK", " KICK ", "KICK.WAV", "KICK.wav.", "a.b.c", "...", "---",
    ".-.", "-.", ".-", "- .", "#", "##", "# .", "it's", 'say "x"', "a`b",
    "a/b", "a\\b", "a:b", "A:", "a*b?c", "<>|", "a\x00b", "a\x1fb", "a\x7fb",
    "é", "ß.", "ǆ-", "☃", "☃☃", " ☃ a", "a☃.",
    "٣", "٣.", "Ⅷ", "²", "½-", "a ", " a", "a　",
    "a b", "a\x85b", "á", "́", "́a", "İ.", "ﬁ-",
    "名前", "名前.", "-名前-", "a\nb", "a\n", "\na", "a.\n", "a\n.", "a\r\n",
    "a.\n.\n", "x" * 300, "." * 50 + "a", "a" + "." * 50, "a" + " ." * 20,
    "KICK L", "KICK (2)", "KICK (2) L", "(2)", "[x]", "{x}", "x=y", "x+y",
    "x@y", "x&y", "x,y", "x;y", "x~y", "x%y", "x$y", "x!y", "^x", "x^", "\\-",
    "\\.", "a\\-b", "a\\.b", "]", "[", "a]b", "a-.#b", "a -.# b",
    StrSub("sub."), StrSub(""), StrSub(" -"),
]

NON_STRINGS = [None, b"bytes.", bytearray(b"ba"), 5, ["x"], ("y",), 1.5,
               object()]

_OMIT = object()
IS_FILE_VALUES = [_OMIT, True, False, 0, 1, None, "", "x", []]


def all_names():
    for size in range(0, 5):
        for letters in itertools.product(ALPHABET, repeat=size):
            yield "".join(letters)
    for name in LONG_NAMES:
        yield name


def call(image, name, is_file):
    if is_file is _OMIT:
        return outcome(image.make_export_name, name)
    return outcome(image.make_export_name, name, is_file)


# ---- 1 + 2 ------------------------------------------------------------------
def check_method():
    live_regex = Image._INVALID_FILE_NAME
    check("flags", live_regex.flags, ORIG_INVALID_FILE_NAME.flags)
    check("groups", live_regex.groups, ORIG_INVALID_FILE_NAME.groups)
    check("ending pattern", Image._SAFE_ENDING.pattern,
          ORIG_SAFE_ENDING.pattern)
    live, orig = LiveImage(lambda c: []), OrigImage(lambda c: [])
    count = 0
    for name in all_names():
        count += 1
        check("sub %r" % name, live_regex.sub(" ", name),
              ORIG_INVALID_FILE_NAME.sub(" ", name))
        values = IS_FILE_VALUES if (count % 50 == 0 or len(name) > 4
                                    or len(name) < 3) else IS_FILE_VALUES[:3]
        for is_file in values:
            check("export %r %r" % (name, is_file), call(live, name, is_file),
                  call(orig, name, is_file))
        check("export kw %r" % name,
              outcome(live.make_export_name, name=name, is_file=False),
              outcome(orig.make_export_name, name=name, is_file=False))
    # every code point that might be treated differently by the two classes
    for code in itertools.chain(range(0, 0x3000), range(0xFE00, 0x10000),
                                range(0x1D7C0, 0x1D800)):
        ch = chr(code)
        for name in (ch, "a" + ch, ch + "a", "a" + ch + "."):
            check("cp %r" % name, call(live, name, False),
                  call(orig, name, False))
    for bad in NON_STRINGS:
        for is_file in (True, False):
            check("bad %r" % (bad,), call(live, bad, is_file),
                  call(orig, bad, is_file))
    return count


# ---- 3 ------------------------------------------------------------------------
def check_overrides():
    def build(base_method):
        class Recording(Image):
            name = "rec"
            type_name = "rec"

            def __init__(self):
                Traversable.__init__(self, lambda c: [])
                self.log = []

            def make_safe_name(self, name, is_file=True):
                self.log.append(("safe", name, is_file))
                if name == "boom":
                    raise KeyError("boom from make_safe_name")
                return "IGNORED"

        class OwnRegex(Image):
            name = "own"
            type_name = "own"
            _INVALID_FILE_NAME = re.compile(r"[aeiou]+")
            _SAFE_ENDING = re.compile(r"(.+?)X*$")

        if base_method is not None:
            Recording.make_export_name = base_method
            OwnRegex.make_export_name = base_method
        return Recording, OwnRegex

    live_rec, live_own = build(None)
    orig_rec, orig_own = build(orig_make_export_name)
    for name in ["KICK.", "boom", "", "-", ".x", 5, None]:
        for is_file in (True, False):
            a, b = live_rec(), orig_rec()
            check("rec %r" % (name,), (call(a, name, is_file), a.log),
                  (call(b, name, is_file), b.log))
    for name in ["audioXX", "aeiou", "xaXe-", "XXX", ""]:
        a = live_own(lambda c: [])
        b = orig_own(lambda c: [])
        check("own %r" % name, call(a, name, False), call(b, name, False))


# ---- 4 + 5 ----------------------------------------------------------------------
@dataclass
class FakeLeaf(LeafElement):
    name: str = ""
    type_name: str = "Leaf"
    size: int = 7
    type_id = ElementTypes.SampleEntry


class FakeImage(Image):
    name = "Fake Image"
    type_name = "Fake Image"
    type_id = ElementTypes.DirectoryEntry

    def __init__(self, spec):
        Traversable.__init__(self, lambda ctx: self._make(spec, ctx, self))

    @staticmethod
    def _make(spec, ctx, parent):
        routines = ctx["_elem_routines"]
        made = []
        for entry in spec:
            if isinstance(entry, tuple):
                raw, sub = entry
                holder = [None]
                node = Traversable(
                    (lambda sub, holder: lambda c: FakeImage._make(
                        sub, c, holder[0]))(sub, holder),
                    routines=routines, path=[raw], parent=parent,
                    type_name="Dir",
                )
                holder[0] = node
                node.name = raw
            else:
                node = FakeLeaf(name=entry)
                node._parent = parent
                node._path = [entry]
            made.append(node)
        return made


SIBLING_LISTS = [
    ["KICK.", "KICK", "KICK .", "KICK-", "-KICK", "KICK/", "KICK:"],
    [".", "-", "", " ", "..", "#", "0", "0", "0."],
    ["a.b", "a:b", "a/b", "a b", "a'b", "a.b."],
    ["☃", "☃☃", "?", "??", "0☃"],
    [],
]


def assigned(names, as_directories):
    image = FakeImage([])
    report = []
    for routine in (image.make_export_names_routine,
                    image.make_safe_names_routine):
        if as_directories:
            nodes = []
            for n in names:
                node = Traversable(lambda c: [], path=[n], type_name="Dir")
                node.name = n
                nodes.append(node)
        else:
            nodes = [FakeLeaf(name=n) for n in names]
        try:
            routine(nodes)
            report.append([(x.safe_name, x.export_name) for x in nodes])
        except BaseException as exc:  # noqa: B902
            report.append(("exc", type(exc).__name__, str(exc)))
    return report


def check_routines():
    for names in SIBLING_LISTS:
        for as_directories in (False, True):
            now = assigned(names, as_directories)
            with original_world():
                before = assigned(names, as_directories)
            check("routine %r %r" % (names, as_directories), now, before)
    pool = ["K.", "K", "K-", "-K", ".", "K .", ""]
    for combo in itertools.product(pool, repeat=3):
        for as_directories in (False, True):
            now = assigned(list(combo), as_directories)
            with original_world():
                before = assigned(list(combo), as_directories)
            check("routine %r %r" % (combo, as_directories), now, before)


RAW_SPEC = [
    ("VOL.", ["KICK.", "KICK", "KICK .", "KICK-", "-KICK", "#1", ".hidden"]),
    ("VOL", ["x", "x", "x.", "x (2)", "x-"]),
    ("VOL-", ["a'b", "ab", "a b", "a:b", "a/b"]),
    ("-", ["", "", " ", "''", ".", "-"]),
    (".", ["☃", "?"]),
    "VOL",
    "LEAF.",
    "LEAF",
    "LEAF .",
    "  padded.  ",
]


def printed_names(listing):
    names = []
    rows = listing.splitlines()[2:]
    if listing.endswith("\n\n") and rows and rows[-1] == "":
        rows = rows[:-1]
    for line in rows:
        names.append(line[:20].rstrip() if len(line) >= 20 else line.rstrip())
    return names


def ls_text(image, path):
    buf = io.StringIO()
    with contextlib.redirect_stdout(buf):
        actions.ls_action(image, path)
    return buf.getvalue()


def ls_paths():
    top = printed_names(ls_text(FakeImage(RAW_SPEC), ""))
    paths = ["", " ", "/", "\\", "nope", "VOL (9)", ".", "-", "0", "0-0"]
    for name in top:
        paths += [name, " " + name + " ", name + "/", name.lower(),
                  name + "/nope", name[:-1], name + " (2)"]
        listing = ls_text(FakeImage(RAW_SPEC), name)
        if listing[:4] == "Item":
            for child in printed_names(listing):
                paths += [name + "/" + child, name + "\\" + child + "\\",
                          name + "/" + child + "."]
    return paths


def export_paths(paths):
    image = FakeImage(RAW_SPEC)
    image.set_routines({
        "make_safe_names": image.make_safe_names_routine,
        "make_export_names": image.make_export_names_routine,
    })
    report = []
    for path in paths:
        try:
            node = image.parse_path(path)
            report.append((path, node.safe_name, node.export_name,
                           node.export_path()))
        except BaseException as exc:  # noqa: B902
            report.append((path, type(exc).__name__, str(exc)))
    return report


def check_end_to_end():
    paths = ls_paths()
    for path in paths:
        now = ls_text(FakeImage(RAW_SPEC), path)
        with original_world():
            before = ls_text(FakeImage(RAW_SPEC), path)
        check("ls %r" % path, now, before)
    now = export_paths(paths)
    with original_world():
        before = export_paths(paths)
    check("export paths", now, before)
    return len(paths)


def main():
    n_names = check_method()
    check_overrides()
    check_routines()
    n_paths = check_end_to_end()
    if failures:
        print("FAILED: %d mismatches" % len(failures))
        return 1
    print("OK: %d names, %d ls paths, all agree" % (n_names, n_paths))
    return 0


if __name__ == "__main__":
    sys.exit(main())
