"""Equivalence demo for r1 (SectorStream._read).

Compares smpl_extract.util.sector.SectorStream (possibly refactored) against
an inline copy of the ORIGINAL _read on many (sector_length, stream size,
backing file length incl. truncated, position, read size) combinations.
Compared: returned bytes / raised exception (type + message), the exact
sequence of seek/read calls issued on the shared parent stream, and the
final position of the wrapper.
"""
import io
import random
import sys

from smpl_extract.util.sector import SectorStream
from smpl_extract.util.stream import AttemptToReadBeyondBuffer
from smpl_extract.util.stream import SectorReadError
from smpl_extract.util.stream import StreamWrapper
from io import SEEK_SET


class OriginalSectorStream(StreamWrapper):
    """Verbatim copy of the original implementation."""

    def __init__(self, parent_stream, size, sector_length, position=0,
                 buffer_length=0x1000):
        super().__init__(parent_stream, size=size, position=position,
                         buffer_length=buffer_length)
        self.sector_length = sector_length

    def _get_address_given_sector_index(self, sector_index, offset):
        sector_address = sector_index * self.sector_length
        parent_address = sector_address + offset
        return parent_address

    def _translate_address(self, content_address):
        if content_address >= self.end_of_file:
            return self.end_of_file
        sector_index = content_address // self.sector_length
        sector_offset = content_address % self.sector_length
        partition_address = self._get_address_given_sector_index(
            sector_index, sector_offset)
        return partition_address

    def _read_sector(self, sector_index, offset, size):
        if offset + size > self.sector_length:
            raise AttemptToReadBeyondBuffer("Reading too much")
        start_address = self._get_address_given_sector_index(
            sector_index, offset)
        self.substream.seek(start_address, SEEK_SET)
        result = self.substream.read(size)
        return result

    def _read(self, size):
        if size <= 0:
            return bytes()

        remaining_size = size

        initial_sector_index = self.position // self.sector_length
        initial_sector_offset = self.position % self.sector_length

        # read partial initial sector
        if initial_sector_offset + size <= self.sector_length:
            initial_read_size = size
        else:
            initial_read_size = self.sector_length - initial_sector_offset
        result = self._read_sector(
            initial_sector_index,
            initial_sector_offset,
            initial_read_size
        )
        remaining_size -= initial_read_size

        # read full size middle sectors
        i = 1
        while remaining_size > self.sector_length:
            result += self._read_sector(
                initial_sector_index + i,
                0,
                self.sector_length
            )
            remaining_size -= self.sector_length
            i += 1

        # read partial final sector
        final_sector_index = initial_sector_index + i
        if remaining_size > 0:
            result += self._read_sector(
                final_sector_index,
                0,
                remaining_size
            )

        if len(result) != size:
            raise SectorReadError(f"Wanted {size}, read {len(result)}.")

        return result


class LoggingBytesIO(io.BytesIO):
    def __init__(self, data):
        super().__init__(data)
        self.log = []

    def seek(self, offset, whence=SEEK_SET):
        r = super().seek(offset, whence)
        self.log.append(("seek", offset, whence, r))
        return r

    def read(self, size=-1):
        r = super().read(size)
        self.log.append(("read", size, len(r)))
        return r

    def tell(self):
        r = super().tell()
        self.log.append(("tell", r))
        return r


def run(cls, data, size, sector_length, ops):
    f = LoggingBytesIO(data)
    out = []
    try:
        s = cls(f, size, sector_length)
    except Exception as e:  # pragma: no cover
        return [("ctor-exc", type(e).__name__, str(e))], f.log
    for op in ops:
        try:
            if op[0] == "seek":
                r = s.seek(op[1], op[2])
            elif op[0] == "read":
                r = s.read(op[1])
            elif op[0] == "_read":
                r = s._read(op[1])
            elif op[0] == "setpos":
                s.position = op[1]
                r = None
            else:
                raise AssertionError(op)
            out.append(("ok", r, s.position, s.true_size))
        except Exception as e:
            out.append(("exc", type(e).__name__, str(e), s.position,
                        s.true_size))
    return out, f.log


def main():
    rng = random.Random(1515)
    failures = 0
    cases = 0

    def check(data, size, sector_length, ops):
        nonlocal failures, cases
        cases += 1
        a = run(OriginalSectorStream, data, size, sector_length, ops)
        b = run(SectorStream, data, size, sector_length, ops)
        if a != b:
            failures += 1
            if failures <= 5:
                print("MISMATCH", len(data), size, sector_length, ops)
                print("  orig:", a)
                print("  new :", b)

    # exhaustive small grid, direct _read at every position
    for sector_length in (1, 2, 3, 4, 7, 8):
        full = 5 * sector_length
        payload = bytes((i * 37 + 11) & 0xFF for i in range(full))
        for cut in range(0, full + 1):
            data = payload[:cut]
            for pos in range(0, full + 2):
                for n in (-3, -1, 0, 1, 2, sector_length - 1, sector_length,
                          sector_length + 1, 2 * sector_length,
                          2 * sector_length + 1, 3 * sector_length,
                          full - pos, full - pos + 1, full + 5):
                    check(data, full, sector_length,
                          [("setpos", pos), ("_read", n)])

    # public read()/seek() sequences on bigger, truncated streams
    for _ in range(3000):
        sector_length = rng.choice((1, 2, 5, 16, 64, 512, 0x800, 0x2000))
        nsect = rng.randint(0, 6)
        full = nsect * sector_length + rng.choice((0, 0, rng.randint(0, 9)))
        payload = bytes(rng.getrandbits(8) for _ in range(min(full, 70000)))
        cut = rng.choice((len(payload), rng.randint(0, len(payload)),
                          max(0, len(payload) - 1),
                          (len(payload) // max(1, sector_length))
                          * sector_length))
        data = payload[:cut]
        size = rng.choice((full, full, full + 3, max(0, full - 1), 0))
        ops = []
        for _ in range(rng.randint(1, 8)):
            k = rng.random()
            if k < 0.3:
                ops.append(("seek", rng.randint(-5, full + 5),
                            rng.choice((0, 1, 2))))
            elif k < 0.85:
                ops.append(("read", rng.choice((
                    None, -1, 0, 1, sector_length, sector_length + 1,
                    3 * sector_length, rng.randint(0, full + 10), 0x1000))))
            else:
                ops.append(("_read", rng.randint(-2, full + 10)))
        check(data, size, sector_length, ops)

    # degenerate sector length: both must fail identically
    check(b"abcdef", 6, 0, [("read", 3)])
    check(b"abcdef", 6, 0, [("_read", 0), ("_read", 2)])

    print(f"{cases} cases, {failures} mismatches")
    return 1 if failures else 0


if __name__ == "__main__":
    sys.exit(main())
