"""Equivalence demo for r2 (PassthroughTranscoder / PipelineTranscoder
__next__ in smpl_extract/transcoder.py).

The ORIGINAL __next__ bodies are pasted below.  Both versions are driven
over the same inputs: SectorStream-backed sample data on complete and
truncated backing files, plus scripted fake streams that raise
SectorReadError / other exceptions / return short or empty buffers at the
n-th read.  Compared: every chunk produced, how iteration ends
(StopIteration or which exception, with message), behaviour of further
next() calls after the end, and the log of reads on the underlying streams.
"""
from dataclasses import dataclass
import io
import numpy as np
import random
import sys
from typing import List

from smpl_extract import transcoder as T
from smpl_extract.data_streams import DataStream
from smpl_extract.data_streams import Endianess
from smpl_extract.data_streams import StreamEncoding
from smpl_extract.transcoder import TranscodePipelineStruct
from smpl_extract.transcoder import make_transcoder
from smpl_extract.transcoder import resize_buffer
from smpl_extract.util.sector import SectorStream
from smpl_extract.util.stream import SectorReadError


_DEFAULT_BUFFER_SIZE = 0x1000


# ---------------------------------------------------------------- originals
@dataclass
class OriginalPassthroughTranscoder:
    data_stream:    DataStream
    buffer_size:    int = _DEFAULT_BUFFER_SIZE

    def __iter__(self):
        return self

    def __next__(self):
        stream = self.data_stream.stream
        try:
            buffer = stream.read(self.buffer_size)
        except SectorReadError as e:
            raise StopIteration

        frame_size = self.data_stream.frame_size
        buffer = resize_buffer(buffer, frame_size)

        if len(buffer) <= 0:
            raise StopIteration

        return buffer


@dataclass
class OriginalPipelineTranscoder:
    data_streams: List[DataStream]
    pipeline: TranscodePipelineStruct

    def __iter__(self):
        return self

    def __next__(self):
        try:
            channels = self.pipeline.f_decode(self.data_streams)
        except SectorReadError:  # TODO: Create more robust handling for this
            raise StopIteration
        if any(len(x) <= 0 for x in channels):
            raise StopIteration

        for process in self.pipeline.processes:
            f_process = process[1]
            channels = f_process(channels)

        result = self.pipeline.f_encode(channels)
        return result
# --------------------------------------------------------------------------


class CustomError(Exception):
    pass


class LoggingBytesIO(io.BytesIO):
    def __init__(self, data, log, tag):
        super().__init__(data)
        self.log = log
        self.tag = tag

    def seek(self, offset, whence=0):
        r = super().seek(offset, whence)
        self.log.append((self.tag, "seek", offset, whence))
        return r

    def read(self, size=-1):
        r = super().read(size)
        self.log.append((self.tag, "read", size, len(r)))
        return r


class ScriptedStream(io.IOBase):
    """read() follows a script: bytes to return or an exception to raise."""

    def __init__(self, script, log, tag):
        self.script = list(script)
        self.log = log
        self.tag = tag
        self.n = 0

    def seek(self, offset, whence=0):
        self.log.append((self.tag, "seek", offset, whence))
        return 0

    def read(self, size=-1):
        self.log.append((self.tag, "read", size, self.n))
        item = self.script[self.n] if self.n < len(self.script) else b""
        self.n += 1
        if isinstance(item, BaseException):
            raise item
        if isinstance(item, int):
            return bytes((i * 7 + item) & 0xFF for i in range(min(item, size)))
        return item


def drain(tr, extra_next=3, limit=10000):
    """Collect everything observable from iterating a transcoder."""
    out = []
    it = iter(tr)
    assert it is tr
    ended = 0
    for _ in range(limit):
        try:
            chunk = next(it)
            out.append(("chunk", bytes(chunk)))
        except StopIteration as e:
            out.append(("stop", e.value,
                        type(e.__context__).__name__ if e.__context__
                        is not None else None))
            ended += 1
        except Exception as e:
            out.append(("exc", type(e).__name__, str(e)))
            ended += 1
        if ended > extra_next:
            break
    return out


ENCODINGS = [
    StreamEncoding(Endianess.LITTLE, 2, 1, True),
    StreamEncoding(Endianess.BIG, 2, 1, True),
    StreamEncoding(Endianess.LITTLE, 1, 1, False),
    StreamEncoding(Endianess.LITTLE, 2, 2, True),
    StreamEncoding(Endianess.BIG, 2, 2, True),
    StreamEncoding(Endianess.LITTLE, 4, 1, True),
]


def build(which, stream_factories, encodings, dest):
    """Build original or current transcoder over fresh streams."""
    log = []
    streams = [
        DataStream(f(log, i), enc)
        for i, (f, enc) in enumerate(zip(stream_factories, encodings))
    ]
    try:
        cur = make_transcoder(streams, dest)
    except Exception as e:
        return None, log, ("make-exc", type(e).__name__, str(e))
    if which == "current":
        return cur, log, None
    if isinstance(cur, T.PassthroughTranscoder):
        return OriginalPassthroughTranscoder(
            cur.data_stream, buffer_size=cur.buffer_size), log, None
    assert isinstance(cur, T.PipelineTranscoder)
    return OriginalPipelineTranscoder(cur.data_streams, cur.pipeline), \
        log, None


def observe(which, stream_factories, encodings, dest):
    tr, log, err = build(which, stream_factories, encodings, dest)
    if tr is None:
        return (err, log)
    kind = type(tr).__name__.replace("Original", "")
    return (kind, drain(tr), log)


def sector_factory(payload, cut, size, sector_length):
    def f(log, tag):
        return SectorStream(LoggingBytesIO(payload[:cut], log, tag), size,
                            sector_length)
    return f


def scripted_factory(script):
    def f(log, tag):
        return ScriptedStream(script, log, tag)
    return f


def main():
    rng = random.Random(15152)
    cases = 0
    failures = 0

    def check(factories, encodings, dest):
        nonlocal cases, failures
        cases += 1
        a = observe("original", factories, encodings, dest)
        b = observe("current", factories, encodings, dest)
        if a != b:
            failures += 1
            if failures <= 5:
                print("MISMATCH", encodings, dest)
                print("  orig:", repr(a)[:600])
                print("  new :", repr(b)[:600])

    # 1. SectorStream data, complete and truncated at many offsets
    for _ in range(1500):
        sector_length = rng.choice((4, 16, 64, 512, 0x800, 0x2000))
        nstreams = rng.choice((1, 1, 2))
        if nstreams == 1:
            enc = [rng.choice(ENCODINGS)]
        else:
            enc = [rng.choice([e for e in ENCODINGS
                               if e.num_interleaved_channels == 1])
                   for _ in range(2)]
        nchan = sum(max(1, e.num_interleaved_channels) for e in enc)
        if rng.random() < 0.4 and nstreams == 1:
            dest = enc[0]                       # passthrough
        else:
            dest = StreamEncoding(rng.choice(list(Endianess)),
                                  rng.choice((1, 2, 4)), nchan, True)
        facs = []
        for _e in enc:
            full = rng.randint(0, 3) * 0x1000 + rng.randint(0, 3000)
            payload = bytes(rng.getrandbits(8) for _ in range(full))
            cut = rng.choice((full, rng.randint(0, full),
                              (full // sector_length) * sector_length,
                              max(0, full - 1), 0))
            size = rng.choice((full, full, full + 7))
            facs.append(sector_factory(payload, cut, size, sector_length))
        check(facs, enc, dest)

    # 2. scripted streams: errors / short / empty reads at the n-th call
    def rand_script():
        script = []
        for _ in range(rng.randint(0, 6)):
            k = rng.random()
            if k < 0.55:
                script.append(0x1000)
            elif k < 0.7:
                script.append(rng.randint(0, 0x1000))
            elif k < 0.8:
                script.append(b"")
            elif k < 0.92:
                script.append(SectorReadError("Wanted 4096, read 12."))
            elif k < 0.96:
                script.append(CustomError("boom"))
            else:
                script.append(StopIteration("inner"))
        return script

    for _ in range(3000):
        nstreams = rng.choice((1, 1, 2))
        if nstreams == 1:
            enc = [rng.choice(ENCODINGS)]
        else:
            enc = [rng.choice([e for e in ENCODINGS
                               if e.num_interleaved_channels == 1])
                   for _ in range(2)]
        nchan = sum(max(1, e.num_interleaved_channels) for e in enc)
        if rng.random() < 0.5 and nstreams == 1:
            dest = enc[0]
        else:
            dest = StreamEncoding(rng.choice(list(Endianess)),
                                  rng.choice((1, 2, 4)), nchan, True)
        facs = [scripted_factory(rand_script()) for _ in enc]
        check(facs, enc, dest)

    # 3. hand-made pipelines whose f_decode itself raises
    def mk_pipeline(events):
        state = {"n": 0}

        def f_decode(streams):
            i = state["n"]
            state["n"] += 1
            ev = events[i] if i < len(events) \
                else [np.zeros(0, dtype="int16")]
            if isinstance(ev, BaseException):
                raise ev
            return ev
        return TranscodePipelineStruct(
            f_decode,
            [("neg", lambda ch: [-c for c in ch])],
            lambda ch: np.vstack(ch).tobytes() if ch else b"",
        )

    for _ in range(500):
        events = []
        for _ in range(rng.randint(0, 5)):
            k = rng.random()
            if k < 0.5:
                n = rng.randint(1, 5)
                events.append([np.arange(n, dtype="int16"),
                               np.arange(n, dtype="int16") * 2])
            elif k < 0.65:
                events.append([np.arange(3, dtype="int16"),
                               np.zeros(0, dtype="int16")])
            elif k < 0.75:
                events.append([])
            elif k < 0.9:
                events.append(SectorReadError("short"))
            else:
                events.append(CustomError("decode failed"))
        cases += 1
        a = drain(OriginalPipelineTranscoder([], mk_pipeline(events)))
        b = drain(T.PipelineTranscoder([], mk_pipeline(events)))
        if a != b:
            failures += 1
            print("MISMATCH (hand-made pipeline)", events, a, b)

    print(f"{cases} cases, {failures} mismatches")
    return 1 if failures else 0


if __name__ == "__main__":
    sys.exit(main())
