"""Equivalence demo for r13: structural.Image._add_count_to_name (regex pattern
hoisted to a module-level constant, match handling extracted into the private
helper Image._split_stereo_suffix, string building re-spelled) versus an
inline copy of the ORIGINAL implementation.

1. the compiled Image._STEREO_FILENAME still has the original pattern/flags;
2. _add_count_to_name(name, count) is compared on a large grid of names
   (AKAI / ASCII alphabets, near-collisions, L/R suffixes, white space of all
   kinds, empty string) and counts;
3. the whole renaming + pairing pipeline (make_export_names_routine followed
   by combine_stereo_routine) is run on random multisets of sibling names in
   random order, once with the current method and once with the original one
   patched in; export names, pairing structure and channel order must agree.
Exit 0 when everything agrees, 1 otherwise.
"""
import itertools
import io
import random
import re
import sys

from smpl_extract.data_streams import DataStream
from smpl_extract.data_streams import StreamEncoding
from smpl_extract.generalized.sample import Sample
from smpl_extract.structural import Image


# --------------------------------------------------------------------------
# ORIGINAL implementation (verbatim)
# --------------------------------------------------------------------------
_ORIGINAL_STEREO_FILENAME = re.compile(r"(.*?)([\s-]+)(L|R)\s*$")


def original_add_count_to_name(self, name, count):
    count_str = "(" + str(count) + ")"
    delim = " "
    tokens = [name, count_str]
    match = _ORIGINAL_STEREO_FILENAME.match(name)
    if match:
        tokens = [
            match.group(1),
            count_str,
            match.group(3)
        ]
    new_name = delim.join(tokens)
    return new_name


failures = []


def check(cond, what):
    if not cond:
        failures.append(what)
        if len(failures) <= 20:
            print("MISMATCH:", what)


def make_image():
    return Image(lambda ctx: [])


# --------------------------------------------------------------------------
# 1. regex object
# --------------------------------------------------------------------------
check(Image._STEREO_FILENAME.pattern == _ORIGINAL_STEREO_FILENAME.pattern,
      "pattern text differs")
check(Image._STEREO_FILENAME.flags == _ORIGINAL_STEREO_FILENAME.flags,
      "pattern flags differ")
check(Image._STEREO_FILENAME.groups == 3, "group count differs")


# --------------------------------------------------------------------------
# 2. direct comparison of _add_count_to_name
# --------------------------------------------------------------------------
def outcome(f, *args):
    try:
        return ("ok", f(*args))
    except Exception as e:  # noqa
        return ("exc", type(e).__name__, str(e))


image = make_image()
stems = ["", "A", "PIANO", "PIANO 1", "STR-", "L", "R", "-L", " R", "LL",
         "BASS L", "BASS-R", "X  ", "a\tb", "line\nbreak", "äö",
         "KICK (2)", "L R", "R-L", "-", " ", "DRUM.L", "DRUM_L", "l", "r"]
seps = ["", " ", "-", "  ", " -", "- ", "--", "\t", "\n", " - - ", " ",
        "_", "."]
ends = ["", "L", "R", "l", "r", "LR", "L ", "R  ", "L\n", "R\t", "L.", "RL",
        "L-", "R -"]
names = [a + b + c for a, b, c in itertools.product(stems, seps, ends)]
counts = [0, 1, 2, 3, 9, 10, 99, 12345, -1, True]
n_direct = 0
for name in names:
    for count in counts:
        got = outcome(image._add_count_to_name, name, count)
        want = outcome(original_add_count_to_name, image, name, count)
        check(got == want, f"_add_count_to_name({name!r}, {count!r}): "
                           f"{got!r} != {want!r}")
        n_direct += 1

rng = random.Random(20240513)
alphabet = "ABLR lr-_ .#()0129\t"
for _ in range(20000):
    name = "".join(rng.choice(alphabet) for _ in range(rng.randint(0, 12)))
    count = rng.randint(0, 300)
    got = outcome(image._add_count_to_name, name, count)
    want = outcome(original_add_count_to_name, image, name, count)
    check(got == want, f"_add_count_to_name({name!r}, {count!r}): "
                       f"{got!r} != {want!r}")
    n_direct += 1

# wrong argument types raise the same exception
for bad in (None, 5, b"AB L"):
    got = outcome(image._add_count_to_name, bad, 2)
    want = outcome(original_add_count_to_name, image, bad, 2)
    check(got == want, f"bad name {bad!r}: {got!r} != {want!r}")


# --------------------------------------------------------------------------
# 3. renaming + pairing pipeline
# --------------------------------------------------------------------------
def make_samples(sibling_names):
    samples = []
    for i, name in enumerate(sibling_names):
        stream = DataStream(io.BytesIO(bytes([i % 256]) * 4),
                            StreamEncoding(sample_width=2))
        samples.append(Sample(name=name, data_streams=[stream],
                              _path=["VOL", name]))
    return samples


def run_pipeline(sibling_names, use_original):
    saved = Image.__dict__["_add_count_to_name"]
    if use_original:
        Image._add_count_to_name = original_add_count_to_name
    try:
        img = make_image()
        samples = make_samples(sibling_names)
        try:
            renamed = img.make_export_names_routine(samples)
            safe = img.make_safe_names_routine(samples)
            combined = img.combine_stereo_routine(renamed)
        except Exception as e:  # noqa
            return ("exc", type(e).__name__, str(e))
        index_of = {id(s.data_streams[0]): i for i, s in enumerate(samples)}
        return (
            "ok",
            renamed is samples, safe is samples,
            [s.export_name for s in samples],
            [s.safe_name for s in samples],
            [(c.export_name, c.name, c.num_channels, int(c.channel_config),
              [index_of[id(d)] for d in c.data_streams])
             for c in combined],
        )
    finally:
        Image._add_count_to_name = saved


pool_stems = ["PIANO", "PIANO 1", "STR", "STR-", "A", "L", "BASS  ", "K\"CK",
              "PIANO (2)", "PIANO (2) L", "X*Y", ""]
pool_suffix = ["", " L", " R", "-L", "-R", "  L", " -R", "L", "R", " l",
               " L ", "-L.", " (2)", " (2) L", " (3) R"]
n_pipeline = 0
for _ in range(4000):
    k = rng.randint(0, 9)
    sibling_names = [rng.choice(pool_stems) + rng.choice(pool_suffix)
                     for _ in range(k)]
    if sibling_names and rng.random() < 0.5:   # force duplicates
        sibling_names += rng.choices(sibling_names, k=rng.randint(1, 4))
    rng.shuffle(sibling_names)
    got = run_pipeline(sibling_names, use_original=False)
    want = run_pipeline(sibling_names, use_original=True)
    check(got == want, f"pipeline {sibling_names!r}:\n  {got!r}\n  {want!r}")
    n_pipeline += 1

# every order of a small near-collision directory
base = ["PAD L", "PAD R", "PAD L", "PAD", "PAD (2) L"]
for perm in set(itertools.permutations(base)):
    got = run_pipeline(list(perm), use_original=False)
    want = run_pipeline(list(perm), use_original=True)
    check(got == want, f"pipeline {perm!r}")
    n_pipeline += 1

print(f"direct comparisons: {n_direct}, pipeline comparisons: {n_pipeline}, "
      f"mismatches: {len(failures)}")
sys.exit(1 if failures else 0)
