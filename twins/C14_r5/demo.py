"""Equivalence demo for r5 (smpl_extract/akai/file.py, FileAdapter._parse).

The live FileAdapter._parse is compared against an inline copy of the ORIGINAL
implementation.  Two campaigns:

 1. scripted: FileConstruct is replaced by a fake whose parse_stream either
    returns a sentinel or raises one of many exception types (the four that are
    converted, subclasses of them, and many that must propagate untouched);
    compared: return identity, exception type/args, __cause__ identity,
    __context__ identity, __suppress_context__, and the exact call made to
    parse_stream (stream identity, keyword arguments);
 2. real: the genuine FileConstruct on random / truncated byte strings with
    every FileType (and bogus types) in the context; compared: outcome type,
    parsed value repr, final stream position.

Exit 0 when everything agrees, 1 otherwise.
"""
import io
import random
import re
import struct
import sys

from construct.core import ConstructError
from construct.core import Pass
from construct.core import StreamError
from construct.lib.containers import Container

import smpl_extract.akai.file as file_mod
from smpl_extract.akai.data_types import FileType
from smpl_extract.akai.data_types import InvalidCharacter
from smpl_extract.util.fat import RequestedInvalidSector
from smpl_extract.util.stream import SectorReadError


# ---------------------------------------------------------------- original
def orig_parse(self, stream, context, path):
    del path  # Unused
    try:
        file = file_mod.FileConstruct.parse_stream(
            stream,
            **context
        )
    except (
            RequestedInvalidSector,
            InvalidCharacter,
            SectorReadError,
            struct.error
    ) as e:
        raise ConstructError from e

    return file


failures = []
checked = 0
_ADDRESS = re.compile(r" at 0x[0-9a-fA-F]+")


def stable_repr(value):
    # object addresses differ between two otherwise identical parses
    return _ADDRESS.sub(" at 0x?", repr(value))


def check(cond, msg):
    global checked
    checked += 1
    if not cond:
        failures.append(msg)


# ---------------------------------------------------------------- campaign 1
class SubInvalidSector(RequestedInvalidSector):
    pass


class SubInvalidCharacter(InvalidCharacter):
    pass


class SubSectorReadError(SectorReadError):
    pass


class SubStructError(struct.error):
    pass


class Unrelated(Exception):
    pass


class BaseOnly(BaseException):
    pass


def make_exc_factories():
    result = [
        lambda: RequestedInvalidSector(),
        lambda: RequestedInvalidSector("sector 17"),
        lambda: InvalidCharacter(),
        lambda: InvalidCharacter(0x7F),
        lambda: SectorReadError(),
        lambda: SectorReadError("short", 3),
        lambda: struct.error("unpack requires a buffer of 2 bytes"),
        lambda: SubInvalidSector(1),
        lambda: SubInvalidCharacter(2),
        lambda: SubSectorReadError(3),
        lambda: SubStructError(4),
        lambda: ConstructError("already"),
        lambda: StreamError("stream", path="p"),
        lambda: KeyError("k"),
        lambda: IndexError(5),
        lambda: ValueError("v"),
        lambda: TypeError("t"),
        lambda: UnicodeDecodeError("ascii", b"\xff", 0, 1, "bad"),
        lambda: EOFError(),
        lambda: OSError(5, "io"),
        lambda: Unrelated("u"),
        lambda: StopIteration(),
        lambda: ZeroDivisionError(),
        lambda: BaseOnly("b"),
        lambda: KeyboardInterrupt(),
        lambda: MemoryError(),
        lambda: RecursionError(),
        lambda: AssertionError("a"),
        lambda: NotImplementedError(),
    ]
    return result


class FakeFileConstruct:

    def __init__(self, action):
        self.action = action
        self.calls = []
        self.raised = None

    def parse_stream(self, *args, **kwargs):
        self.calls.append((args, dict(kwargs)))
        kind, payload = self.action
        if kind == "return":
            return payload
        exc = payload()
        # give the exception a pre-existing context / cause sometimes
        self.raised = exc
        raise exc


def run(fn, adapter, stream, context, path):
    try:
        value = fn(adapter, stream, context, path)
    except BaseException as e:  # noqa: B902 - we want everything
        return ("raise", e)
    return ("return", value)


def describe_exc(e, raised):
    return (
        type(e),
        e.args,
        e.__cause__ is raised,
        e.__context__ is raised,
        e is raised,
        e.__suppress_context__,
        type(e.__cause__),
        type(e.__context__),
    )


def scripted_campaign():
    real_fc = file_mod.FileConstruct
    sentinel_values = [
        None, 0, "", [], {}, object(), Container(a=1), ("x",), False,
        b"bytes", 3.5,
    ]
    contexts = [
        {},
        {"file_type": FileType.SAMPLE_S1000},
        {"file_type": FileType.PROGRAM_S3000, "name": "ABC", "_elem_name": "n"},
        Container(file_type=7, extra=[1, 2]),
        Container(_=Container(x=1), file_type=None),
    ]
    paths = ["", "(parsing)", "a -> b"]
    actions = [("return", v) for v in sentinel_values]
    actions += [("raise", f) for f in make_exc_factories()]
    live = file_mod.FileAdapter._parse
    try:
        for action in actions:
            for context in contexts:
                for path in paths:
                    outcomes = []
                    for fn in (orig_parse, live):
                        fake = FakeFileConstruct(action)
                        file_mod.FileConstruct = fake
                        adapter = file_mod.FileAdapter(object(), Pass)
                        stream = io.BytesIO(b"0123456789")
                        ctx_copy = type(context)(context)
                        kind, res = run(fn, adapter, stream, ctx_copy, path)
                        call_shape = [
                            (len(a), a[0] is stream if a else None, kw)
                            for a, kw in fake.calls
                        ]
                        if kind == "return":
                            desc = ("return", res is action[1], repr(res))
                        else:
                            desc = ("raise",) + describe_exc(res, fake.raised)
                        outcomes.append(
                            (desc, call_shape, dict(ctx_copy), stream.tell())
                        )
                    check(
                        outcomes[0] == outcomes[1],
                        f"scripted mismatch action={action} ctx={context} "
                        f"path={path!r}: {outcomes[0]} != {outcomes[1]}"
                    )
    finally:
        file_mod.FileConstruct = real_fc

    # expected values, independent of the inline copy: converted vs untouched
    try:
        for factory in make_exc_factories():
            fake = FakeFileConstruct(("raise", factory))
            file_mod.FileConstruct = fake
            adapter = file_mod.FileAdapter(object(), Pass)
            kind, res = run(live, adapter, io.BytesIO(b""), {}, "")
            probe = factory()
            converted = isinstance(probe, (
                RequestedInvalidSector, InvalidCharacter, SectorReadError,
                struct.error
            ))
            check(kind == "raise", "expected raise")
            if converted:
                check(
                    type(res) is ConstructError and res.__cause__ is fake.raised,
                    f"{type(probe).__name__} should be converted"
                )
            else:
                check(
                    res is fake.raised,
                    f"{type(probe).__name__} should propagate unchanged"
                )
    finally:
        file_mod.FileConstruct = real_fc


# ---------------------------------------------------------------- campaign 2
def real_campaign():
    rng = random.Random(0xC14)
    live = file_mod.FileAdapter._parse
    file_types = list(FileType) + [None, 0, 255, "x"]
    blobs = [b"", b"\x00", b"\x03" + b"\x00" * 200, b"\xff" * 400]
    for _ in range(40):
        n = rng.choice([0, 1, 2, 10, 50, 149, 150, 151, 192, 400, 1000])
        blobs.append(bytes(rng.getrandbits(8) for _ in range(n)))
    for _ in range(20):
        n = rng.choice([150, 192, 400])
        blobs.append(bytes(rng.choice(b"\x00\x01\x02\x03\x0a ") for _ in range(n)))
    for blob in blobs:
        for ft in file_types:
            outcomes = []
            for fn in (orig_parse, live):
                adapter = file_mod.FileAdapter(None, Pass)
                stream = io.BytesIO(blob)
                ctx = Container(file_type=ft, _elem_name="F", name="F")
                kind, res = run(fn, adapter, stream, ctx, "(p)")
                if kind == "return":
                    desc = ("return", type(res).__name__, stable_repr(res))
                else:
                    desc = (
                        "raise", type(res), str(res),
                        type(res.__cause__), str(res.__cause__),
                        type(res.__context__),
                        res.__suppress_context__,
                    )
                outcomes.append((desc, stream.tell()))
            check(
                outcomes[0] == outcomes[1],
                f"real mismatch ft={ft} len={len(blob)}: "
                f"{outcomes[0]} != {outcomes[1]}"
            )


def main():
    scripted_campaign()
    real_campaign()
    # remaining public surface of the adapter
    adapter = file_mod.FileAdapter("SAT", Pass)
    check(adapter.sat == "SAT", "sat attribute")
    check(adapter.flagbuildnone is True, "flagbuildnone")
    check(adapter._sizeof({}, "") == 0, "_sizeof")
    try:
        adapter._build(None, None, {}, "")
        check(False, "_build must raise")
    except NotImplementedError:
        check(True, "")
    if failures:
        print(f"FAIL: {len(failures)} of {checked} checks")
        for f in failures[:20]:
            print("  ", f[:600])
        return 1
    print(f"OK: {checked} checks agree")
    return 0


if __name__ == "__main__":
    sys.exit(main())
