"""Equivalence demo for r21 (smpl_extract/util/sector.py,
SectorStream._read_sector).

An inline copy of the ORIGINAL _read_sector is compared with the live method:
  A. direct calls on SectorStream / FileStream / Segment objects over a
     logging parent stream, for a grid and a random spread of
     (sector_index, offset, size) including offset+size == sector_length,
     one more, one less, zero and negative sizes, sector indexes beyond the
     sector list: same bytes or same exception, same seek/read log on the
     parent, same state of the wrapper afterwards;
  B. whole reads (read / seek / readall) through the three classes with the
     live method and with the original patched in: same bytes, same log;
  C. whole images exported to WAV with the live method and with the original
     patched in: same stdout, same files, same bytes.
Exit 0 = all agree."""
import contextlib
import hashlib
import io
import os
import random
import shutil
import sys
import tempfile
from io import SEEK_CUR
from io import SEEK_END
from io import SEEK_SET

from smpl_extract.akai.sat import Segment
from smpl_extract.util.fat import FileStream
from smpl_extract.util.sector import SectorStream
from smpl_extract.util.stream import AttemptToReadBeyondBuffer
from smpl_extract.util.stream import SectorReadError
from smpl_extract.util.stream import StreamOffset


# ---- inline copy of the ORIGINAL implementation -------------------------
def orig_read_sector(
        self, 
        sector_index: int, 
        offset: int, 
        size: int
)->bytes:
    if offset + size > self.sector_length:
        raise AttemptToReadBeyondBuffer("Reading too much")

    start_address = self._get_address_given_sector_index(
        sector_index, 
        offset
    )

    self.substream.seek(start_address, SEEK_SET)
    result = self.substream.read(size)
    return result
# -------------------------------------------------------------------------

# ---- independent AKAI S1000/S3000 image writer (logical model -> bytes) ----
import struct as _struct

SECTOR = 0x2000
SAT_CNT = 11386
HEADER_SECTORS = 3
MAGIC = b"".join(((3333 * i) & 0xFFFF).to_bytes(2, "little") for i in range(1, 98))


def akai_name(text):
    out = bytearray()
    for ch in text.upper().ljust(12)[:12]:
        if "0" <= ch <= "9":
            out.append(ord(ch) - ord("0"))
        elif "A" <= ch <= "Z":
            out.append(ord(ch) - ord("A") + 0x0B)
        else:
            out.append({" ": 0x0A, "#": 0x25, "+": 0x26, "-": 0x27, ".": 0x28}[ch])
    return bytes(out)


def sample_file(name, type_byte, rate, pcm, play_start, play_end, loops=(), loop_type=2):
    """140 byte header followed by the 16 bit words."""
    head = bytearray()
    head += bytes([type_byte, 0, 60])
    head += akai_name(name)
    head += bytes(4)
    head += bytes([loop_type, 0, 0])
    head += bytes(4)
    head += _struct.pack("<III", len(pcm) // 2, play_start, play_end)
    table = list(loops) + [(0, 0, 0, 0)] * (8 - len(loops))
    for at, fine, coarse, duration in table:
        head += _struct.pack("<IHIH", at, fine, coarse, duration)
    head += bytes(4)
    head += _struct.pack("<H", rate)
    assert len(head) == 140, len(head)
    return bytes(head) + pcm


def build_partition(rnd, volumes, layout="random", dir_style="chain", spare=6):
    """volumes: list of (name, type 1|3, [(file name, file type byte, content bytes)])"""
    needed = HEADER_SECTORS
    for _name, _type, files in volumes:
        needed += 2 + (24 * (len(files) + 1) + SECTOR - 1) // SECTOR
        for _fname, _ftype, content in files:
            needed += max(1, (len(content) + SECTOR - 1) // SECTOR)
    total = needed + spare
    sat = [0] * SAT_CNT
    for s in range(HEADER_SECTORS):
        sat[s] = 0x4000
    sectors = {}
    free = list(range(HEADER_SECTORS, total))

    def take(count, how):
        nonlocal free
        if how == "contiguous":
            for at in range(len(free) - count + 1):
                run = free[at:at + count]
                if run[-1] - run[0] == count - 1:
                    break
            else:
                raise AssertionError("no contiguous run")
            chosen = run
        elif how == "ascending":
            chosen = sorted(rnd.sample(free, count))
        elif how == "descending":
            chosen = sorted(rnd.sample(free, count), reverse=True)
        else:
            chosen = rnd.sample(free, count)
        free = [s for s in free if s not in chosen]
        return chosen

    def store(chain, payload):
        for n, s in enumerate(chain):
            sectors[s] = payload[n * SECTOR:(n + 1) * SECTOR].ljust(SECTOR, b"\x00")

    # directories first (a reserved run needs a non reserved sector behind it)
    dir_chains = []
    for _name, _type, files in volumes:
        count = (24 * (len(files) + 1) + SECTOR - 1) // SECTOR
        if dir_style == "reserved":
            chain = take(count + 1, "contiguous")
            guard = chain.pop()
            free.append(guard)
            free.sort()
            for s in chain:
                sat[s] = 0x4000
            # keep the guard sector out of later reserved runs: leave it free
            free.remove(guard)
        else:
            chain = take(count, "contiguous" if dir_style == "chain" else "random")
            for a, b in zip(chain, chain[1:]):
                sat[a] = b
            sat[chain[-1]] = 0xC000
        dir_chains.append(chain)

    volume_table = bytearray()
    for (name, vtype, files), dir_chain in zip(volumes, dir_chains):
        table = bytearray()
        for fname, ftype, content in files:
            count = max(1, (len(content) + SECTOR - 1) // SECTOR)
            how = layout if layout != "mixed" else rnd.choice(
                ["contiguous", "ascending", "descending", "random"])
            chain = take(count, how)
            for a, b in zip(chain, chain[1:]):
                sat[a] = b
            sat[chain[-1]] = 0xC000
            store(chain, content)
            table += akai_name(fname) + bytes(4) + bytes([ftype])
            table += len(content).to_bytes(3, "little")
            table += _struct.pack("<H", chain[0]) + bytes(2)
        end = bytearray(24)
        end[8:10] = (0xD747).to_bytes(2, "little")
        table += end
        store(dir_chain, bytes(table))
        volume_table += akai_name(name) + _struct.pack("<HH", vtype, dir_chain[0])
    volume_table += bytes(16 * (100 - len(volumes)))

    head = _struct.pack("<H", total) + b"\x00\x00" + MAGIC
    check = total // 128 - 1
    head += bytes([0x55 if check % 2 == 0 else 0xD5, (check // 2 + 0xBA) & 0xFF]) + b"\x2F\x00"
    head += bytes(volume_table)
    head += b"".join(_struct.pack("<H", x) for x in sat)
    assert len(head) == HEADER_SECTORS * SECTOR - 2, len(head)
    body = bytearray(head.ljust(HEADER_SECTORS * SECTOR, b"\x00"))
    for s in range(HEADER_SECTORS, total):
        body += sectors.get(s, bytes(SECTOR))
    return bytes(body)
# ---------------------------------------------------------------------------

# ---- shared demo plumbing --------------------------------------------------
failures = 0
checks = 0


def check(label, a, b):
    global failures, checks
    checks += 1
    if a != b:
        failures += 1
        if failures <= 10:
            print("MISMATCH", label, "\n   live:", repr(a)[:600], "\n   orig:", repr(b)[:600])


def describe_exc(e):
    cause = e.__cause__
    return (
        type(e).__module__ + "." + type(e).__qualname__,
        str(e),
        None if cause is None else (type(cause).__qualname__, str(cause)),
        e.__suppress_context__,
    )


def outcome(f):
    try:
        return ("ok", f())
    except BaseException as e:  # noqa - demo compares every exception
        return ("raise", describe_exc(e))


def snapshot_dir(base):
    found = {}
    for root, dirs, files in os.walk(base):
        dirs.sort()
        rel = os.path.relpath(root, base)
        found[rel + "/"] = None
        for name in sorted(files):
            with open(os.path.join(root, name), "rb") as fh:
                found[os.path.join(rel, name)] = hashlib.sha256(fh.read()).hexdigest()
    return found


def export_image(image_bytes, scratch, tag):
    from smpl_extract.actions import export_samples_to_wav
    from smpl_extract.akai.image import AkaiImageParser
    dest = os.path.join(scratch, tag)
    os.makedirs(dest)
    captured = io.StringIO()
    with contextlib.redirect_stdout(captured):
        result = outcome(lambda: export_samples_to_wav(
            AkaiImageParser(io.BytesIO(image_bytes)), dest))
    return (result, captured.getvalue(), snapshot_dir(dest))


def make_images(rnd):
    """A spread of logical models x allocation layouts x directory styles."""
    def pcm(words):
        return bytes(rnd.getrandbits(8) for _ in range(2 * words))

    images = []
    lengths = [1, 2, 100, 4096 - 70, 4096 - 69, 4096 - 71, 2 * 4096 - 70,
               3 * 4096 - 70, 5000, 9000, 13000]
    for layout in ("contiguous", "ascending", "descending", "random", "mixed"):
        for dir_style in ("chain", "reserved", "scattered"):
            parts = []
            for p in range(rnd.choice([1, 2, 3])):
                volumes = []
                for v in range(rnd.choice([1, 2, 3])):
                    files = []
                    for f in range(rnd.choice([0, 1, 3, 5])):
                        words = rnd.choice(lengths)
                        start = rnd.choice([0, 0, 1, 7, words // 3])
                        end = rnd.choice([words, words, words - 1, max(start, words - 5)])
                        s3000 = rnd.random() < 0.5
                        files.append((
                            "S%d%d%d" % (p, v, f),
                            0xF3 if s3000 else 0x73,
                            sample_file(
                                "S%d" % f, 3 if s3000 else 1,
                                rnd.choice([0, 8000, 22050, 44100, 48000]),
                                pcm(words), start, end
                            )
                        ))
                    if rnd.random() < 0.5:
                        words = rnd.choice(lengths)
                        for side in "LR":
                            files.append((
                                "PAIR -" + side, 0xF3,
                                sample_file("PAIR -" + side, 3, 44100, pcm(words), 0, words)
                            ))
                    volumes.append(("VOL %d%d" % (p, v), rnd.choice([1, 3]), files))
                parts.append(build_partition(rnd, volumes, layout=layout, dir_style=dir_style))
            images.append(((layout, dir_style), b"".join(parts)))
    return images
# ---------------------------------------------------------------------------




class LoggingBytesIO(io.BytesIO):
    def __init__(self, data, log):
        super().__init__(data)
        self.log = log

    def tell(self):
        r = super().tell()
        self.log.append(("tell", r))
        return r

    def seek(self, *a):
        r = super().seek(*a)
        self.log.append(("seek", a, r))
        return r

    def read(self, *a):
        r = super().read(*a)
        self.log.append(("read", a, r))
        return r


LIVE = SectorStream.__dict__["_read_sector"]


@contextlib.contextmanager
def original_patched_in(counter=None):
    def counting(self, sector_index, offset, size):
        if counter is not None:
            counter[0] += 1
        return orig_read_sector(self, sector_index, offset, size)
    saved = SectorStream.__dict__["_read_sector"]
    SectorStream._read_sector = counting
    try:
        yield
    finally:
        SectorStream._read_sector = saved


def make_stream(kind, data, log, sector_length, rnd_seed):
    rnd = random.Random(rnd_seed)
    parent = LoggingBytesIO(data, log)
    sectors = len(data) // sector_length
    if kind == "sector":
        return SectorStream(parent, size=len(data), sector_length=sector_length)
    order = list(range(sectors))
    rnd.shuffle(order)
    order = order[:max(1, sectors - rnd.choice([0, 1, 2]))]
    if kind == "file":
        return FileStream(parent, sector_size=sector_length, sector_list=order)
    if kind == "offset-file":
        inner = StreamOffset(parent, len(data) - 3, 3)
        return FileStream(inner, sector_size=sector_length,
                          sector_list=order[:max(1, len(order) - 1)])
    raise AssertionError(kind)


def state_of(stream):
    return (stream.position, stream.true_size, stream.end_of_file, stream.sector_length,
            getattr(stream, "sector_list", None))


def direct(func, kind, data, sector_length, seed, calls):
    log = []
    stream = make_stream(kind, data, log, sector_length, seed)
    results = []
    for args in calls:
        results.append(outcome(lambda: func(stream, *args)))
        results.append(state_of(stream))
    return results, log


def part_a():
    rnd = random.Random(2101)
    answered = refused = 0
    for case in range(400):
        sector_length = rnd.choice([1, 2, 7, 16, 64])
        sectors = rnd.choice([1, 2, 5, 9])
        data = bytes(rnd.getrandbits(8) for _ in range(sector_length * sectors + rnd.choice([0, 0, 3])))
        kind = rnd.choice(["sector", "file", "offset-file"])
        calls = []
        for _ in range(12):
            offset = rnd.choice([0, 0, 1, sector_length - 1, sector_length, sector_length + 1,
                                 rnd.randrange(0, sector_length + 2), -1])
            size = rnd.choice([0, 1, sector_length - offset, sector_length - offset + 1,
                               sector_length - offset - 1, sector_length, -1, -sector_length,
                               rnd.randrange(0, sector_length + 3)])
            index = rnd.choice([0, 0, 1, sectors - 1, sectors, sectors + 3, -1, -sectors - 1,
                                rnd.randrange(0, sectors + 1)])
            calls.append((index, offset, size))
        seed = rnd.random()
        live = direct(LIVE, kind, data, sector_length, seed, calls)
        orig = direct(orig_read_sector, kind, data, sector_length, seed, calls)
        check(("direct", case, kind, sector_length, calls), live, orig)
        for r in live[0][::2]:
            if r[0] == "ok":
                answered += 1
            else:
                refused += 1
    # the real AKAI sector length, exact boundary
    data = bytes(random.Random(5).getrandbits(8) for _ in range(3 * 0x2000))
    for offset, size in ((0, 0x2000), (1, 0x2000 - 1), (1, 0x2000), (0x2000, 0), (0x2000, 1),
                         (0x1FFF, 1), (0x1FFF, 2), (0, 0x2001), (140, 0x2000 - 140)):
        for index in (0, 1, 2, 3):
            def run(func):
                log = []
                seg = Segment(LoggingBytesIO(data, log), [2, 0, 1])
                return outcome(lambda: func(seg, index, offset, size)), state_of(seg), log
            check(("segment", index, offset, size), run(LIVE), run(orig_read_sector))
    print("direct calls answered:", answered, "refused:", refused)
    check("part A is not vacuous", answered > 800 and refused > 800, True)


def session(kind, data, sector_length, seed, script):
    log = []
    stream = make_stream(kind, data, log, sector_length, seed)
    results = []
    for op, arg in script:
        if op == "read":
            results.append(outcome(lambda: stream.read(arg)))
        elif op == "seek":
            results.append(outcome(lambda: stream.seek(*arg)))
        else:
            results.append(outcome(stream.readall))
        results.append(state_of(stream))
    return results, log


def part_b():
    rnd = random.Random(2102)
    counter = [0]
    read_bytes = 0
    for case in range(300):
        sector_length = rnd.choice([1, 4, 16, 64])
        sectors = rnd.choice([1, 3, 8])
        data = bytes(rnd.getrandbits(8) for _ in range(sector_length * sectors))
        kind = rnd.choice(["sector", "file", "offset-file"])
        script = []
        for _ in range(10):
            op = rnd.choice(["read", "read", "read", "seek", "readall"])
            if op == "read":
                script.append((op, rnd.choice([0, 1, sector_length, sector_length + 1,
                                               3 * sector_length, len(data), None, -1,
                                               rnd.randrange(0, len(data) + 5)])))
            elif op == "seek":
                script.append((op, (rnd.randrange(-len(data), len(data) + 3),
                                    rnd.choice([SEEK_SET, SEEK_CUR, SEEK_END]))))
            else:
                script.append((op, None))
        seed = rnd.random()
        live = session(kind, data, sector_length, seed, script)
        with original_patched_in(counter):
            orig = session(kind, data, sector_length, seed, script)
        check(("session", case, kind, sector_length, script), live, orig)
        read_bytes += sum(len(r[1]) for r in live[0][::2] if r[0] == "ok" and isinstance(r[1], bytes))
    print("bytes read in sessions:", read_bytes, "| original _read_sector calls:", counter[0])
    check("part B is not vacuous", read_bytes > 5000 and counter[0] > 1000, True)


def part_c(scratch):
    rnd = random.Random(2103)
    exported = 0
    counter = [0]
    for n, (label, image) in enumerate(make_images(rnd)):
        live = export_image(image, scratch, "live%d" % n)
        with original_patched_in(counter):
            orig = export_image(image, scratch, "orig%d" % n)
        check(("export", label), live, orig)
        exported += sum(1 for digest in live[2].values() if digest)
    print("wav files exported per run:", exported, "| original _read_sector calls:", counter[0])
    check("exports are not vacuous", exported > 40, True)
    check("the original method really ran", counter[0] > 500, True)


def main():
    scratch = tempfile.mkdtemp(prefix="r21_demo_")
    try:
        part_a()
        part_b()
        part_c(scratch)
    finally:
        shutil.rmtree(scratch, ignore_errors=True)
    print("checks:", checks, "failures:", failures)
    return 1 if failures or not checks else 0


if __name__ == "__main__":
    sys.exit(main())
