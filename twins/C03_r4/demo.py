"""Equivalence demo for r4: transcoder.resize_buffer and
PassthroughTranscoder.__next__.

Compares the (possibly refactored) code against inline copies of the original
implementation: return values (including object identity for untouched
buffers), exceptions, and the order/size of reads on the underlying stream.
Exit 0 when everything agrees, 1 otherwise.
"""
import io
import random
import sys
from dataclasses import dataclass

from smpl_extract.data_streams import DataStream
from smpl_extract.data_streams import Endianess
from smpl_extract.data_streams import StreamEncoding
from smpl_extract.transcoder import PassthroughTranscoder
from smpl_extract.transcoder import make_transcoder
from smpl_extract.transcoder import resize_buffer
from smpl_extract.util.stream import SectorReadError
from smpl_extract.util.stream import StreamOffset


_DEFAULT_BUFFER_SIZE = 0x1000


def original_resize_buffer(buffer: bytes, frame_size: int) -> bytes:
    if len(buffer) % frame_size != 0:
        num_frames = len(buffer) // frame_size
        true_size = num_frames * frame_size
        buffer = buffer[:true_size]
    return buffer


@dataclass
class OriginalPassthroughTranscoder:
    data_stream:    DataStream
    buffer_size:    int = _DEFAULT_BUFFER_SIZE


    def __iter__(self):
        return self


    def __next__(self):
        stream = self.data_stream.stream
        try:
            buffer = stream.read(self.buffer_size)
        except SectorReadError as e:
            raise StopIteration

        frame_size = self.data_stream.frame_size
        buffer = original_resize_buffer(buffer, frame_size)

        if len(buffer) <= 0:
            raise StopIteration

        return buffer


failures = 0
checked = 0


def report(label, got, want):
    global failures, checked
    checked += 1
    if got != want:
        failures += 1
        print("MISMATCH", label, repr(got)[:200], repr(want)[:200])


# ----------------------------------------------------------------------------
# resize_buffer
# ----------------------------------------------------------------------------
def resize_outcome(fn, buffer, frame_size):
    try:
        result = fn(buffer, frame_size)
    except Exception as e:  # noqa: BLE001
        return ("exc", type(e), str(e))
    same_object = result is buffer
    if isinstance(result, memoryview):
        value = result.tobytes()
    else:
        value = result
    return ("ok", type(result), value, same_object)


rng = random.Random(404)
for length in list(range(0, 70)) + [587, 588, 2348, 2351, 2352, 2353, 4095,
                                    4096, 4097, 9408]:
    data = bytes(rng.randrange(256) for _ in range(length))
    for frame_size in list(range(1, 13)) + [16, 588, 2352, 4096, 10**6]:
        for buffer in (data, bytearray(data), memoryview(data), list(data),
                       tuple(data), data.decode("latin-1")):
            report(
                f"resize {type(buffer).__name__} {length}/{frame_size}",
                resize_outcome(resize_buffer, buffer, frame_size),
                resize_outcome(original_resize_buffer, buffer, frame_size),
            )

# unusual arguments: zero / negative / non-int frame sizes, non-sized buffers
for buffer in (b"", b"abcdefg", b"abcdefgh", bytearray(b"abcde"), None, 5,
               range(10), [1, 2, 3]):
    for frame_size in (0, -1, -2, -3, 2.0, 2.5, True, False, None, "2",
                       2**70):
        report(
            f"resize odd {buffer!r}/{frame_size!r}",
            resize_outcome(resize_buffer, buffer, frame_size),
            resize_outcome(original_resize_buffer, buffer, frame_size),
        )


# ----------------------------------------------------------------------------
# PassthroughTranscoder.__next__
# ----------------------------------------------------------------------------
class ScriptedStream(io.RawIOBase):
    """Stream that returns scripted chunk sizes (short reads) and can raise
    SectorReadError (or another error) on a given read."""

    def __init__(self, data, max_chunk=None, fail_at=None, fail_type=None):
        super().__init__()
        self.data = data
        self.pos = 0
        self.max_chunk = max_chunk
        self.fail_at = fail_at
        self.fail_type = fail_type
        self.log = []

    def read(self, size=-1):
        n_read = sum(1 for x in self.log if x[0] == "read")
        self.log.append(("read", size, self.pos))
        if self.fail_at is not None and n_read == self.fail_at:
            raise self.fail_type("scripted failure")
        if self.max_chunk is not None:
            size = min(size, self.max_chunk)
        result = self.data[self.pos:self.pos + size]
        self.pos += len(result)
        return result

    def seek(self, offset, whence=0):
        self.log.append(("seek", offset, whence))
        if whence == 0:
            self.pos = offset
        elif whence == 1:
            self.pos += offset
        else:
            self.pos = len(self.data) + offset
        return self.pos

    def tell(self):
        self.log.append(("tell", self.pos))
        return self.pos


def drain(transcoder_cls, make_stream, encoding, buffer_size, extra_next=2):
    stream, log_source = make_stream()
    data_stream = DataStream(stream, encoding)
    if buffer_size is None:
        transcoder = transcoder_cls(data_stream)
    else:
        transcoder = transcoder_cls(data_stream, buffer_size=buffer_size)
    events = []
    stops = 0
    for _ in range(10000):
        try:
            chunk = next(transcoder)
            events.append(("chunk", type(chunk), bytes(chunk)))
        except StopIteration as e:
            events.append((
                "stop", e.args, type(e.__context__),
                str(e.__context__) if e.__context__ else None
            ))
            stops += 1
            if stops > extra_next:
                break
        except Exception as e:  # noqa: BLE001
            events.append(("exc", type(e), str(e)))
            break
    return events, list(log_source.log)


def encoding_for(width, channels):
    return StreamEncoding(
        endianess=Endianess.LITTLE,
        sample_width=width,
        num_interleaved_channels=channels,
    )


for case in range(1200):
    length = rng.choice([0, 1, 2, 3, 4, 5, 7, 8, 100, 2351, 2352, 2353, 4096,
                         4097, 8191, 8192, rng.randrange(0, 20000)])
    data = bytes(rng.randrange(256) for _ in range(length))
    width = rng.choice([1, 2, 2, 3, 4])
    channels = rng.choice([1, 2, 2])
    encoding = encoding_for(width, channels)
    buffer_size = rng.choice([None, 1, 3, 4, 5, 64, 588, 2352, 4096, 4098])
    max_chunk = rng.choice([None, None, 1, 3, 5, 1000])
    fail_at = rng.choice([None, None, None, 0, 1, 2, 5])
    fail_type = rng.choice([SectorReadError, SectorReadError, ValueError,
                            OSError])

    def make_scripted():
        s = ScriptedStream(data, max_chunk, fail_at, fail_type)
        return s, s

    report(
        f"passthrough scripted {case}",
        drain(PassthroughTranscoder, make_scripted, encoding, buffer_size),
        drain(OriginalPassthroughTranscoder, make_scripted, encoding,
              buffer_size),
    )

    # the CDDA situation: a StreamOffset window over a shared bin stream
    offset = rng.randrange(0, length + 1)
    size = rng.choice([length - offset, rng.randrange(0, length - offset + 1)])

    def make_window():
        base = ScriptedStream(data)
        return StreamOffset(base, size, offset), base

    report(
        f"passthrough window {case}",
        drain(PassthroughTranscoder, make_window, encoding_for(2, 2),
              buffer_size),
        drain(OriginalPassthroughTranscoder, make_window, encoding_for(2, 2),
              buffer_size),
    )


# ----------------------------------------------------------------------------
# through make_transcoder, against expected values: passthrough of a window
# yields the window truncated to whole 4-byte frames
# ----------------------------------------------------------------------------
for case in range(300):
    length = rng.randrange(0, 30000)
    data = bytes(rng.randrange(256) for _ in range(length))
    offset = rng.randrange(0, length + 1)
    size = length - offset
    if size <= 0:
        continue  # StreamWrapper treats size 0 as unbounded; not a CDDA case
    base = io.BytesIO(data)
    window = StreamOffset(base, size, offset)
    enc = encoding_for(2, 2)
    transcoder = make_transcoder([DataStream(window, enc)], enc)
    report(f"make_transcoder type {case}", type(transcoder).__name__,
           "PassthroughTranscoder")
    out = b"".join(transcoder)
    expected = data[offset:]
    # every 0x1000 read is frame aligned, so only the last one is trimmed
    expected = expected[:len(expected) // 4 * 4]
    report(f"make_transcoder payload {case}", out, expected)

print(f"checked {checked} cases, {failures} mismatches")
sys.exit(1 if failures else 0)
