"""Equivalence demo for r23: get_smpl_chunk_data (smpl_extract/generalized/wav.py)
- the contents of the `smpl` chunk: sample period, MIDI unity note, pitch
fraction and the loop records whose number WavSampleChunkStruct writes as
sample_loop_cnt (chunk size = 36 + 24 x loop count).

An inline copy of the ORIGINAL function (local loop_type_mapping literal, pitch
computed inline) is compared with the tree's function:
 1. exhaustive sweep root key (None, 0..127 and out-of-range bytes) x semitone
    offset x cents offset -> same container (keys, order, value types) or the
    same exception; the chunk built by WavSampleChunkStruct is compared too and
    its size is checked against 36 + 24 x loop count;
 2. loop tables: every loop type (and unknown / unhashable ones), play_cnt,
    repeat_forever, durations (zero-length timed loops are skipped), corner
    values of start/end, many sample rates (0 -> 44100);
 3. odd field values (strings, floats, None, bool ...) in sample_rate, pitch
    offsets, midi_note, loop_regions -> same outcome;
 4. the order in which the sample's attributes are read and MidiNote /
    get_smpl_normalized_pitch are called (logging sample, patched functions),
    also when one of them fails half way;
 5. whole files through export_wav with the tree's function vs. the original
    function patched in, byte for byte, with an independent RIFF walker.
Exit 0 when everything agrees, 1 otherwise.
"""
import io
import itertools
import os
import shutil
import struct
import sys
import tempfile

from smpl_extract.data_streams import DataStream
from smpl_extract.data_streams import Endianess
from smpl_extract.data_streams import StreamEncoding
from smpl_extract.formats.wav import SmpteFormat
from smpl_extract.formats.wav import WavLoopContainer
from smpl_extract.formats.wav import WavLoopType
from smpl_extract.formats.wav import WavSampleChunkContainer
from smpl_extract.formats.wav import WavSampleChunkStruct
from smpl_extract.generalized import wav as gw
from smpl_extract.generalized.sample import LoopRegion
from smpl_extract.generalized.sample import LoopType
from smpl_extract.generalized.sample import Sample
from smpl_extract.midi import MidiNote


# ---- verbatim copy of the original implementation ------------------------
# (get_smpl_normalized_pitch is untouched by the refactoring and is looked up
#  in the module at call time, exactly like the original did)
def get_smpl_normalized_pitch(semi, cents):
    return gw.get_smpl_normalized_pitch(semi, cents)


_DEFAULT_SAMPLE_RATE = 44100
def orig_get_smpl_chunk_data(sample: Sample) -> WavSampleChunkContainer:

    sample_rate = sample.sample_rate
    if sample_rate == 0:
        sample_rate = _DEFAULT_SAMPLE_RATE

    loop_type_mapping = {
        LoopType.FORWARD:       WavLoopType.FORWARD,
        LoopType.ALTERNATING:   WavLoopType.ALTERNATING,
        LoopType.REVERSE:       WavLoopType.REVERSE
    }

    loop_headers = []
    if len(sample.loop_regions):
        for i, loop in enumerate(sample.loop_regions):
            play_cnt = 0
            if loop.play_cnt is not None:
                play_cnt = loop.play_cnt
            elif not loop.repeat_forever and loop.duration is not None:
                loop_duration = loop.duration
                loop_total_duration = (loop.end_sample - loop.start_sample)/sample_rate
                if loop_total_duration == 0:
                    continue
                play_cnt = round(loop_duration/loop_total_duration)

            loop_type = loop_type_mapping.get(
                loop.loop_type,
                WavLoopType.FORWARD
            )

            loop_headers.append(WavLoopContainer(
                cue_id=i,
                loop_type=loop_type,
                start_byte=loop.start_sample,
                end_byte=loop.end_sample,
                fraction=0,
                play_cnt=play_cnt
            ))
    sample_period_nano = (10**9)/sample_rate

    pitch_semi = sample.pitch_offset_semi or 0
    pitch_cents = sample.pitch_offset_cents or 0
    note_pitch_offset, pitch_cents_normalized = get_smpl_normalized_pitch(
        pitch_semi,
        pitch_cents
    )
    midi_note = sample.midi_note or MidiNote.from_string("C4")
    adj_note_pitch = MidiNote.from_midi_byte(
        midi_note.to_midi_byte() + note_pitch_offset
    )
    smpl_header = WavSampleChunkContainer(
        manufacturer=0,
        product=0,
        sample_period=round(sample_period_nano),
        midi_note=adj_note_pitch,
        pitch_fraction=pitch_cents_normalized,
        smpte_format=SmpteFormat.NONE,
        smpte_offset=0,
        sample_loops=loop_headers,
        sampler_data=b""
    )
    return smpl_header
# -------------------------------------------------------------------------
OLD = orig_get_smpl_chunk_data


def NEW(sample):
    return gw.get_smpl_chunk_data(sample)


failures = []
checks = 0


def check(cond, msg):
    global checks
    checks += 1
    if not cond:
        failures.append(msg)
        if len(failures) <= 20:
            print("MISMATCH:", msg[:400])


def outcome(f):
    try:
        r = f()
        return ("ok", type(r).__name__, r)
    except Exception as e:  # noqa: BLE001
        return ("exc", type(e).__name__, str(e))


def plain(x):
    if isinstance(x, dict):
        return (type(x).__name__, [(k, plain(v)) for k, v in dict.items(x)])
    if isinstance(x, (list, tuple)):
        return (type(x).__name__, [plain(v) for v in x])
    return (type(x).__name__, repr(x))


def both(sample_factory, label):
    x = outcome(lambda: plain(NEW(sample_factory())))
    y = outcome(lambda: plain(OLD(sample_factory())))
    check(x == y, "%s: %r vs %r" % (label, x, y))
    bx = outcome(lambda: WavSampleChunkStruct.build(NEW(sample_factory())))
    by = outcome(lambda: WavSampleChunkStruct.build(OLD(sample_factory())))
    check(bx == by, "%s (built chunk): %r vs %r" % (label, bx, by))
    if bx[0] == "ok":
        raw = bx[2]
        cnt = struct.unpack("<I", raw[28:32])[0]
        check(len(raw) == 36 + 24 * cnt, "%s: smpl size" % label)
    return x, bx


# ---- 1. exhaustive pitch sweep ------------------------------------------
def note_or_none(byte):
    if byte is None:
        return None
    return MidiNote.from_midi_byte(byte)


ROOT_KEYS = [None] + list(range(0, 128)) + [-1, 128, 200, 255]
SEMIS = list(range(-50, 51)) + [-128, -127, 127, 128, 255, None]
CENTS = [None, 0, 1, -1, 49, 50, 51, -49, -50, -51, 99, 100, -100, 127, -128]
n_sweep = 0
for root in ROOT_KEYS:
    try:
        note = note_or_none(root)
    except Exception:  # noqa: BLE001
        continue
    for semi in SEMIS:
        for cents in (CENTS if (root is None or root % 12 in (0, 11)
                                or semi in (0, None, -50, 50)) else (0, 7, -7)):
            x, bx = both(lambda: Sample(
                name="p", midi_note=note, pitch_offset_semi=semi,
                pitch_offset_cents=cents), "pitch (%r,%r,%r)" % (root, semi, cents))
            n_sweep += 1
            if bx[0] == "ok":
                total = 50 * (semi or 0) + (cents or 0)
                base = 72 if root is None else root  # "C4" is MIDI byte 72 here
                key, frac = struct.unpack("<II", bx[2][12:20])
                check(key == base + total // 100 and
                      frac == int(round((total % 100) * (float(2**31) / 50))),
                      "expected pitch for (%r,%r,%r): %r %r"
                      % (root, semi, cents, key, frac))

# ---- 2. loop tables -------------------------------------------------------
LOOP_TYPES = list(LoopType) + [0, 1, 2, 3, 4, None, "FORWARD", WavLoopType.REVERSE,
                               True, 2.0, (1,), [1], {}]
RATES = [0, 1, 7, 8000, 22050, 44100, 48000, 96000, 2**32 - 1, 2**32, -1, 0.0, 0.5]
LOOP_FIELDS = [
    dict(), dict(play_cnt=0), dict(play_cnt=1), dict(play_cnt=2**32 - 1),
    dict(play_cnt=2**32), dict(play_cnt=-1), dict(play_cnt=1.5),
    dict(repeat_forever=False), dict(repeat_forever=False, duration=0),
    dict(repeat_forever=False, duration=0.0), dict(repeat_forever=False, duration=1.0),
    dict(repeat_forever=False, duration=0.001), dict(repeat_forever=False, duration=1e9),
    dict(repeat_forever=False, duration=-3.0),
    dict(repeat_forever=True, duration=2.0),
    dict(repeat_forever=False, duration=2.0, play_cnt=9),
    dict(repeat_forever=0, duration=2),
    dict(repeat_forever=False, duration=float("inf")),
    dict(repeat_forever=False, duration=float("nan")),
    dict(repeat_forever=False, duration="1"),
]
SPANS = [(0, 0), (0, 1), (5, 5), (10, 5), (0, 44100), (1, 2**32 - 1), (0, 2**32),
         (-1, 3), (2**32 - 1, 2**32 - 1), (0.5, 2.5), (None, 4), (3, None)]
for loop_type in LOOP_TYPES:
    for rate in (0, 44100, 7):
        for kw in LOOP_FIELDS[:12]:
            both(lambda: Sample(name="l", sample_rate=rate, loop_regions=[
                LoopRegion(3, 90, loop_type=loop_type, **kw)]),
                "loop type %r rate %r %r" % (loop_type, rate, kw))
for rate, kw, span in itertools.product(RATES, LOOP_FIELDS, SPANS):
    both(lambda: Sample(name="l", sample_rate=rate, loop_regions=[
        LoopRegion(span[0], span[1], **kw)]),
        "loop rate %r %r span %r" % (rate, kw, span))
for n_loops, rate in itertools.product((0, 1, 2, 3, 8, 40), (0, 1, 44100)):
    both(lambda: Sample(name="l", sample_rate=rate, loop_regions=[
        LoopRegion(i, i + (i % 4), loop_type=list(LoopType)[i % 3],
                   **LOOP_FIELDS[i % len(LOOP_FIELDS[:17])])
        for i in range(n_loops)]), "table of %d loops rate %r" % (n_loops, rate))
# cue ids keep the position in the table when timed zero-length loops are skipped
x = NEW(Sample(name="l", loop_regions=[
    LoopRegion(1, 2), LoopRegion(4, 4, repeat_forever=False, duration=1.0),
    LoopRegion(5, 9)]))
check([l["cue_id"] for l in x["sample_loops"]] == [0, 2], "cue ids after a skip")

# ---- 3. odd field values --------------------------------------------------
ODD = [None, "", "44100", 1.5, -2.5, True, False, (1,), [2], 10**40, -10**40,
       float("inf"), float("nan"), 1 + 2j, b"1", object]
for field_name in ("sample_rate", "pitch_offset_semi", "pitch_offset_cents",
                   "midi_note", "loop_regions", "num_channels", "name"):
    for val in ODD + [MidiNote(), "C4", MidiNote.from_string("G#8"), 60,
                      LoopRegion(), (LoopRegion(1, 2),), iter([LoopRegion(1, 2)]),
                      {1: LoopRegion()}, [None], [5], [Sample()]]:
        def factory(field_name=field_name, val=val):
            s = Sample(name="odd", loop_regions=[LoopRegion(2, 8)],
                       midi_note=MidiNote.from_midi_byte(64))
            v = val
            if field_name == "loop_regions" and hasattr(val, "__next__"):
                v = iter([LoopRegion(1, 2)])
            setattr(s, field_name, v)
            return s
        x = outcome(lambda: plain(NEW(factory())))
        y = outcome(lambda: plain(OLD(factory())))
        check(x == y, "odd %s=%r: %r vs %r" % (field_name, val, x, y))
for bad in (None, 5, "s", LoopRegion(), object()):
    x, y = outcome(lambda: NEW(bad)), outcome(lambda: OLD(bad))
    check(x == y, "non-sample %r: %r vs %r" % (bad, x, y))


# ---- 4. order of reads and calls -----------------------------------------
LOG = []


class LoggingSample(Sample):
    fail_on = None

    def __getattribute__(self, name):
        if not name.startswith("__"):
            LOG.append(("read", name))
            if name == LoggingSample.fail_on:
                raise RuntimeError("sample." + name)
        return object.__getattribute__(self, name)


class LoggingLoop(LoopRegion):
    def __getattribute__(self, name):
        if not name.startswith("__"):
            LOG.append(("loop", name))
        return object.__getattribute__(self, name)


def traced(func, fail_on, fail_call, fields_kw):
    saved = (gw.get_smpl_normalized_pitch, MidiNote.from_midi_byte,
             MidiNote.from_string, MidiNote.to_midi_byte)
    real_pitch, real_from_byte, real_from_string, real_to_byte = saved

    def pitch(semi, cents):
        LOG.append(("call pitch", semi, cents))
        if fail_call == "pitch":
            raise RuntimeError("pitch")
        return real_pitch(semi, cents)

    def from_byte(cls, byte_in):
        LOG.append(("call from_midi_byte", byte_in))
        if fail_call == "from_midi_byte":
            raise RuntimeError("from_midi_byte")
        return real_from_byte.__func__(cls, byte_in)

    def from_string(cls, text):
        LOG.append(("call from_string", text))
        if fail_call == "from_string":
            raise RuntimeError("from_string")
        return real_from_string.__func__(cls, text)

    def to_byte(self):
        LOG.append(("call to_midi_byte", str(self)))
        if fail_call == "to_midi_byte":
            raise RuntimeError("to_midi_byte")
        return real_to_byte(self)

    sample = LoggingSample(name="t", **fields_kw)
    gw.get_smpl_normalized_pitch = pitch
    MidiNote.from_midi_byte = classmethod(from_byte)
    MidiNote.from_string = classmethod(from_string)
    MidiNote.to_midi_byte = to_byte
    LoggingSample.fail_on = fail_on
    del LOG[:]
    try:
        r = outcome(lambda: plain(func(sample)))
        return r, list(LOG)
    finally:
        LoggingSample.fail_on = None
        gw.get_smpl_normalized_pitch = real_pitch
        MidiNote.from_midi_byte = saved[1]
        MidiNote.from_string = saved[2]
        MidiNote.to_midi_byte = real_to_byte


C5 = MidiNote.from_midi_byte(72)
FIELD_SETS = [
    dict(),
    dict(midi_note=C5, pitch_offset_semi=3, pitch_offset_cents=-20),
    dict(sample_rate=0, loop_regions=[LoggingLoop(1, 5), LoggingLoop(
        2, 2, repeat_forever=False, duration=1.0), LoggingLoop(3, 9, play_cnt=2)]),
    dict(sample_rate="x", midi_note=C5),
    dict(sample_rate=1 + 1j, midi_note=C5),
    dict(pitch_offset_semi="a"),
    dict(midi_note=MidiNote.from_midi_byte(127), pitch_offset_semi=50),
]
for fields_kw, fail_on, fail_call in itertools.product(
        FIELD_SETS,
        (None, "sample_rate", "loop_regions", "pitch_offset_semi",
         "pitch_offset_cents", "midi_note"),
        (None, "pitch", "from_midi_byte", "from_string", "to_midi_byte")):
    x = traced(NEW, fail_on, fail_call, fields_kw)
    y = traced(OLD, fail_on, fail_call, fields_kw)
    check(x == y, "trace (%r, fail_on=%r, fail_call=%r):\n %r\n vs\n %r"
          % (sorted(fields_kw), fail_on, fail_call, x, y))
res, log = traced(NEW, None, None, FIELD_SETS[1])
check([e for e in log if e[0] != "loop"] == [
    ("read", "sample_rate"), ("read", "loop_regions"),
    ("read", "pitch_offset_semi"), ("read", "pitch_offset_cents"),
    ("call pitch", 3, -20), ("read", "midi_note"),
    ("call to_midi_byte", "C4"), ("call from_midi_byte", 73)],
    "expected read order: %r" % (log,))


# ---- 5. whole files ------------------------------------------------------
def pcm(n, seed):
    return bytes((seed * 31 + i * 7) % 256 for i in range(n))


def make_sample(channels, rate, num_frames, num_loops, root, semi, cents):
    data_streams = [DataStream(
        io.BytesIO(pcm(2 * (num_frames + k), 5 + k)),
        StreamEncoding(Endianess.BIG, 2, 1, True)) for k in range(channels)]
    return Sample(
        name="s", sample_rate=rate, num_channels=channels,
        data_streams=data_streams,
        loop_regions=[LoopRegion(i, 9 * i, loop_type=list(LoopType)[i % 3],
                                 **LOOP_FIELDS[(i * 5) % 16])
                      for i in range(num_loops)],
        midi_note=note_or_none(root), pitch_offset_semi=semi,
        pitch_offset_cents=cents)


def with_original(f):
    saved = gw.get_smpl_chunk_data
    gw.get_smpl_chunk_data = OLD
    try:
        return f()
    finally:
        gw.get_smpl_chunk_data = saved


tmp_dir = tempfile.mkdtemp(prefix="r23_demo_")
try:
    n = 0
    for channels, rate, num_frames, num_loops, (root, semi, cents) in \
            itertools.product((1, 2), (0, 1, 22050, 44100, 2**32 - 1), (0, 5, 3000),
                              (0, 1, 2, 9),
                              ((None, None, None), (60, 0, 0), (None, -7, 30),
                               (21, -50, -50), (127, 0, 49), (127, 2, 0),
                               (0, -1, 0), (36, None, -1), (100, 50, 127))):
        n += 1
        args = (channels, rate, num_frames, num_loops, root, semi, cents)
        p1 = os.path.join(tmp_dir, "new%d.wav" % n)
        p2 = os.path.join(tmp_dir, "old%d.wav" % n)
        x = outcome(lambda: gw.export_wav(make_sample(*args), p1))
        y = outcome(lambda: with_original(
            lambda: gw.export_wav(make_sample(*args), p2)))
        check(x == y, "export outcome %r: %r vs %r" % (args, x, y))
        r1, r2 = open(p1, "rb").read(), open(p2, "rb").read()
        check(r1 == r2, "bytes differ for %r" % (args,))
        if x[0] == "ok":
            raw = r1
            check(raw[:4] == b"RIFF" and raw[8:12] == b"WAVE" and
                  struct.unpack("<I", raw[4:8])[0] == len(raw) - 8, "riff header")
            pos, ids = 12, []
            while pos < len(raw):
                cid, size = raw[pos:pos + 4], struct.unpack("<I", raw[pos + 4:pos + 8])[0]
                if cid == b"smpl":
                    cnt = struct.unpack("<I", raw[pos + 36:pos + 40])[0]
                    check(size == 36 + 24 * cnt, "smpl size %r" % (args,))
                if cid == b"fmt ":
                    check(size == 16, "fmt size")
                if cid == b"data":
                    check(size % (2 * channels) == 0, "whole frames")
                ids.append(cid)
                pos += 8 + size
            check(pos == len(raw), "sizes add up %r" % (args,))
            has_smpl = num_loops > 0 or any(v is not None for v in (root, semi, cents))
            check(ids == ([b"fmt ", b"smpl", b"data"] if has_smpl
                          else [b"fmt ", b"data"]), "chunk order %r: %r" % (args, ids))
finally:
    shutil.rmtree(tmp_dir, ignore_errors=True)

print("%d checks, %d failures (%d pitch combinations)"
      % (checks, len(failures), n_sweep))
sys.exit(1 if failures else 0)
