"""Equivalence demo for r17: structural.Image.make_export_name (walrus operator
for the `_SAFE_ENDING` match, the second match tested directly, the nested
`if not is_file: if export_name[-1] in ...` merged into one `and` condition)
versus an inline copy of the ORIGINAL method.

1. direct comparison on a large set of names (exhaustive short strings over a
   near-collision alphabet, random AKAI/ASCII/unicode strings, edge cases)
   for many spellings of `is_file` (True/False/0/1/None/""/objects with a
   counting __bool__), including names that make the method raise;
2. end-to-end: random sibling multisets renamed with
   Image.make_export_names_routine and paired by Image.combine_stereo_routine
   using the current method and the original one: same export names, same
   pairing (names, channel count, identity of the streams, order).
Exit 0 when everything agrees, 1 otherwise.
"""
import itertools
import random
import re
import sys

from smpl_extract.base import ElementTypes
from smpl_extract.data_streams import DataStream
from smpl_extract.generalized.sample import Sample
from smpl_extract.structural import Image


class OriginalImage(Image):
    # verbatim copy of the ORIGINAL method
    def make_export_name(self, name, is_file=True) -> str:
        export_name = self.make_safe_name(name)
        export_name = self._INVALID_FILE_NAME.sub(" ", name).strip()
        match = self._SAFE_ENDING.match(export_name)
        if match:
            export_name = match.group(1)
        if len(export_name) <= 0:
            export_name = "0"
        match = re.match(r"\w", export_name)
        if not match:
            export_name = "0" + export_name
        if not is_file:
            if export_name[-1] in (".", "-"):
                export_name = export_name + "0"
        return export_name


failures = []


def check(cond, what):
    if not cond:
        failures.append(what)
        if len(failures) <= 20:
            print("MISMATCH:", what)


def outcome(func, *args):
    try:
        return ("ok", func(*args))
    except BaseException as e:  # noqa
        return ("exc", type(e), str(e))


class CountingBool:
    def __init__(self, value):
        self.value = value
        self.calls = 0

    def __bool__(self):
        self.calls += 1
        return self.value


class RaisingBool:
    def __bool__(self):
        raise RuntimeError("no truth value")


new_image = Image(lambda ctx: [])
old_image = OriginalImage(lambda ctx: [])

# --------------------------------------------------------------------------
# 1. direct comparison
# --------------------------------------------------------------------------
names = set()
alphabet = ["A", "b", "1", " ", "-", ".", "L", "R", "#", "_", "'", ":", "/",
            "*", "\t", "é"]
for n in range(0, 4):
    for tup in itertools.product(alphabet, repeat=n):
        names.add("".join(tup))
rng = random.Random(1705)
akai = "0123456789 ABCDEFGHIJKLMNOPQRSTUVWXYZ#+-."
ascii_all = "".join(chr(c) for c in range(32, 127))
for _ in range(6000):
    alpha = rng.choice([akai, ascii_all, ascii_all + "ü中\n\r\t\x00"])
    size = rng.randint(0, 14)
    s = "".join(rng.choice(alpha) for _ in range(size))
    names.add(s)
    names.add(s + rng.choice(["-L", "-R", " L", " R", " -L", ".", "-", " .", ". ", ".-", "-.", "..", "--"]))
names.update(["", " ", ".", "-", "..", ". .", " - ", "-.-", "a.", "a-", "a .", "a. ",
              "STRINGS -L", "STRINGS -R", "STRINGS L.", "...L", "---R", "\n", "a\nb.",
              "é.", "é-", "_", "_.", "#", "#-", "0", "0.", "0-"])
names = sorted(names)

is_file_values = [True, False, 0, 1, None, "", "x", [], [0]]
num = 0
for name in names:
    for is_file in is_file_values:
        a = outcome(new_image.make_export_name, name, is_file)
        b = outcome(old_image.make_export_name, name, is_file)
        check(a == b, ("direct", name, is_file, a, b))
        num += 1
    a = outcome(new_image.make_export_name, name)
    b = outcome(old_image.make_export_name, name)
    check(a == b, ("direct default", name, a, b))
    for value in (True, False):
        ca, cb = CountingBool(value), CountingBool(value)
        a = outcome(new_image.make_export_name, name, ca)
        b = outcome(old_image.make_export_name, name, cb)
        check(a == b and ca.calls == cb.calls, ("counting bool", name, value, a, b, ca.calls, cb.calls))
    a = outcome(new_image.make_export_name, name, RaisingBool())
    b = outcome(old_image.make_export_name, name, RaisingBool())
    check(a == b, ("raising bool", name, a, b))

# arguments that make the method raise
for bad in (None, 5, b"bytes-L", ["a"], 1.5, object):
    for is_file in (True, False):
        a = outcome(new_image.make_export_name, bad, is_file)
        b = outcome(old_image.make_export_name, bad, is_file)
        check(a == b, ("bad arg", bad, is_file, a, b))

# the class attributes the method relies on are untouched
check(Image._SAFE_ENDING.pattern == r"(.+?)\s*\.?\s*$", "_SAFE_ENDING")
check(Image._INVALID_FILE_NAME.pattern == r"[^\w\-\.# ]+", "_INVALID_FILE_NAME")


# --------------------------------------------------------------------------
# 2. end-to-end: renaming pass + pairing
# --------------------------------------------------------------------------
class FakeStream:
    pass


class FakeDir:
    type_id = ElementTypes.DirectoryEntry

    def __init__(self, name):
        self.name = name


def make_level(raw_names):
    level = []
    for i, raw in enumerate(raw_names):
        if raw.startswith("D:"):
            level.append(FakeDir(raw[2:]))
        else:
            level.append(Sample(
                name=raw,
                data_streams=[DataStream(FakeStream())],
                _path=["vol", raw]
            ))
    return level


def describe(samples):
    out = []
    for s in samples:
        out.append((
            s.name, s.export_name, s.num_channels, int(s.channel_config),
            tuple(id(d) for d in s.data_streams)
        ))
    return out


stems = ["PIANO", "PIANO 1", "STR", "STR.", "STR-", "A", "L", "R", "", ".", "-", "B'S", "X*Y"]
suffixes = ["", "-L", "-R", " L", " R", " -L", " -R", "--L", ".", "-", " .", ".L", "L", "R"]
for trial in range(1500):
    size = rng.randint(0, 8)
    raw = []
    for _ in range(size):
        n = rng.choice(stems) + rng.choice(suffixes)
        if rng.random() < 0.2:
            n = "D:" + n
        raw.append(n)
    if raw and rng.random() < 0.4:
        raw.append(rng.choice(raw))
    rng.shuffle(raw)

    res = []
    for image in (new_image, old_image):
        level = make_level(raw)
        # same stream ids are not comparable between the two runs: map them
        # to the index of the element they came from
        index_of = {}
        for i, el in enumerate(level):
            if isinstance(el, Sample):
                index_of[id(el.data_streams[0])] = i
        o = outcome(image.make_export_names_routine, level)
        if o[0] == "exc":
            res.append(o)
            continue
        renamed = [(el.name, getattr(el, "_export_name", None)) for el in level]
        samples = [el for el in level if isinstance(el, Sample)]
        o2 = outcome(image.combine_stereo_routine, samples)
        if o2[0] == "exc":
            res.append((renamed, o2))
            continue
        desc = [
            (n, e, c, cfg, tuple(index_of[d] for d in ids))
            for (n, e, c, cfg, ids) in describe(o2[1])
        ]
        res.append((renamed, desc))
    check(res[0] == res[1], ("end-to-end", raw, res[0], res[1]))

print(f"r17 demo: {num} direct comparisons + 1500 renaming/pairing trials, "
      f"{len(failures)} mismatches")
sys.exit(1 if failures else 0)
