"""Equivalence demo for r19 (smpl_extract/formats/wav.py: the declarations of
WavSampleChunkStruct, WavRiffBodyStruct and RiffStruct - the layout every
exported WAV is built with).

Inline copies of the ORIGINAL declarations (written with the `"name" / X` and
`X[n]` operators and with the fields listed directly in Struct(...)) are
compared with the live declarations:
  A. shape: the two declaration trees are walked side by side - same construct
     classes, same field names, same array counts, same flags, same sizeof;
  B. WavSampleChunkStruct: building random headers (0..12 loops, sampler data
     as bytes / list / missing, bad values) gives the same bytes or the same
     exception; parsing random and truncated byte strings gives the same
     container or the same exception;
  C. RiffStruct: random generalized Samples (mono, interleaved stereo, split
     stereo, with and without loops / notes / pitch offsets, empty data, no
     data stream) built through WavSampleAdapter give the same file bytes or
     the same exception, and parsing those bytes back gives the same tree;
  D. whole AKAI images from an independent writer exported to WAV with the
     live declarations and with a builder on the original declarations: same
     stdout, same files, same bytes.
Exit 0 = all agree."""
import contextlib
import hashlib
import io
import os
import random
import shutil
import struct
import sys
import tempfile

from construct.core import Byte
from construct.core import Const
from construct.core import Construct
from construct.core import Enum as EnumConstruct 
from construct.core import ExprAdapter
from construct.core import GreedyBytes
from construct.core import GreedyRange
from construct.core import Int16ul
from construct.core import Int32ul
from construct.core import Lazy
from construct.core import Prefixed
from construct.core import Rebuild
from construct.core import Struct
from construct.core import Switch
from construct.expr import len_
from construct.expr import this

import smpl_extract.formats.wav as live
import smpl_extract.generalized.wav as generalized_wav
from smpl_extract.data_streams import DataStream
from smpl_extract.data_streams import Endianess
from smpl_extract.data_streams import StreamEncoding
from smpl_extract.formats.wav import SmpteFormat
from smpl_extract.formats.wav import WavDataChunkStruct
from smpl_extract.formats.wav import WavFormatChunkStruct
from smpl_extract.formats.wav import WavLoopContainer
from smpl_extract.formats.wav import WavLoopStruct
from smpl_extract.formats.wav import WavLoopType
from smpl_extract.formats.wav import WavRiffChunkType
from smpl_extract.formats.wav import WavSampleChunkContainer
from smpl_extract.generalized.sample import ChannelConfig
from smpl_extract.generalized.sample import LoopRegion
from smpl_extract.generalized.sample import LoopType
from smpl_extract.generalized.sample import Sample
from smpl_extract.generalized.wav import WavSampleAdapter
from smpl_extract.midi import MidiNote


# ---- inline copy of the ORIGINAL declarations ----------------------------
# (WavLoopStruct, WavFormatChunkStruct, WavDataChunkStruct and
#  WavRiffChunkType are not touched by the refactoring and are shared)
OrigWavSampleChunkStruct = Struct(
    "manufacturer"      / Int32ul,
    "product"           / Int32ul,
    "sample_period"     / Int32ul,
    "midi_note"         / ExprAdapter(
                            Int32ul,
                            lambda x,y: MidiNote.from_midi_byte(x),
                            lambda x,y: x.to_midi_byte()  # type: ignore
                        ),
    "pitch_fraction"    / Int32ul,
    "smpte_format"      / EnumConstruct(
                            Int32ul,
                            SmpteFormat
                        ),
    "smpte_offset"      / Int32ul,
    "sample_loop_cnt"   / Rebuild(
        Int32ul,
        len_(this.sample_loops)
    ),
    "sampler_data_size" / Rebuild(
        Int32ul,
        len_(this.sampler_data)
    ),
    "sample_loops"      / WavLoopStruct[this.sample_loop_cnt],
    "sampler_data"      / Byte[this.sampler_data_size],
)


OrigWavRiffChunkStruct = Struct(
    "riff_id"   / WavRiffChunkType,
    "data"      / Prefixed(Int32ul, 
        Switch(this.riff_id, {
            WavRiffChunkType.FMT:  WavFormatChunkStruct,
            WavRiffChunkType.SMPL: OrigWavSampleChunkStruct,
            WavRiffChunkType.DATA: WavDataChunkStruct
        })
    )
)


OrigWavRiffBodyStruct = Struct(
    "fourcc"    / Const(b"WAVE"),
    "chunks"    / GreedyRange(OrigWavRiffChunkStruct)
)


OrigRiffStruct = Struct( 
    "fourcc"    / Const(b"RIFF"),
    "data"      / Prefixed(Int32ul, OrigWavRiffBodyStruct),
)
# -------------------------------------------------------------------------

# ---- independent AKAI S1000/S3000 image writer (logical model -> bytes) ----
import struct as _struct

SECTOR = 0x2000
SAT_CNT = 11386
HEADER_SECTORS = 3
MAGIC = b"".join(((3333 * i) & 0xFFFF).to_bytes(2, "little") for i in range(1, 98))


def akai_name(text):
    out = bytearray()
    for ch in text.upper().ljust(12)[:12]:
        if "0" <= ch <= "9":
            out.append(ord(ch) - ord("0"))
        elif "A" <= ch <= "Z":
            out.append(ord(ch) - ord("A") + 0x0B)
        else:
            out.append({" ": 0x0A, "#": 0x25, "+": 0x26, "-": 0x27, ".": 0x28}[ch])
    return bytes(out)


def sample_file(name, type_byte, rate, pcm, play_start, play_end, loops=(), loop_type=2):
    """140 byte header followed by the 16 bit words."""
    head = bytearray()
    head += bytes([type_byte, 0, 60])
    head += akai_name(name)
    head += bytes(4)
    head += bytes([loop_type, 0, 0])
    head += bytes(4)
    head += _struct.pack("<III", len(pcm) // 2, play_start, play_end)
    table = list(loops) + [(0, 0, 0, 0)] * (8 - len(loops))
    for at, fine, coarse, duration in table:
        head += _struct.pack("<IHIH", at, fine, coarse, duration)
    head += bytes(4)
    head += _struct.pack("<H", rate)
    assert len(head) == 140, len(head)
    return bytes(head) + pcm


def build_partition(rnd, volumes, layout="random", dir_style="chain", spare=6):
    """volumes: list of (name, type 1|3, [(file name, file type byte, content bytes)])"""
    needed = HEADER_SECTORS
    for _name, _type, files in volumes:
        needed += 2 + (24 * (len(files) + 1) + SECTOR - 1) // SECTOR
        for _fname, _ftype, content in files:
            needed += max(1, (len(content) + SECTOR - 1) // SECTOR)
    total = needed + spare
    sat = [0] * SAT_CNT
    for s in range(HEADER_SECTORS):
        sat[s] = 0x4000
    sectors = {}
    free = list(range(HEADER_SECTORS, total))

    def take(count, how):
        nonlocal free
        if how == "contiguous":
            for at in range(len(free) - count + 1):
                run = free[at:at + count]
                if run[-1] - run[0] == count - 1:
                    break
            else:
                raise AssertionError("no contiguous run")
            chosen = run
        elif how == "ascending":
            chosen = sorted(rnd.sample(free, count))
        elif how == "descending":
            chosen = sorted(rnd.sample(free, count), reverse=True)
        else:
            chosen = rnd.sample(free, count)
        free = [s for s in free if s not in chosen]
        return chosen

    def store(chain, payload):
        for n, s in enumerate(chain):
            sectors[s] = payload[n * SECTOR:(n + 1) * SECTOR].ljust(SECTOR, b"\x00")

    # directories first (a reserved run needs a non reserved sector behind it)
    dir_chains = []
    for _name, _type, files in volumes:
        count = (24 * (len(files) + 1) + SECTOR - 1) // SECTOR
        if dir_style == "reserved":
            chain = take(count + 1, "contiguous")
            guard = chain.pop()
            free.append(guard)
            free.sort()
            for s in chain:
                sat[s] = 0x4000
            # keep the guard sector out of later reserved runs: leave it free
            free.remove(guard)
        else:
            chain = take(count, "contiguous" if dir_style == "chain" else "random")
            for a, b in zip(chain, chain[1:]):
                sat[a] = b
            sat[chain[-1]] = 0xC000
        dir_chains.append(chain)

    volume_table = bytearray()
    for (name, vtype, files), dir_chain in zip(volumes, dir_chains):
        table = bytearray()
        for fname, ftype, content in files:
            count = max(1, (len(content) + SECTOR - 1) // SECTOR)
            how = layout if layout != "mixed" else rnd.choice(
                ["contiguous", "ascending", "descending", "random"])
            chain = take(count, how)
            for a, b in zip(chain, chain[1:]):
                sat[a] = b
            sat[chain[-1]] = 0xC000
            store(chain, content)
            table += akai_name(fname) + bytes(4) + bytes([ftype])
            table += len(content).to_bytes(3, "little")
            table += _struct.pack("<H", chain[0]) + bytes(2)
        end = bytearray(24)
        end[8:10] = (0xD747).to_bytes(2, "little")
        table += end
        store(dir_chain, bytes(table))
        volume_table += akai_name(name) + _struct.pack("<HH", vtype, dir_chain[0])
    volume_table += bytes(16 * (100 - len(volumes)))

    head = _struct.pack("<H", total) + b"\x00\x00" + MAGIC
    check = total // 128 - 1
    head += bytes([0x55 if check % 2 == 0 else 0xD5, (check // 2 + 0xBA) & 0xFF]) + b"\x2F\x00"
    head += bytes(volume_table)
    head += b"".join(_struct.pack("<H", x) for x in sat)
    assert len(head) == HEADER_SECTORS * SECTOR - 2, len(head)
    body = bytearray(head.ljust(HEADER_SECTORS * SECTOR, b"\x00"))
    for s in range(HEADER_SECTORS, total):
        body += sectors.get(s, bytes(SECTOR))
    return bytes(body)
# ---------------------------------------------------------------------------

# ---- shared demo plumbing --------------------------------------------------
failures = 0
checks = 0


def check(label, a, b):
    global failures, checks
    checks += 1
    if a != b:
        failures += 1
        if failures <= 10:
            print("MISMATCH", label, "\n   live:", repr(a)[:600], "\n   orig:", repr(b)[:600])


def describe_exc(e):
    cause = e.__cause__
    return (
        type(e).__module__ + "." + type(e).__qualname__,
        str(e),
        None if cause is None else (type(cause).__qualname__, str(cause)),
        e.__suppress_context__,
    )


def outcome(f):
    try:
        return ("ok", f())
    except BaseException as e:  # noqa - demo compares every exception
        return ("raise", describe_exc(e))


def snapshot_dir(base):
    found = {}
    for root, dirs, files in os.walk(base):
        dirs.sort()
        rel = os.path.relpath(root, base)
        found[rel + "/"] = None
        for name in sorted(files):
            with open(os.path.join(root, name), "rb") as fh:
                found[os.path.join(rel, name)] = hashlib.sha256(fh.read()).hexdigest()
    return found


def export_image(image_bytes, scratch, tag):
    from smpl_extract.actions import export_samples_to_wav
    from smpl_extract.akai.image import AkaiImageParser
    dest = os.path.join(scratch, tag)
    os.makedirs(dest)
    captured = io.StringIO()
    with contextlib.redirect_stdout(captured):
        result = outcome(lambda: export_samples_to_wav(
            AkaiImageParser(io.BytesIO(image_bytes)), dest))
    return (result, captured.getvalue(), snapshot_dir(dest))


def make_images(rnd):
    """A spread of logical models x allocation layouts x directory styles."""
    def pcm(words):
        return bytes(rnd.getrandbits(8) for _ in range(2 * words))

    images = []
    lengths = [1, 2, 100, 4096 - 70, 4096 - 69, 4096 - 71, 2 * 4096 - 70,
               3 * 4096 - 70, 5000, 9000, 13000]
    for layout in ("contiguous", "ascending", "descending", "random", "mixed"):
        for dir_style in ("chain", "reserved", "scattered"):
            parts = []
            for p in range(rnd.choice([1, 2, 3])):
                volumes = []
                for v in range(rnd.choice([1, 2, 3])):
                    files = []
                    for f in range(rnd.choice([0, 1, 3, 5])):
                        words = rnd.choice(lengths)
                        start = rnd.choice([0, 0, 1, 7, words // 3])
                        end = rnd.choice([words, words, words - 1, max(start, words - 5)])
                        s3000 = rnd.random() < 0.5
                        files.append((
                            "S%d%d%d" % (p, v, f),
                            0xF3 if s3000 else 0x73,
                            sample_file(
                                "S%d" % f, 3 if s3000 else 1,
                                rnd.choice([0, 8000, 22050, 44100, 48000]),
                                pcm(words), start, end
                            )
                        ))
                    if rnd.random() < 0.5:
                        words = rnd.choice(lengths)
                        for side in "LR":
                            files.append((
                                "PAIR -" + side, 0xF3,
                                sample_file("PAIR -" + side, 3, 44100, pcm(words), 0, words)
                            ))
                    volumes.append(("VOL %d%d" % (p, v), rnd.choice([1, 3]), files))
                parts.append(build_partition(rnd, volumes, layout=layout, dir_style=dir_style))
            images.append(((layout, dir_style), b"".join(parts)))
    return images
# ---------------------------------------------------------------------------


class LoggingBytesIO(io.BytesIO):
    def __init__(self, data, log):
        super().__init__(data)
        self.log = log

    def tell(self):
        r = super().tell()
        self.log.append(("tell", r))
        return r

    def seek(self, *a):
        r = super().seek(*a)
        self.log.append(("seek", a, r))
        return r

    def read(self, *a):
        r = super().read(*a)
        self.log.append(("read", a, len(r)))
        return r




def shape(con, depth=0):
    """A printable description of a declaration tree."""
    described = [type(con).__module__ + "." + type(con).__qualname__, getattr(con, "name", None),
                 con.flagbuildnone, getattr(con, "docs", None)]
    if hasattr(con, "count"):
        described.append(("count", repr(con.count)))
    if hasattr(con, "value") and isinstance(getattr(con, "value"), bytes):
        described.append(("value", con.value))
    if hasattr(con, "func") and not callable(con.func):
        described.append(("func", repr(con.func)))
    if hasattr(con, "func") and hasattr(con.func, "__class__") and "expr" in type(con.func).__module__:
        described.append(("func", repr(con.func)))
    if hasattr(con, "keyfunc"):
        described.append(("keyfunc", repr(con.keyfunc)))
    if hasattr(con, "cases"):
        described.append(("cases", [(repr(k), shape(v, depth + 1)) for k, v in con.cases.items()]))
    if hasattr(con, "lengthfield"):
        described.append(("lengthfield", shape(con.lengthfield, depth + 1)))
    if hasattr(con, "encmapping"):
        described.append(("enum", sorted((str(k), v) for k, v in con.encmapping.items())))
    if hasattr(con, "subcons"):
        described.append(("subcons", [shape(s, depth + 1) for s in con.subcons]))
    elif hasattr(con, "subcon"):
        described.append(("subcon", shape(con.subcon, depth + 1)))
    try:
        described.append(("sizeof", con.sizeof()))
    except Exception as e:  # noqa - part of the description
        described.append(("sizeof", type(e).__name__, str(e)))
    return described


def normal(value):
    """Parsed trees -> plain data (lazy values are realised)."""
    if callable(value) and not isinstance(value, type) and type(value).__name__ in ("function", "method"):
        return ("lazy", normal(value()))
    if isinstance(value, dict):
        return {k: normal(v) for k, v in value.items() if k != "_io"}
    if isinstance(value, (list, tuple)):
        return [normal(v) for v in value]
    if isinstance(value, (bytes, int, str, float, type(None))):
        return (type(value).__name__, value)
    return (type(value).__name__, repr(value))


def part_a():
    check("shape WavSampleChunkStruct", shape(live.WavSampleChunkStruct), shape(OrigWavSampleChunkStruct))
    check("shape WavRiffBodyStruct", shape(live.WavRiffBodyStruct), shape(OrigWavRiffBodyStruct))
    check("shape RiffStruct", shape(live.RiffStruct), shape(OrigRiffStruct))
    check("field names", [s.name for s in live.WavSampleChunkStruct.subcons],
          [s.name for s in OrigWavSampleChunkStruct.subcons])
    check("RiffStruct field names", [s.name for s in live.RiffStruct.subcons], ["fourcc", "data"])
    check("body field names", [s.name for s in live.WavRiffBodyStruct.subcons], ["fourcc", "chunks"])
    check("shape is deep enough", str(shape(live.RiffStruct)).count("Renamed") >= 25, True)


def random_smpl_header(rnd):
    loops = []
    for i in range(rnd.choice([0, 0, 1, 2, 3, 8, 12])):
        loops.append(WavLoopContainer(
            cue_id=rnd.choice([i, 0, 2 ** 32 - 1]),
            loop_type=rnd.choice(list(WavLoopType) + [0, 2, "FORWARD"]),
            start_byte=rnd.randrange(0, 2 ** 32),
            end_byte=rnd.randrange(0, 2 ** 32),
            fraction=rnd.choice([0, 1, 2 ** 31]),
            play_cnt=rnd.choice([0, 1, 7, 2 ** 32 - 1, 2 ** 32, -1]) if rnd.random() < 0.2 else rnd.randrange(0, 1000),
        ))
    if rnd.random() < 0.1 and loops:
        loops[rnd.randrange(len(loops))] = {"cue_id": 1}          # a loop with missing fields
    header = WavSampleChunkContainer(
        manufacturer=rnd.choice([0, 1, 2 ** 32 - 1]),
        product=rnd.choice([0, 5]),
        sample_period=rnd.choice([0, 22676, 2 ** 32 - 1, 2 ** 32, -1]) if rnd.random() < 0.2 else rnd.randrange(0, 10 ** 6),
        midi_note=rnd.choice([MidiNote.from_midi_byte(rnd.randrange(21, 120)), MidiNote.from_string("C4"), 60, None])
        if rnd.random() < 0.15 else MidiNote.from_midi_byte(rnd.randrange(21, 120)),
        pitch_fraction=rnd.choice([0, 2 ** 31, 2 ** 32 - 1, rnd.randrange(0, 2 ** 32)]),
        smpte_format=rnd.choice(list(SmpteFormat) + [0, 30, 31, "NONE"]),
        smpte_offset=rnd.choice([0, 1]),
        sample_loops=loops,
        sampler_data=rnd.choice([b"", b"", b"\x01\x02\x03", [1, 2, 3], [255, 256], bytes(rnd.getrandbits(8) for _ in range(40))]),
    )
    if rnd.random() < 0.05:
        del header[rnd.choice(["sample_loops", "sampler_data", "product", "midi_note"])]
    return header


def part_b():
    rnd = random.Random(1901)
    built = 0
    parsed = 0
    for case in range(1500):
        header = random_smpl_header(rnd)
        a = outcome(lambda: live.WavSampleChunkStruct.build(header))
        b = outcome(lambda: OrigWavSampleChunkStruct.build(header))
        check(("smpl build", case), a, b)
        if a[0] == "ok":
            built += 1
            blob = a[1]
            variant = rnd.choice(["intact", "cut", "extra", "count+", "count-", "noise"])
            if variant == "cut":
                blob = blob[:rnd.randrange(0, len(blob) + 1)]
            elif variant == "extra":
                blob = blob + bytes(rnd.getrandbits(8) for _ in range(rnd.choice([1, 24, 100])))
            elif variant == "count+":
                blob = blob[:28] + struct.pack("<I", struct.unpack("<I", blob[28:32])[0] + rnd.choice([1, 2, 1000])) + blob[32:]
            elif variant == "count-" and struct.unpack("<I", blob[28:32])[0] > 0:
                blob = blob[:28] + struct.pack("<I", struct.unpack("<I", blob[28:32])[0] - 1) + blob[32:]
            elif variant == "noise":
                noisy = bytearray(blob)
                for _ in range(3):
                    noisy[rnd.randrange(len(noisy))] = rnd.getrandbits(8)
                blob = bytes(noisy)
            pa = outcome(lambda: normal(live.WavSampleChunkStruct.parse(blob)))
            pb = outcome(lambda: normal(OrigWavSampleChunkStruct.parse(blob)))
            check(("smpl parse", case, variant), pa, pb)
            parsed += pa[0] == "ok"
            sa = outcome(lambda: live.WavSampleChunkStruct.sizeof(**header))
            sb = outcome(lambda: OrigWavSampleChunkStruct.sizeof(**header))
            check(("smpl sizeof", case), sa, sb)
    print("smpl headers built:", built, "| parsed back:", parsed)
    check("part B is not vacuous", built > 600 and parsed > 300, True)


def random_sample(rnd):
    width = rnd.choice([1, 2, 2, 2, 4])
    layout = rnd.choice(["mono", "mono", "interleaved", "split", "split big", "none", "three"])
    frames = rnd.choice([0, 1, 2, 100, 2047, 2048, 2049, 5000])

    def stream(channels, endianess=Endianess.LITTLE, shorter=0):
        data = bytes(rnd.getrandbits(8) for _ in range(max(0, frames - shorter) * width * channels))
        return DataStream(io.BytesIO(data), StreamEncoding(endianess, width, channels))

    if layout == "mono":
        streams, channels, config = [stream(1)], 1, ChannelConfig.MONO
    elif layout == "interleaved":
        streams, channels, config = [stream(2)], 2, ChannelConfig.STEREO_SINGLE_STREAM
    elif layout == "split":
        streams, channels, config = [stream(1), stream(1, shorter=rnd.choice([0, 0, 3]))], 2, ChannelConfig.STEREO_SPLIT_STREAMS
    elif layout == "split big":
        streams, channels, config = [stream(1, Endianess.BIG), stream(1, rnd.choice(list(Endianess)))], 2, ChannelConfig.STEREO_SPLIT_STREAMS
    elif layout == "three":
        streams, channels, config = [stream(1), stream(1)], 3, ChannelConfig.STEREO_SPLIT_STREAMS
    else:
        streams, channels, config = [], 1, ChannelConfig.MONO
    loops = []
    for _ in range(rnd.choice([0, 0, 1, 2, 8])):
        loops.append(LoopRegion(
            start_sample=rnd.randrange(0, 5000),
            end_sample=rnd.randrange(0, 5000),
            loop_type=rnd.choice(list(LoopType)),
            repeat_forever=rnd.random() < 0.5,
            play_cnt=rnd.choice([None, None, 0, 3]),
            duration=rnd.choice([None, 0.0, 0.5, 12.0]),
        ))
    return Sample(
        name="s",
        channel_config=config,
        sample_rate=rnd.choice([0, 8000, 22050, 44100, 48000, 65535]),
        num_channels=channels,
        data_streams=streams,
        loop_regions=loops,
        midi_note=rnd.choice([None, MidiNote.from_string("C4"), MidiNote.from_midi_byte(rnd.randrange(30, 100))]),
        pitch_offset_semi=rnd.choice([None, 0, 1, -3, 12]),
        pitch_offset_cents=rnd.choice([None, 0, 25, -49]),
    )


def part_c():
    rnd = random.Random(1902)
    orig_builder = WavSampleAdapter(OrigRiffStruct)
    files = 0
    with_smpl = 0
    for case in range(500):
        sample = random_sample(rnd)

        def build(builder):
            for data_stream in sample.data_streams:
                data_stream.stream.seek(rnd_start)
            out = io.BytesIO()
            r = outcome(lambda: builder.build_stream(sample, out))
            return r, out.getvalue(), [d.stream.tell() for d in sample.data_streams]

        rnd_start = rnd.choice([0, 0, 5])
        a = build(generalized_wav.WavSampleBuilder)
        b = build(orig_builder)
        check(("riff build", case), a, b)
        if a[0][0] == "ok":
            files += 1
            with_smpl += b"smpl" in a[1][:80]
            blob = a[1]
            if rnd.random() < 0.3:
                blob = blob[:rnd.randrange(0, len(blob) + 1)]
            pa = outcome(lambda: normal(live.RiffStruct.parse(blob)))
            pb = outcome(lambda: normal(OrigRiffStruct.parse(blob)))
            check(("riff parse", case), pa, pb)
            pa = outcome(lambda: normal(live.WavRiffBodyStruct.parse(blob[8:])))
            pb = outcome(lambda: normal(OrigWavRiffBodyStruct.parse(blob[8:])))
            check(("body parse", case), pa, pb)
    print("wav files built in memory:", files, "| with a smpl chunk:", with_smpl)
    check("part C is not vacuous", files > 300 and with_smpl > 200, True)


def part_d(scratch):
    rnd = random.Random(1903)
    exported = 0
    orig_builder = WavSampleAdapter(OrigRiffStruct)
    for n, (label, image) in enumerate(make_images(rnd)):
        live_run = export_image(image, scratch, "live%d" % n)
        saved = generalized_wav.WavSampleBuilder
        generalized_wav.WavSampleBuilder = orig_builder
        try:
            orig_run = export_image(image, scratch, "orig%d" % n)
        finally:
            generalized_wav.WavSampleBuilder = saved
        check(("export", label), live_run, orig_run)
        exported += sum(1 for digest in live_run[2].values() if digest)
    print("wav files exported per run:", exported)
    check("exports are not vacuous", exported > 40, True)


def main():
    scratch = tempfile.mkdtemp(prefix="r19_demo_")
    try:
        part_a()
        part_b()
        part_c()
        part_d(scratch)
    finally:
        shutil.rmtree(scratch, ignore_errors=True)
    print("checks:", checks, "failures:", failures)
    return 1 if failures or not checks else 0


if __name__ == "__main__":
    sys.exit(main())
