"""Equivalence demo for r21: structural.Image._add_count_to_name and the
class regex Image._STEREO_FILENAME it uses (the helper that
Image.sanitize_names_general calls to turn a duplicated sibling name into
"NAME (2)", "STEM (2) L", ... i.e. the names `ls` prints and parse_path
compares path tokens against).

Compared with an inline copy of the ORIGINAL regex and method:
  1. Image._STEREO_FILENAME against the original pattern: match / no match,
     groups(), span of every group, for every string of length <= 5 over a
     9-letter alphabet (blank, tab, newline, dash, L, R, l, a, dot) and for a
     list of longer hand-written names (unicode blanks, dashes, trailing
     newline, ...).  The flags of the compiled pattern are compared too.
  2. Image._add_count_to_name(name, count) against the original method for
     all those names x counts (0, 1, 2, 10, -3, a bool, an IntEnum member, an
     int subclass with its own __str__/__format__, a str, None): same value
     and type, or the same exception type and message.
  3. Image.sanitize_names_general / make_safe_names_routine /
     make_export_names_routine on sibling lists with duplicates and stereo
     endings: same assigned names, with the original method + regex patched
     onto Image versus the tree as it is.
  4. Image.combine_stereo_routine (the other user of the regex): which
     samples are paired, in which order and under which new name, with
     structural.combine_stereo replaced by a recorder.
  5. end to end: stdout of ls_action on a synthetic image tree with
     duplicated names, for printed names, variations and unrelated paths.
Exit 0 when all agree, else 1.
"""
import contextlib
from dataclasses import dataclass
import enum
import io
import itertools
import re
import sys

import smpl_extract.actions as actions
import smpl_extract.structural as structural
from smpl_extract.base import ElementTypes
from smpl_extract.elements import LeafElement
from smpl_extract.structural import Image
from smpl_extract.structural import Traversable


# ---- ORIGINAL implementation (verbatim) ------------------------------------
ORIG_STEREO_FILENAME = re.compile(r"(.*?)([\s-]+)(L|R)\s*$")


def orig_add_count_to_name(self, name: str, count: int) -> str:
    count_str = "(" + str(count) + ")"
    delim = " "
    tokens = [name, count_str]
    match = self._STEREO_FILENAME.match(name)
    if match:
        tokens = [
            match.group(1),
            count_str,
            match.group(3)
        ]
    new_name = delim.join(tokens)
    return new_name


class OrigHolder:
    """`self` for the original method: carries the ORIGINAL regex."""
    _STEREO_FILENAME = ORIG_STEREO_FILENAME


@contextlib.contextmanager
def original_world():
    saved_regex = Image.__dict__["_STEREO_FILENAME"]
    saved_method = Image.__dict__["_add_count_to_name"]
    Image._STEREO_FILENAME = ORIG_STEREO_FILENAME
    Image._add_count_to_name = orig_add_count_to_name
    try:
        yield
    finally:
        Image._STEREO_FILENAME = saved_regex
        Image._add_count_to_name = saved_method


failures = []


def check(label, got, want):
    if got != want:
        failures.append(label)
        if len(failures) <= 20:
            print("MISMATCH", label, "\n   got ", repr(got)[:300],
                  "\n   want", repr(want)[:300])


# ---- inputs ---------------------------------------------------------------
ALPHABET = [" ", "\t", "\n", "-", "L", "R", "l", "a", "."]

LONG_NAMES = [
    "", "KICK", "KICK L", "KICK R", "KICK-L", "KICK -R", "KICK - L ",
    "KICK L\n", "KICK L\n\n", "KICK\nL", "A\nB L", "KICK  L  ", "L", " L", "-L",
    "R", "LL", "L L", "L R", "R-L", "KICK l", "KICK r", "KICK LR", "KICK L R",
    "KICK L", "KICK R", "KICK–L", "KICK−L", "KICK_L",
    "KICK L ", "KICK L　", "KICK\x1cL", "KICK\x85L", "KICK L.",
    "KICK (2) L", "KICK (2)", "(2) L", "  L", "--L", "- -R", "SNARE--  --R  ",
    "a" * 200 + " L", " " * 50 + "L", "KICK\rL", "KICK\x0bL", "KICK\x0cL",
    "İ L", "ﬁ-R", "Ḱ L", "KICK Ｌ", "KICK L\x00",
    "KICK |L", "KICK [L]", "KICK \\L", "KICK ^L", "KICK s-L", "KICK \\-L",
]


def all_names():
    for size in range(0, 6):
        for letters in itertools.product(ALPHABET, repeat=size):
            yield "".join(letters)
    for name in LONG_NAMES:
        yield name


class Colour(enum.IntEnum):
    RED = 4


class LoudInt(int):
    def __str__(self):
        return "loud%d" % int(self)

    def __format__(self, spec):
        return "formatted"

    def __repr__(self):
        return "repr"


class NoStr:
    def __str__(self):
        raise ValueError("no str for you")


COUNTS = [0, 1, 2, 10, 123456789, -3, True, Colour.RED, LoudInt(7), "x", None,
          2.5, NoStr()]


def describe_match(match):
    if match is None:
        return None
    return (match.groups(), [match.span(i) for i in range(0, 4)],
            match.group(0), match.lastindex)


def outcome(func, *args):
    try:
        result = func(*args)
        return ("ok", type(result).__name__, result)
    except BaseException as exc:  # noqa: B902
        return ("exc", type(exc).__name__, str(exc))


# ---- 1 + 2: regex and method ----------------------------------------------
def check_regex_and_method():
    live_regex = Image._STEREO_FILENAME
    check("regex flags", live_regex.flags, ORIG_STEREO_FILENAME.flags)
    check("regex groups", live_regex.groups, ORIG_STEREO_FILENAME.groups)
    check("regex groupindex", dict(live_regex.groupindex),
          dict(ORIG_STEREO_FILENAME.groupindex))
    image = object.__new__(Image)
    holder = OrigHolder()
    n_names = 0
    for name in all_names():
        n_names += 1
        check("match %r" % name, describe_match(live_regex.match(name)),
              describe_match(ORIG_STEREO_FILENAME.match(name)))
        check("search %r" % name, describe_match(live_regex.search(name)),
              describe_match(ORIG_STEREO_FILENAME.search(name)))
        for count in (COUNTS if n_names % 97 == 0 or len(name) > 5
                      or len(name) < 3 else COUNTS[:3]):
            check("add_count %r %r" % (name, count),
                  outcome(image._add_count_to_name, name, count),
                  outcome(orig_add_count_to_name, holder, name, count))
    # non-string names: same exception
    for bad in (None, b"KICK L", 5, ["KICK L"]):
        check("add_count bad %r" % (bad,),
              outcome(image._add_count_to_name, bad, 2),
              outcome(orig_add_count_to_name, holder, bad, 2))
    # a subclass that brings its own regex is still honoured
    class OwnRegex(Image):
        _STEREO_FILENAME = re.compile(r"(.*)(_)(LEFT|RIGHT)$")
    own = object.__new__(OwnRegex)
    for name in ("KICK_LEFT", "KICK_RIGHT", "KICK L", "_LEFT", ""):
        check("own regex %r" % name,
              outcome(own._add_count_to_name, name, 3),
              outcome(orig_add_count_to_name, own, name, 3))
    return n_names


# ---- 3: sanitize_names_general ---------------------------------------------
@dataclass
class FakeLeaf(LeafElement):
    name: str = ""
    type_name: str = "Leaf"
    size: int = 7
    type_id = ElementTypes.SampleEntry


class FakeImage(Image):
    name = "Fake Image"
    type_name = "Fake Image"
    type_id = ElementTypes.DirectoryEntry

    def __init__(self, spec):
        Traversable.__init__(self, lambda ctx: self._make(spec, ctx, self))

    @staticmethod
    def _make(spec, ctx, parent):
        routines = ctx["_elem_routines"]
        made = []
        for entry in spec:
            if isinstance(entry, tuple):
                raw, sub = entry
                node = Traversable(
                    (lambda sub: lambda c: FakeImage._make(sub, c, None))(sub),
                    routines=routines, path=[raw], parent=parent,
                    type_name="Dir",
                )
                node.name = raw
            else:
                node = FakeLeaf(name=entry)
            made.append(node)
        return made


SIBLING_LISTS = [
    ["KICK", "KICK", "KICK (2)", "KICK", "SNARE L", "SNARE L", "SNARE (2) L",
     "SNARE R", "SNARE R"],
    ["x", "x", "x", "x (2)", "x (3)", "x (5)", "x"],
    ["a L", "a-L", "a  L", "a L ", "a L", "a (2) L", "a R", "a R"],
    ["L", "L", "R", "R", " L", "-L", "-L"],
    ["", "", " ", "''", "'"],
    ["HAT-R", "HAT-R", "HAT -R", "HAT - R", "HAT - R", "HAT (2) R"],
    ["l", "l", "x l", "x l", "x L", "x L", "x\nL", "x\nL"],
    ["only"],
    [],
]


def assigned_names(names):
    image = FakeImage([])
    report = []
    for routine in (image.make_safe_names_routine,
                    image.make_export_names_routine):
        leaves = [FakeLeaf(name=n) for n in names]
        try:
            returned = routine(leaves)
            report.append((returned is leaves,
                           [(x.safe_name, x.export_name) for x in leaves]))
        except BaseException as exc:  # noqa: B902
            report.append(("exc", type(exc).__name__, str(exc)))
    return report


def check_sanitize():
    for names in SIBLING_LISTS:
        now = assigned_names(names)
        with original_world():
            before = assigned_names(names)
        check("sanitize %r" % (names,), now, before)
    # bigger, generated: all multisets of size 4 over a few colliding names
    pool = ["K L", "K-L", "K (2) L", "K R", "K", "K (2)", "K (3) L"]
    for combo in itertools.product(pool, repeat=4):
        now = assigned_names(list(combo))
        with original_world():
            before = assigned_names(list(combo))
        check("sanitize %r" % (combo,), now, before)


# ---- 4: combine_stereo_routine ---------------------------------------------
class FakeSample:
    def __init__(self, export_name):
        self.export_name = export_name

    def __repr__(self):
        return "S(%r)" % self.export_name


def stereo_report(names):
    calls = []

    def recorder(left, right, new_name):
        calls.append((left.export_name, right.export_name, new_name))
        return FakeSample("<" + new_name + ">")

    saved = structural.combine_stereo
    structural.combine_stereo = recorder
    try:
        image = FakeImage([])
        result = image.combine_stereo_routine([FakeSample(n) for n in names])
        return (calls, [s.export_name for s in result])
    finally:
        structural.combine_stereo = saved


STEREO_LISTS = [
    ["KICK L", "KICK R", "SNARE-L", "SNARE-R", "HAT L", "TOM R"],
    ["A L", "A  R", "A R", "A-L", "B R", "B L", "L", "R"],
    ["A l", "A r", "A L ", "A R ", "A L\n", "A R\n"],
    ["x -L", "x -R", "x- L", "x- R", "x L", "x R"],
    ["KICK (2) L", "KICK (2) R", "KICK L", "KICK"],
    [],
]


def check_stereo():
    for names in STEREO_LISTS:
        now = stereo_report(names)
        with original_world():
            before = stereo_report(names)
        check("stereo %r" % (names,), now, before)


# ---- 5: end to end -----------------------------------------------------------
RAW_SPEC = [
    ("VOL", ["KICK", "KICK", "KICK (2)", "KICK", "SNARE L", "SNARE L",
             "SNARE (2) L", "SNARE R", "SNARE R", "HAT-L", "HAT-L"]),
    ("VOL", ["x", "x", "x", "x (2)", "x (3)", "x (5)", "x"]),
    ("VOL (2)", ["a'b", "ab", "a b", "a:b", "a/b"]),
    ("VOL L", ["L", "L", "R", "R"]),
    ("VOL L", ["", "", " ", "''"]),
    "VOL",
    "LEAF",
    "LEAF",
    "LEAF (2)",
    "LEAF (2)",
    "LEAF R",
    "LEAF R",
    "  padded  ",
]


def printed_names(listing):
    names = []
    rows = listing.splitlines()[2:]
    if listing.endswith("\n\n") and rows and rows[-1] == "":
        rows = rows[:-1]
    for line in rows:
        names.append(line[:20].rstrip() if len(line) >= 20 else line.rstrip())
    return names


def ls_text(image, path):
    buf = io.StringIO()
    with contextlib.redirect_stdout(buf):
        actions.ls_action(image, path)
    return buf.getvalue()


def ls_paths():
    top = printed_names(ls_text(FakeImage(RAW_SPEC), ""))
    paths = ["", " ", "/", "\\", "nope", "VOL (9)", "LEAF (3)", "(2)",
             "☃", "VOL (2) L", "VOL L (2)"]
    for name in top:
        paths += [name, " " + name + " ", name + "/", name.lower(),
                  name + "/nope", name[:-1], name + " (2)"]
        listing = ls_text(FakeImage(RAW_SPEC), name)
        if listing[:4] == "Item":
            for child in printed_names(listing):
                paths += [name + "/" + child, name + "\\" + child + "\\",
                          name + "/" + child + " (2)"]
    return paths


def check_end_to_end():
    paths = ls_paths()
    for path in paths:
        now = ls_text(FakeImage(RAW_SPEC), path)
        with original_world():
            before = ls_text(FakeImage(RAW_SPEC), path)
        check("ls %r" % path, now, before)
    # the names shown are distinct and addressable (sanity of the harness)
    top = printed_names(ls_text(FakeImage(RAW_SPEC), ""))
    check("top distinct", len(set(top)), len(top))
    return len(paths)


def main():
    n_names = check_regex_and_method()
    check_sanitize()
    check_stereo()
    n_paths = check_end_to_end()
    if failures:
        print("FAILED: %d mismatches" % len(failures))
        return 1
    print("OK: %d names x counts, %d ls paths, all agree" % (n_names, n_paths))
    return 0


if __name__ == "__main__":
    sys.exit(main())
