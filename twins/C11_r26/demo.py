"""Equivalence demo for AkaiImageParser (smpl_extract/akai/image.py):
__init__, the `partitions` property and _load_partitions - the code that
walks the image ONCE through the shared file handle, letters the partitions
A, B, C ... and remembers the result behind a load-once flag.

The live class is compared with a verbatim copy of the ORIGINAL class:

 1. construction: size probe of the handle (trace of seek/tell/read), the
    attributes left on the object, for handles positioned anywhere, empty
    files, handles that cannot seek;
 2. loading: generated images with 0-3 partitions, junk in front / behind,
    damaged magic, zero-size partitions, truncated tails: number, names, types,
    parents, paths of the partitions, the complete trace of the handle, the
    load-once behaviour (second / third access returns the very same list and
    touches nothing), `children`, access before set_routines(), routines that
    filter / replace / reverse / raise / re-enter `partitions`, handles whose
    read fails in the middle (the flag must stay unset and the next access
    must continue exactly like the original);
 3. sample streams of the partitions, all reading through the ONE handle:
    block reads / seeks of several streams interleaved with each other, with
    repeated `partitions` accesses and with lazy volume listings of other
    partitions (exhaustive for small schedules, random beyond): results and
    handle trace equal to the original, bytes equal to an isolated sequential
    read and to the bytes planted in the image.
Exit 0 when everything agrees, 1 otherwise.
"""
import io
import itertools
import random
import struct
import sys
from io import IOBase
from io import SEEK_END
from io import SEEK_SET
from typing import List, cast

from construct.core import ConstructError
from construct.core import Int16ul

from smpl_extract.akai.data_types import AKAI_PARTITION_MAGIC
from smpl_extract.akai.data_types import AKAI_SAT_ENTRY_CNT
from smpl_extract.akai.data_types import AKAI_SAT_EOF_FLAG
from smpl_extract.akai.data_types import AKAI_SAT_RESERVED_FLAG_STD
from smpl_extract.akai.data_types import AKAI_SECTOR_SIZE
from smpl_extract.akai.data_types import AKAI_VOLUME_ENTRY_CNT
from smpl_extract.akai.image import AkaiImageParser
from smpl_extract.akai.partition import InvalidPartition
from smpl_extract.akai.partition import Partition
from smpl_extract.akai.partition import PartitionHeaderConstruct
from smpl_extract.akai.partition import PartitionParser
from smpl_extract.akai.volume import VolumeEntryConstruct
from smpl_extract.base import ElementTypes
from smpl_extract.structural import Image


# --- verbatim copy of the original class ------------------------------------
class OrigAkaiImageParser(Image):


    name = "AKAI Image"
    type_name = "AKAI Image"
    type_id = ElementTypes.DirectoryEntry


    def __init__(
            self,
            file: IOBase
    ) -> None:
        self.file = file
        # get files size
        self.file_size = self.file.seek(0, SEEK_END)
        self.file.seek(0, SEEK_SET)

        self._partitions = []
        self._partitions_loaded_flag = False


    def _load_partitions(self):
        partition_cnt = 0
        partitions = []
        while self.file.tell() < self.file_size:
            name = chr(ord("A") + partition_cnt)
            try:
                partition = PartitionParser.parse_stream(
                    self.file,  # type: ignore
                    _elem_name=name,
                    _elem_parent=self,
                    _elem_routines=self._routines
                )
            except (InvalidPartition, ConstructError, struct.error) as e:
                break
            partitions.append(partition)
            partition_cnt += 1

        for routine in self._routines.values():
            partitions = routine(partitions)
        self._partitions = cast(List[Partition], partitions)
        self._partitions_loaded_flag = True


    @property
    def partitions(self)->List[Partition]:
        if not self._partitions_loaded_flag:
            self._load_partitions()
        return self._partitions


    @property
    def children(self):
        return self.partitions


    def _sanitize_string(
            self,
            input_str: str
    ):
        result = input_str.upper().strip()
        if len(result) > 0 and result[-1] == ":":
            result = result[:-1]
        return result


# error messages mention the class name ("'AkaiImageParser' object has no ...")
OrigAkaiImageParser.__name__ = OrigAkaiImageParser.__qualname__ = "AkaiImageParser"
CLASSES = (AkaiImageParser, OrigAkaiImageParser)
FAILURES = []


def check(condition, label):
    if not condition:
        FAILURES.append(label)
        if len(FAILURES) <= 20:
            print("MISMATCH:", str(label)[:700])


def outcome(f, *args):
    try:
        return ("ok", f(*args))
    except RecursionError:
        return ("exc", "RecursionError")
    except Exception as e:  # noqa - every exception is part of the behaviour
        return ("exc", type(e).__name__, str(e)[:200])


class TraceIO(io.BytesIO):
    """The shared handle: logs every operation; can be told to fail."""

    def __init__(self, data, fail_read_at=None, fail_seek=False):
        super().__init__(data)
        self.trace = []
        self.reads = 0
        self.fail_read_at = fail_read_at
        self.fail_seek = fail_seek

    def seek(self, offset, whence=0):
        if self.fail_seek:
            self.trace.append(("seek!", offset, whence))
            raise OSError("cannot seek")
        result = super().seek(offset, whence)
        self.trace.append(("seek", offset, whence, result))
        return result

    def tell(self):
        result = super().tell()
        self.trace.append(("tell", result))
        return result

    def read(self, size=-1):
        self.reads += 1
        if self.fail_read_at is not None and self.reads == self.fail_read_at:
            self.trace.append(("read!", size))
            raise OSError("bad sector")
        result = super().read(size)
        self.trace.append(("read", size, len(result), hash(result)))
        return result


# ---------------------------------------------------------------- images
HDR = PartitionHeaderConstruct.sizeof()
VOL = VolumeEntryConstruct[AKAI_VOLUME_ENTRY_CNT].sizeof()
SAT = Int16ul[AKAI_SAT_ENTRY_CNT].sizeof()
RESERVED = -(-(HDR + VOL + SAT) // AKAI_SECTOR_SIZE)
SAMPLE_HEADER_SIZE = 140


def akai_name(text):
    out = []
    for ch in text.ljust(12):
        if ch.isdigit():
            out.append(ord(ch) - 48)
        elif ch == " ":
            out.append(10)
        else:
            out.append(ord(ch) - 65 + 11)
    return bytes(out)


def header_bytes(n_sectors):
    x = n_sectors // 128 - 1
    return (n_sectors.to_bytes(2, "little") + b"\x00\x00" + AKAI_PARTITION_MAGIC
            + bytes([0x55 if x % 2 == 0 else 0xD5, (x // 2 + 0xBA) & 0xFF]) + b"\x2F\x00")


def sample_header(name, n_samples):
    loops = bytes(12) * 8
    head = (bytes([0x01, 0x00, 60]) + akai_name(name) + bytes(4) + bytes([0x02, 0, 0]) + bytes(4)
            + n_samples.to_bytes(4, "little") + (0).to_bytes(4, "little")
            + n_samples.to_bytes(4, "little") + loops + bytes(4) + (44100).to_bytes(2, "little"))
    assert len(head) == SAMPLE_HEADER_SIZE
    return head


def make_partition(rnd, n_sectors, n_files, tag):
    sat = [0] * AKAI_SAT_ENTRY_CNT
    for i in range(RESERVED):
        sat[i] = AKAI_SAT_RESERVED_FLAG_STD
    vol_sector = RESERVED
    sat[vol_sector] = AKAI_SAT_EOF_FLAG
    free = list(range(RESERVED + 1, n_sectors))
    body = bytearray(rnd.randbytes(n_sectors * AKAI_SECTOR_SIZE))
    files = []
    for f in range(n_files):
        length = rnd.randrange(1, 4)
        if len(free) < length:
            break
        start = free.pop(0)
        rest = rnd.sample(free, length - 1)
        for r in rest:
            free.remove(r)
        chain = [start] + rest
        for a, b in zip(chain, chain[1:]):
            sat[a] = b
        sat[chain[-1]] = AKAI_SAT_EOF_FLAG
        capacity = (AKAI_SECTOR_SIZE * length - SAMPLE_HEADER_SIZE) // 2
        n_samples = capacity - rnd.randrange(0, 700)
        name = "%s%d" % (tag, f)
        head = sample_header(name, n_samples)
        first = chain[0] * AKAI_SECTOR_SIZE
        body[first:first + len(head)] = head
        files.append({"name": name, "chain": chain, "n_samples": n_samples,
                      "size": SAMPLE_HEADER_SIZE + 2 * n_samples})
    head = header_bytes(n_sectors)
    vols = akai_name("VOL" + tag) + (1).to_bytes(2, "little") + vol_sector.to_bytes(2, "little")
    vols += (akai_name("") + bytes(4)) * (AKAI_VOLUME_ENTRY_CNT - 1)
    front = head + vols + b"".join(v.to_bytes(2, "little") for v in sat)
    body[:len(front)] = front
    directory = b""
    for f in files:
        directory += (akai_name(f["name"]) + bytes(4) + bytes([0x73])
                      + f["size"].to_bytes(3, "little") + f["chain"][0].to_bytes(2, "little") + bytes(2))
    directory = directory.ljust(AKAI_SECTOR_SIZE, b"\x00")
    body[vol_sector * AKAI_SECTOR_SIZE:(vol_sector + 1) * AKAI_SECTOR_SIZE] = directory
    body = bytes(body)
    for f in files:
        content = b"".join(body[s * AKAI_SECTOR_SIZE:(s + 1) * AKAI_SECTOR_SIZE] for s in f["chain"])
        f["truth"] = content[SAMPLE_HEADER_SIZE:SAMPLE_HEADER_SIZE + 2 * f["n_samples"]]
    return body, files


def make_image(seed, shape):
    rnd = random.Random(seed)
    data = b""
    layout = []
    for index, (n_sectors, n_files) in enumerate(shape):
        body, files = make_partition(rnd, n_sectors, n_files, "ABCD"[index])
        data += body
        layout.append(files)
    return data, layout


# ---------------------------------------------------------------- part 1
def state_of(image):
    d = dict(image.__dict__)
    d.pop("file", None)
    parts = d.pop("_partitions", "missing")
    return sorted(d.items(), key=lambda kv: kv[0]), parts if parts == "missing" else list(parts)


def part_construction():
    count = 0
    rnd = random.Random(26)
    for n in (0, 1, 2, 100, AKAI_SECTOR_SIZE, 3 * AKAI_SECTOR_SIZE + 5):
        for start in (0, 1, n // 2, n, n + 10):
            for fail_seek in (False, True):
                data = rnd.randbytes(n)
                results = []
                for cls in CLASSES:
                    handle = TraceIO(data)
                    handle.seek(start)
                    handle.fail_seek = fail_seek
                    handle.trace.clear()
                    got = outcome(lambda: state_of(cls(handle)))
                    results.append((got, handle.trace, handle.getvalue() == data))
                check(results[0] == results[1], f"construct n={n} start={start} fail={fail_seek}")
                count += 1
    # objects that are not files at all
    for junk in (None, 5, "text", b"bytes", object()):
        results = [outcome(lambda: state_of(cls(junk))) for cls in CLASSES]  # type: ignore
        check(results[0] == results[1], f"construct junk {junk!r}")
        count += 1
    check(AkaiImageParser.partitions.fget.__name__ == "partitions", "property name")
    check(isinstance(AkaiImageParser.children, property), "children is a property")
    return count


# ---------------------------------------------------------------- part 2
def describe_partitions(image, partitions):
    if not isinstance(partitions, list):
        return ("not a list", repr(partitions))
    out = []
    for p in partitions:
        if isinstance(p, Partition):
            out.append((type(p).__name__, p.name, p.type_name, p.parent is image,
                        list(p.path), p._routines is image._routines, p._children is None))
        else:
            out.append(("other", repr(p)))
    return out


class Routines:
    """Named factories of routine dictionaries (fresh per image)."""

    @staticmethod
    def none(image, log):
        return {}

    @staticmethod
    def identity(image, log):
        def keep(items):
            log.append(("keep", len(items)))
            return items
        return {"keep": keep}

    @staticmethod
    def copy_reverse(image, log):
        def rev(items):
            log.append(("rev", [x.name for x in items]))
            return list(reversed(items))

        def first_only(items):
            log.append(("first", [x.name for x in items]))
            return items[:1]
        return {"rev": rev, "first": first_only}

    @staticmethod
    def replace(image, log):
        def replace_all(items):
            log.append(("replace", len(items)))
            return ("X", "Y")
        return {"replace": replace_all}

    @staticmethod
    def raising(image, log):
        def boom(items):
            log.append(("boom", len(items), image._partitions_loaded_flag, list(image._partitions)))
            if len([x for x in log if x[0] == "boom"]) <= 2:
                raise ValueError("routine failed")
            return items
        return {"keep": lambda items: items, "boom": boom}

    @staticmethod
    def reenter_once(image, log):
        def again(items):
            depth = len([x for x in log if x[0] == "again"])
            log.append(("again", depth, [x.name for x in items], image._partitions_loaded_flag))
            if depth == 0:
                inner = image.partitions
                log.append(("inner", [x.name for x in inner], image._partitions_loaded_flag,
                            inner is image._partitions))
            return items
        return {"again": again}

    @staticmethod
    def reenter_always(image, log):
        def again(items):
            return image.partitions
        return {"again": again}


ROUTINE_KINDS = ("none", "identity", "copy_reverse", "replace", "raising", "reenter_once",
                 "reenter_always", "unset")


def load_run(cls, data, routine_kind, start, fail_read_at, accesses):
    handle = TraceIO(data, fail_read_at=None)
    image = cls(handle)
    log = []
    if routine_kind != "unset":
        image.set_routines(getattr(Routines, routine_kind)(image, log))
    handle.seek(start)
    handle.fail_read_at = fail_read_at
    handle.reads = 0
    report = []
    seen = []
    for access in accesses:
        mark = len(handle.trace)
        if access == "partitions":
            got = outcome(lambda: image.partitions)
        elif access == "children":
            got = outcome(lambda: image.children)
        elif access == "load":
            got = outcome(image._load_partitions)
        else:  # set the routines late
            image.set_routines(Routines.identity(image, log))
            got = ("ok", None)
        if got[0] == "ok" and got[1] is not None:
            value = got[1]
            same_as = [i for i, x in enumerate(seen) if x is value]
            seen.append(value)
            got = ("ok", describe_partitions(image, value), same_as, value is image._partitions)
        report.append((access, got, handle.trace[mark:], image._partitions_loaded_flag,
                       len(image._partitions), handle.tell()))
    return report, log


def part_loading():
    count = 0
    rnd = random.Random(2626)
    base = {}
    for shape in ((), ((5, 1),), ((5, 1), (6, 2))):
        base[shape] = make_image(len(shape) + 1, shape)[0]
    images = []
    for shape, data in base.items():
        images.append((f"{shape}", data, 0))
        images.append((f"{shape}+tail", data + rnd.randbytes(777), 0))
        images.append((f"{shape}+zeros", data + bytes(3 * AKAI_SECTOR_SIZE), 0))
        images.append((f"lead+{shape}", rnd.randbytes(100) + data, 0))
        images.append((f"lead+{shape} started behind the lead", rnd.randbytes(100) + data, 100))
        if data:
            images.append((f"{shape} cut", data[:len(data) - AKAI_SECTOR_SIZE - 17], 0))
            images.append((f"{shape} cut in header", data[:len(data) - 5 * AKAI_SECTOR_SIZE + 90], 0))
            images.append((f"{shape} cut in table", data[:len(data) - 5 * AKAI_SECTOR_SIZE + 9000], 0))
            damaged = bytearray(data)
            damaged[len(data) - 5 * AKAI_SECTOR_SIZE + 20] ^= 0x40  # magic of the last partition
            images.append((f"{shape} last magic damaged", bytes(damaged), 0))
            damaged = bytearray(data)
            damaged[0:2] = b"\x00\x00"  # first partition claims zero sectors
            images.append((f"{shape} first size zero", bytes(damaged), 0))
            damaged = bytearray(data)
            damaged[HDR + 3] = 0xFF  # invalid character in a volume name
            images.append((f"{shape} bad volume name", bytes(damaged), 0))
            images.append((f"{shape} started in the middle", data, 3))
            images.append((f"{shape} started at the end", data, len(data)))
            images.append((f"{shape} started behind the end", data, len(data) + 4))

    access_plans = (
        ["partitions", "partitions", "children", "partitions"],
        ["children", "load", "partitions"],
        ["load", "load", "partitions"],
        ["partitions", "set", "partitions", "load", "children"],
    )
    for number, (label, data, start) in enumerate(images):
        # every kind of routine (plans rotating) and every plan (without routines)
        pairs = [(kind, access_plans[(i + number) % 4]) for i, kind in enumerate(ROUTINE_KINDS)]
        pairs += [("none", plan) for plan in access_plans]
        for routine_kind, plan in pairs:
            results = [load_run(cls, data, routine_kind, start, None, plan) for cls in CLASSES]
            check(results[0] == results[1], f"load {label} routines={routine_kind} {plan}")
            count += 1

    # the handle fails in the middle of the walk
    data = base[((5, 1), (6, 2))] + rnd.randbytes(50)
    probe = TraceIO(data)
    OrigAkaiImageParser(probe).set_routines({})
    total_reads = len([x for x in load_run(OrigAkaiImageParser, data, "none", 0, None, ["partitions"])[0][0][2]
                       if x[0] == "read"])
    for fail_at in sorted(set(list(range(1, 12)) + [rnd.randrange(1, total_reads + 2) for _ in range(25)]
                              + [total_reads - 1, total_reads, total_reads + 1])):
        for routine_kind in ("none", "identity", "unset"):
            plan = ["partitions", "partitions", "children", "load"]
            results = [load_run(cls, data, routine_kind, 0, fail_at, plan) for cls in CLASSES]
            check(results[0] == results[1], f"failing read {fail_at} routines={routine_kind}")
            count += 1
    return count


# ---------------------------------------------------------------- part 3
class Reader:
    def __init__(self, cls, data):
        self.handle = TraceIO(data)
        self.image = cls(self.handle)
        self.image.set_routines({})
        self.streams = {}

    def stream(self, p, k):
        if (p, k) not in self.streams:
            entry = self.image.partitions[p].volumes[0].file_entries[k]
            generalized = entry.file.to_generalized()
            self.streams[(p, k)] = generalized.data_streams[0].stream
        return self.streams[(p, k)]

    def listing(self, p):
        volumes = self.image.partitions[p].volumes
        return [(v.name, [(e.name, int(e.file_type)) for e in v.file_entries]) for v in volumes]

    def run(self, schedule):
        log = []
        for op in schedule:
            kind = op[0]
            if kind == "partitions":
                parts = self.image.partitions
                log.append(([x.name for x in parts], parts is self.image.partitions))
            elif kind == "listing":
                log.append(outcome(self.listing, op[1]))
            elif kind == "read":
                log.append(outcome(lambda: self.stream(op[1], op[2]).read(op[3])))
            elif kind == "seek":
                log.append(outcome(lambda: self.stream(op[1], op[2]).seek(op[3], op[4])))
        return log, self.handle.trace


ISOLATED = {}


def isolated_reads(data, schedule, key):
    own = tuple(op for op in schedule if op[0] in ("read", "seek") and (op[1], op[2]) == key)
    if own not in ISOLATED:
        ISOLATED[own] = Reader(AkaiImageParser, data).run(list(own))[0]
    return ISOLATED[own]


def part_streams():
    count = 0
    shape = ((9, 2), (10, 2), (6, 1))
    data, layout = make_image(77, shape)
    keys = [(p, k) for p, files in enumerate(layout) for k in range(len(files))]
    check(len(keys) == 5, "generator produced the planned files")

    def compare(schedule, label):
        live = Reader(AkaiImageParser, data).run(schedule)
        orig = Reader(OrigAkaiImageParser, data).run(schedule)
        check(live == orig, f"{label}: live != original")
        for key in keys:
            positions = [i for i, op in enumerate(schedule)
                         if op[0] in ("read", "seek") and (op[1], op[2]) == key]
            if not positions:
                continue
            shared = [live[0][i] for i in positions]
            check(shared == isolated_reads(data, schedule, key), f"{label}: stream {key} disturbed")
            if all(schedule[i][0] == "read" for i in positions):
                got = b"".join(x[1] for x in shared if x[0] == "ok")
                check(layout[key[0]][key[1]]["truth"].startswith(got) and len(got) > 0,
                      f"{label}: stream {key} differs from the planted bytes")

    # exhaustive: two streams x 2 blocks, a partitions access and a listing
    ops = [("read", 0, 0, 3000), ("read", 0, 0, 3000), ("read", 1, 1, 5000), ("read", 1, 1, 5000),
           ("partitions",), ("listing", 2)]
    orders = [
        order for order in sorted(set(itertools.permutations(range(6))))
        if order.index(0) < order.index(1) and order.index(2) < order.index(3)
    ]
    for order in orders[::3]:
        compare([ops[i] for i in order], f"schedule {order}")
        count += 1

    rnd = random.Random(262626)
    sizes = (1, 2, 500, 4096, AKAI_SECTOR_SIZE - 140, AKAI_SECTOR_SIZE, 20000)
    for _ in range(60):
        schedule = []
        for _ in range(rnd.randrange(1, 14)):
            roll = rnd.random()
            key = rnd.choice(keys)
            if roll < 0.65:
                schedule.append(("read", key[0], key[1], rnd.choice(sizes)))
            elif roll < 0.75:
                schedule.append(("seek", key[0], key[1], rnd.choice((0, 10, 5000)), SEEK_SET))
            elif roll < 0.88:
                schedule.append(("listing", rnd.randrange(3)))
            else:
                schedule.append(("partitions",))
        compare(schedule, f"random schedule {schedule}")
        count += 1
    return count


def main():
    n1 = part_construction()
    n2 = part_loading()
    n3 = part_streams()
    print(f"construction: {n1}, loading: {n2}, streams: {n3}")
    if FAILURES:
        print(f"{len(FAILURES)} mismatches")
        return 1
    print("all agree")
    return 0


if __name__ == "__main__":
    sys.exit(main())
