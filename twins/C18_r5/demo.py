"""Equivalence demo for r5: _char_format_convert_byte restructured to a
single-exit if/elif/else chain.  Compares the live function against an inline
copy of the ORIGINAL implementation."""
import sys
from fractions import Fraction

from smpl_extract.akai import akai_string as live
from smpl_extract.akai.data_types import (
    CHAR_MAP_A, CHAR_MAP_MINUS, CHAR_MAP_NINE, CHAR_MAP_PERIOD, CHAR_MAP_PLUS,
    CHAR_MAP_POUND, CHAR_MAP_SPACE, CHAR_MAP_Z, CHAR_MAP_ZERO, CharFormat,
    InvalidCharacter,
)


def orig_char_format_convert_byte(byte_in, src_fmt, dst_fmt):
    src_zero = CHAR_MAP_ZERO[src_fmt]
    src_nine = CHAR_MAP_NINE[src_fmt]
    dst_zero = CHAR_MAP_ZERO[dst_fmt]
    src_A = CHAR_MAP_A[src_fmt]
    src_Z = CHAR_MAP_Z[src_fmt]
    dst_A = CHAR_MAP_A[dst_fmt]

    if src_zero <= byte_in <= src_nine:
        return dst_zero + byte_in - src_zero

    elif src_A <= byte_in <= src_Z:
        return dst_A + byte_in - src_A

    symbol_map = {
        CHAR_MAP_SPACE[src_fmt]:   CHAR_MAP_SPACE[dst_fmt],
        CHAR_MAP_POUND[src_fmt]:   CHAR_MAP_POUND[dst_fmt],
        CHAR_MAP_PLUS[src_fmt]:    CHAR_MAP_PLUS[dst_fmt],
        CHAR_MAP_MINUS[src_fmt]:   CHAR_MAP_MINUS[dst_fmt],
        CHAR_MAP_PERIOD[src_fmt]:  CHAR_MAP_PERIOD[dst_fmt],
    }

    resulting_symbol = symbol_map.get(byte_in)

    if resulting_symbol is None:
        raise InvalidCharacter

    return resulting_symbol


def outcome(fn, *args):
    try:
        value = fn(*args)
        return ("ok", type(value).__name__, repr(value))
    except BaseException as exc:  # noqa: BLE001 - we compare everything
        return ("exc", type(exc).__name__, repr(exc.args))


def main():
    failures = 0
    checked = 0
    formats = [CharFormat.ASCII, CharFormat.AKAI, None, "AKAI", 1]
    values = list(range(-300, 600))
    values += [True, False, 10.0, 10.5, 0.0, 36.0, 40.0, 40.5, Fraction(11, 1),
               None, "A", b"A", (1,), [1], float("nan"), float("inf"),
               2 ** 70, -2 ** 70]
    for src in formats:
        for dst in formats:
            for v in values:
                a = outcome(orig_char_format_convert_byte, v, src, dst)
                b = outcome(live._char_format_convert_byte, v, src, dst)
                checked += 1
                if a != b:
                    failures += 1
                    if failures < 20:
                        print("MISMATCH", v, src, dst, a, b)

    # bijection sanity on the 41 valid characters, through the public entry
    alphabet = "0123456789 ABCDEFGHIJKLMNOPQRSTUVWXYZ#+-."
    enc = live.char_ascii_to_akai(alphabet)
    if sorted(enc) != list(range(41)) or live.char_akai_to_ascii(enc) != alphabet:
        print("MISMATCH bijection")
        failures += 1
    for s in ["", "hello world", "A#+-.Z9", "bad_char", "x" * 12, "é"]:
        a = outcome(lambda t: bytes(map(
            lambda x: orig_char_format_convert_byte(
                x, CharFormat.ASCII, CharFormat.AKAI),
            t.upper().encode("ascii"))), s)
        b = outcome(live.char_ascii_to_akai, s)
        checked += 1
        if a != b:
            failures += 1
            print("MISMATCH str", s, a, b)

    print("checked", checked, "failures", failures)
    return 1 if failures else 0


if __name__ == "__main__":
    sys.exit(main())
