"""Equivalence evidence for r7: SampleAdapter._decode_element
(smpl_extract/akai/sample.py).

1. parses many random 140-byte AKAI sample headers (+ data) with the live
   SampleAdapter and with a subclass carrying an inline copy of the ORIGINAL
   _decode_element, and compares every field, the raw sample data and the text
   that `ls` would print;
2. calls both implementations directly on hand-made header objects (edge values,
   odd types, one-shot iterators, failing comparisons) and compares results,
   exceptions and the order of attribute reads.
Exit 0 = all agree, 1 = a difference was found.
"""
import random
import struct
import sys
from dataclasses import fields
from typing import Any
from typing import Dict

from smpl_extract.akai.data_types import AKAI_SAMPLE_WORDLENGTH
from smpl_extract.akai.data_types import DEFAULT_SAMPLE_RATE
from smpl_extract.akai.data_types import AkaiLoopType
from smpl_extract.akai.sample import AkaiSample
from smpl_extract.akai.sample import LoopEntry
from smpl_extract.akai.sample import SampleAdapter
from smpl_extract.akai.sample import SampleHeaderConstruct
from smpl_extract.util.constructs import ChildInfo


# --------------------------------------------------------------------------
# inline copy of the ORIGINAL implementation
# --------------------------------------------------------------------------
class OriginalSampleAdapter(SampleAdapter):

    def _decode_element(
            self,
            obj,
            child_info: ChildInfo,
            context: Dict[str, Any],
            path: str
    ):
        del context, path  # Unused

        sample_header = obj
        file_name = child_info.name
        parent = child_info.parent
        sample_path = child_info.next_path

        loop_entries = []
        if sample_header.loop_type != AkaiLoopType.LOOP_INACTIVE:
            for loop_entry in sample_header.loop_data_table:
                loop_duration = loop_entry.loop_duration
                if loop_duration > 0:
                    loop_entries.append(loop_entry)

        sample_rate = sample_header.sampling_rate
        if sample_rate == 0:
            sample_rate = DEFAULT_SAMPLE_RATE

        result = AkaiSample(
            file_name,
            sample_header.sample_name,
            sample_header.id,
            sample_rate,
            AKAI_SAMPLE_WORDLENGTH,
            sample_header.samples_cnt,
            sample_header.play_start,
            sample_header.play_end,
            sample_header.note_pitch,
            sample_header.pitch_offset_cents,
            sample_header.pitch_offset_semi,
            sample_header.loop_type,
            loop_entries,
            _data_stream=sample_header.data_stream,
            _parent=parent,
            _path=sample_path
        )
        return result


failures = 0
checked = 0


def fail(*msg):
    global failures
    failures += 1
    if failures <= 5:
        print("MISMATCH", *[repr(m)[:300] for m in msg])


def describe(sample):
    """every dataclass field (stream replaced by its content) + printed info"""
    out = {}
    for f in fields(sample):
        v = getattr(sample, f.name)
        if f.name == "_data_stream":
            try:
                v.seek(0)
                v = ("stream", v.read())
            except Exception as e:  # noqa
                v = ("stream-exc", type(e).__name__)
        out[f.name] = (type(v).__name__, v)
    out["type_name"] = sample.type_name
    out["name"] = sample.name
    out["path"] = sample.path
    out["items"] = sample.itemize()
    try:
        out["info"] = sample.get_info().to_string()
    except TypeError as e:  # nameless element: header cell is None
        out["info"] = ("exc", str(e))
    return out


def run(fn):
    try:
        return ("ok", describe(fn()))
    except Exception as e:  # noqa
        return ("exc", type(e).__name__, str(e))


# --------------------------------------------------------------------------
# 1. parsing random headers
# --------------------------------------------------------------------------
def make_header(rng, loop_type=None, rate=None, durations=None, sid=None):
    sid = rng.choice([1, 3] * 10 + [0, 2, 7]) if sid is None else sid
    note = rng.randrange(0, 128) if rng.random() < 0.9 else rng.randrange(256)
    name = bytes(rng.randrange(0, 0x29) for _ in range(12))
    if rng.random() < 0.05:
        name = bytes(rng.randrange(256) for _ in range(12))
    if loop_type is None:
        loop_type = rng.choice([0, 1, 2, 3, 4] * 6 + [2] * 6 + [9, 255])
    cents = rng.randrange(-128, 128)
    semi = rng.randrange(-128, 128)
    play_start = rng.randrange(0, 40)
    play_end = play_start + rng.randrange(0, 40)
    if rng.random() < 0.05:
        play_end = rng.randrange(0, 40)  # may be < start
    samples_cnt = rng.randrange(1 << 32)
    loops = b""
    for i in range(8):
        if durations is not None:
            dur = durations[i]
        else:
            dur = rng.choice([0, 0, 1, 5, 9998, 9999, 10000, 65535,
                              rng.randrange(65536)])
        loops += struct.pack(
            "<IHIH", rng.randrange(1 << 32) if rng.random() < 0.5
            else rng.randrange(100), rng.randrange(65536),
            rng.randrange(1 << 32) if rng.random() < 0.5 else rng.randrange(100),
            dur)
    if rate is None:
        rate = rng.choice([0, 0, 44100, 22050, 1, 65535, rng.randrange(65536)])
    head = (
        struct.pack("<BBB", sid, rng.randrange(256), note) + name
        + bytes(rng.randrange(256) for _ in range(4))
        + struct.pack("<Bbb", loop_type, cents, semi)
        + bytes(rng.randrange(256) for _ in range(4))
        + struct.pack("<III", samples_cnt, play_start, play_end)
        + loops
        + bytes(rng.randrange(256) for _ in range(4))
        + struct.pack("<H", rate)
    )
    assert len(head) == 140
    data = bytes(rng.randrange(256) for _ in range(rng.choice([0, 10, 200])))
    return head + data


live_parser = SampleAdapter(SampleHeaderConstruct)
orig_parser = OriginalSampleAdapter(SampleHeaderConstruct)
live_named = SampleAdapter(SampleHeaderConstruct, name_key="fname")
orig_named = OriginalSampleAdapter(SampleHeaderConstruct, name_key="fname")

rng = random.Random(7)
cases = []
for _ in range(1500):
    cases.append(make_header(rng))
# systematic: every loop type x rate 0 / non-0 x all-zero / all-set durations
for lt in range(0, 6):
    for rate in (0, 1, 44100):
        for durs in ([0] * 8, [1] * 8, [0, 1] * 4, [9999] + [0] * 7,
                     [0] * 7 + [65535]):
            cases.append(make_header(rng, lt, rate, durs, sid=rng.choice([1, 3])))
cases.append(b"")            # stream too short
cases.append(bytes(139))
cases.append(bytes(140))

for blob in cases:
    checked += 1
    a = run(lambda: live_parser.parse(blob))
    b = run(lambda: orig_parser.parse(blob))
    if a != b:
        fail("parse", blob[:40], a, b)
    checked += 1
    ctx = dict(fname="SMP %d" % rng.randrange(100), _elem_name="ignored")
    a = run(lambda: live_named.parse(blob, **ctx))
    b = run(lambda: orig_named.parse(blob, **ctx))
    if a != b:
        fail("parse named", blob[:40], a, b)


# --------------------------------------------------------------------------
# 2. direct calls on hand-made header objects
# --------------------------------------------------------------------------
LOG = []


class Header:
    """header stand-in that logs the order in which attributes are read"""
    def __init__(self, **kw):
        object.__setattr__(self, "_kw", kw)
    def __getattr__(self, name):
        kw = object.__getattribute__(self, "_kw")
        LOG.append(name)
        if name not in kw:
            raise AttributeError(name)
        v = kw[name]
        return v() if callable(v) else v


class Entry:
    def __init__(self, dur, tag):
        self._dur = dur
        self.tag = tag
    @property
    def loop_duration(self):
        LOG.append("dur %s" % self.tag)
        if isinstance(self._dur, Exception):
            raise self._dur
        return self._dur
    def __eq__(self, other):
        return isinstance(other, Entry) and self.tag == other.tag
    def __repr__(self):
        return "Entry(%r, %r)" % (self._dur, self.tag)


class NeverEqual:
    def __eq__(self, other):
        LOG.append("eq")
        return False
    def __ne__(self, other):
        LOG.append("ne")
        return True
    def __repr__(self):
        return "NeverEqual"


class AlwaysEqual(int):
    def __eq__(self, other):
        return True
    def __ne__(self, other):
        return False
    __hash__ = int.__hash__


def base_kw(**over):
    kw = dict(
        id=1, note_pitch="C4", sample_name="NAME", loop_type=AkaiLoopType(0),
        pitch_offset_cents=3, pitch_offset_semi=-4, samples_cnt=100,
        play_start=2, play_end=50, sampling_rate=22050, data_stream=None,
        loop_data_table=lambda: [Entry(0, "a"), Entry(5, "b"), Entry(0.5, "c"),
                                 Entry(-1, "d"), Entry(True, "e")],
    )
    kw.update(over)
    return kw


def direct(adapter, kw, child_info):
    del LOG[:]
    try:
        res = adapter._decode_element(Header(**kw), child_info, {"c": 1}, "p")
        d = {}
        for f in fields(res):
            v = getattr(res, f.name)
            d[f.name] = (type(v).__name__, v)
        d["type_name"] = res.type_name
        out = ("ok", d)
    except Exception as e:  # noqa
        out = ("exc", type(e).__name__, str(e))
    return out, list(LOG)


ci = ChildInfo(parent=None, parent_path=["a"], next_path=["a", "F"],
               routines=[], name="F")
ci_none = ChildInfo(parent=None, parent_path=[], next_path=[], routines=[],
                    name=None)

direct_cases = [
    base_kw(),
    base_kw(loop_type=AkaiLoopType.LOOP_INACTIVE),
    base_kw(loop_type=2),
    base_kw(loop_type=2.0),
    base_kw(loop_type="2"),
    base_kw(loop_type=None),
    base_kw(loop_type=NeverEqual()),
    base_kw(loop_type=AlwaysEqual(0)),
    base_kw(sampling_rate=0),
    base_kw(sampling_rate=0.0),
    base_kw(sampling_rate=False),
    base_kw(sampling_rate=None),
    base_kw(sampling_rate="0"),
    base_kw(sampling_rate=-0.0),
    base_kw(sampling_rate=0j),
    base_kw(sampling_rate=AlwaysEqual(48000)),
    base_kw(sampling_rate=NeverEqual()),
    base_kw(loop_data_table=lambda: []),
    base_kw(loop_data_table=lambda: ()),
    base_kw(loop_data_table=lambda: iter([Entry(1, "x"), Entry(0, "y")])),
    base_kw(loop_data_table=lambda: (e for e in [Entry(2, "g")])),
    base_kw(loop_data_table=lambda: None),
    base_kw(loop_data_table=lambda: 5),
    base_kw(loop_data_table=lambda: [Entry(1, "ok"), Entry("str", "bad")]),
    base_kw(loop_data_table=lambda: [Entry(1, "ok"), Entry(None, "bad"), Entry(2, "z")]),
    base_kw(loop_data_table=lambda: [Entry(ValueError("boom"), "bad")]),
    base_kw(loop_data_table=lambda: [object()]),
    base_kw(loop_data_table=lambda: [LoopEntry(0, 10, d, d >= 9999)
                                     for d in (0, 1, 9998, 9999, 65535, 0, 0, 3)]),
    base_kw(loop_type=AkaiLoopType.LOOP_INACTIVE,
            loop_data_table=lambda: [Entry(ValueError("never read"), "bad")]),
]
# missing attributes -> AttributeError at the same point
for missing in ("id", "note_pitch", "sample_name", "loop_type", "pitch_offset_cents",
                "pitch_offset_semi", "samples_cnt", "play_start", "play_end",
                "sampling_rate", "data_stream", "loop_data_table"):
    kw = base_kw()
    del kw[missing]
    direct_cases.append(kw)

live_adapter = SampleAdapter(SampleHeaderConstruct)
orig_adapter = OriginalSampleAdapter(SampleHeaderConstruct)
for kw in direct_cases:
    for info in (ci, ci_none):
        checked += 1
        a = direct(live_adapter, kw, info)
        b = direct(orig_adapter, kw, info)
        if a != b:
            fail("direct", sorted(kw), a, b)

# result list must be a fresh list object each time (not shared between calls)
r1 = live_adapter._decode_element(Header(**base_kw(loop_type=2)), ci, {}, "")
r2 = live_adapter._decode_element(Header(**base_kw(loop_type=2)), ci, {}, "")
checked += 1
if type(r1.loop_entries) is not list or r1.loop_entries is r2.loop_entries:
    fail("loop_entries must be a fresh list")

print("r7 demo: %d comparisons, %d failures" % (checked, failures))
sys.exit(1 if failures else 0)
