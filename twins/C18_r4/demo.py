"""Equivalence demo for r4: CHAR_MAP_* constants respelled (ord("x") -> hex
literal, hex AKAI codes -> decimal).

Checks the live constants against an inline copy of the ORIGINAL definitions
(values, value types, key order), and checks both converters in
smpl_extract.akai.akai_string - which read those constants - against inline
copies of the original converters that use the original constants, over all
256 byte values, all 41 valid characters, and sampled strings up to length 12.
Exit 0 = everything agrees, 1 = a difference was found.
"""
import random
import sys

from smpl_extract.akai import akai_string as live
from smpl_extract.akai import data_types as live_types
from smpl_extract.akai.data_types import CharFormat
from smpl_extract.akai.data_types import InvalidCharacter


# ---------------------------------------------------------------- original
CHAR_MAP_ZERO      = { CharFormat.ASCII: ord("0"),  CharFormat.AKAI: 0x00 }
CHAR_MAP_NINE      = { CharFormat.ASCII: ord("9"),  CharFormat.AKAI: 0x09 }
CHAR_MAP_SPACE     = { CharFormat.ASCII: ord(" "),  CharFormat.AKAI: 0x0A }
CHAR_MAP_A         = { CharFormat.ASCII: ord("A"),  CharFormat.AKAI: 0x0B }
CHAR_MAP_Z         = { CharFormat.ASCII: ord("Z"),  CharFormat.AKAI: 0x24 }
CHAR_MAP_POUND     = { CharFormat.ASCII: ord("#"),  CharFormat.AKAI: 0x25 }
CHAR_MAP_PLUS      = { CharFormat.ASCII: ord("+"),  CharFormat.AKAI: 0x26 }
CHAR_MAP_MINUS     = { CharFormat.ASCII: ord("-"),  CharFormat.AKAI: 0x27 }
CHAR_MAP_PERIOD    = { CharFormat.ASCII: ord("."),  CharFormat.AKAI: 0x28 }

ORIGINAL_MAPS = {
    "CHAR_MAP_ZERO": CHAR_MAP_ZERO,
    "CHAR_MAP_NINE": CHAR_MAP_NINE,
    "CHAR_MAP_SPACE": CHAR_MAP_SPACE,
    "CHAR_MAP_A": CHAR_MAP_A,
    "CHAR_MAP_Z": CHAR_MAP_Z,
    "CHAR_MAP_POUND": CHAR_MAP_POUND,
    "CHAR_MAP_PLUS": CHAR_MAP_PLUS,
    "CHAR_MAP_MINUS": CHAR_MAP_MINUS,
    "CHAR_MAP_PERIOD": CHAR_MAP_PERIOD,
}


def orig_char_format_convert_byte(byte_in, src_fmt, dst_fmt):
    src_zero = CHAR_MAP_ZERO[src_fmt]
    src_nine = CHAR_MAP_NINE[src_fmt]
    dst_zero = CHAR_MAP_ZERO[dst_fmt]
    src_A = CHAR_MAP_A[src_fmt]
    src_Z = CHAR_MAP_Z[src_fmt]
    dst_A = CHAR_MAP_A[dst_fmt]

    if src_zero <= byte_in <= src_nine:
        return dst_zero + byte_in - src_zero

    elif src_A <= byte_in <= src_Z:
        return dst_A + byte_in - src_A

    symbol_map = {
        CHAR_MAP_SPACE[src_fmt]:   CHAR_MAP_SPACE[dst_fmt],
        CHAR_MAP_POUND[src_fmt]:   CHAR_MAP_POUND[dst_fmt],
        CHAR_MAP_PLUS[src_fmt]:    CHAR_MAP_PLUS[dst_fmt],
        CHAR_MAP_MINUS[src_fmt]:   CHAR_MAP_MINUS[dst_fmt],
        CHAR_MAP_PERIOD[src_fmt]:  CHAR_MAP_PERIOD[dst_fmt],
    }

    resulting_symbol = symbol_map.get(byte_in)

    if resulting_symbol is None:
        raise InvalidCharacter

    return resulting_symbol


def orig_char_format_convert(bytes_in, src_fmt, dst_fmt):
    result = list(map(
        lambda x: orig_char_format_convert_byte(x, src_fmt, dst_fmt),
        bytes_in
    ))
    return result


def orig_char_ascii_to_akai(str_in):
    if isinstance(str_in, str):
        bytes_in = str_in.upper().encode("ascii")
    else:
        bytes_in = str_in
    result = orig_char_format_convert(
        bytes_in,
        CharFormat.ASCII,
        CharFormat.AKAI
    )
    return bytes(result)


def orig_fast_akai_to_ascii_byte(byte_in):
    if CHAR_MAP_ZERO[CharFormat.AKAI] <= byte_in <= CHAR_MAP_NINE[CharFormat.AKAI]:
        return byte_in + CHAR_MAP_ZERO[CharFormat.ASCII] - CHAR_MAP_ZERO[CharFormat.AKAI]

    if CHAR_MAP_A[CharFormat.AKAI] <= byte_in <= CHAR_MAP_Z[CharFormat.AKAI]:
        return byte_in + CHAR_MAP_A[CharFormat.ASCII] - CHAR_MAP_A[CharFormat.AKAI]

    symbol_map = {
        CHAR_MAP_SPACE[CharFormat.AKAI]:   CHAR_MAP_SPACE[CharFormat.ASCII],
        CHAR_MAP_POUND[CharFormat.AKAI]:   CHAR_MAP_POUND[CharFormat.ASCII],
        CHAR_MAP_PLUS[CharFormat.AKAI]:    CHAR_MAP_PLUS[CharFormat.ASCII],
        CHAR_MAP_MINUS[CharFormat.AKAI]:   CHAR_MAP_MINUS[CharFormat.ASCII],
        CHAR_MAP_PERIOD[CharFormat.AKAI]:  CHAR_MAP_PERIOD[CharFormat.ASCII],
    }
    resulting_symbol = symbol_map.get(byte_in)

    if resulting_symbol is None:
        raise InvalidCharacter

    return resulting_symbol


def orig_char_akai_to_ascii(bytes_in):
    out_str = list()
    for byte in bytes_in:
        out_str.append(chr(orig_fast_akai_to_ascii_byte(byte)))
    return "".join(out_str)


# ----------------------------------------------------------------- harness
def outcome(fn, *args):
    try:
        value = fn(*args)
    except BaseException as exc:  # noqa: BLE001 - failures are compared too
        return ("raise", type(exc), repr(exc.args))
    return ("return", type(value), repr(value))


failures = 0
checked = 0


def fail(message):
    global failures
    failures += 1
    if failures <= 20:
        print(message)


def compare(label, new_fn, old_fn, *args):
    global checked
    checked += 1
    got = outcome(new_fn, *args)
    want = outcome(old_fn, *args)
    if got != want:
        fail(f"MISMATCH {label}{args!r}: live={got!r} original={want!r}")


# --- 1. the constants themselves
for name, original in ORIGINAL_MAPS.items():
    checked += 1
    current = getattr(live_types, name)
    if type(current) is not dict:
        fail(f"{name} is no longer a dict")
    elif list(current.items()) != list(original.items()):
        fail(f"{name} differs: {current!r} != {original!r}")
    elif [type(v) for v in current.values()] != [int, int]:
        fail(f"{name} values are not plain ints")
    # akai_string imported the very same objects
    if getattr(live, name) is not current:
        fail(f"akai_string.{name} is not data_types.{name}")

# --- 2. single characters: whole byte domain and a margin around it
ASCII, AKAI = CharFormat.ASCII, CharFormat.AKAI
for value in list(range(-64, 400)) + [None, "A", 3.0, 65.0, float("nan")]:
    compare("ascii->akai byte",
            lambda v: live._char_format_convert_byte(v, ASCII, AKAI),
            lambda v: orig_char_format_convert_byte(v, ASCII, AKAI), value)
    compare("akai->ascii byte (generic)",
            lambda v: live._char_format_convert_byte(v, AKAI, ASCII),
            lambda v: orig_char_format_convert_byte(v, AKAI, ASCII), value)
    compare("akai->ascii byte (fast)", live._fast_akai_to_ascii_byte,
            orig_fast_akai_to_ascii_byte, value)
    compare("same format ascii",
            lambda v: live._char_format_convert_byte(v, ASCII, ASCII),
            lambda v: orig_char_format_convert_byte(v, ASCII, ASCII), value)
    compare("same format akai",
            lambda v: live._char_format_convert_byte(v, AKAI, AKAI),
            lambda v: orig_char_format_convert_byte(v, AKAI, AKAI), value)

# --- 3. precomputed truth: the 41-character alphabet is a bijection
ALPHABET = "0123456789 ABCDEFGHIJKLMNOPQRSTUVWXYZ#+-."
checked += 4
if len(ALPHABET) != 41:
    fail("demo alphabet wrong")
if live.char_ascii_to_akai(ALPHABET) != bytes(range(41)):
    fail("alphabet does not encode to 0..40")
if live.char_akai_to_ascii(bytes(range(41))) != ALPHABET:
    fail("0..40 does not decode to the alphabet")
if live.char_ascii_to_akai(ALPHABET.lower()) != bytes(range(41)):
    fail("lower-case str input is no longer folded to upper case")
for byte in range(256):
    checked += 2
    accepted_akai = outcome(live.char_akai_to_ascii, bytes([byte]))[0] == "return"
    if accepted_akai != (byte < 41):
        fail(f"akai byte {byte} acceptance changed")
    accepted_ascii = outcome(live.char_ascii_to_akai, bytes([byte]))[0] == "return"
    if accepted_ascii != (chr(byte) in ALPHABET):
        fail(f"ascii byte {byte} acceptance changed")

# --- 4. strings, str and bytes input, valid and invalid
rng = random.Random(1804)
for _ in range(15000):
    length = rng.randint(0, 12)
    if rng.random() < 0.7:
        akai = bytes(rng.randrange(41) for _ in range(length))
        text = "".join(rng.choice(ALPHABET + "abcxyz") for _ in range(length))
    else:
        akai = bytes(rng.randrange(256) for _ in range(length))
        text = "".join(chr(rng.randrange(0x20, 0x7F)) for _ in range(length))
    compare("char_akai_to_ascii", live.char_akai_to_ascii,
            orig_char_akai_to_ascii, akai)
    compare("char_akai_to_ascii(list)", live.char_akai_to_ascii,
            orig_char_akai_to_ascii, list(akai))
    compare("char_ascii_to_akai(str)", live.char_ascii_to_akai,
            orig_char_ascii_to_akai, text)
    compare("char_ascii_to_akai(bytes)", live.char_ascii_to_akai,
            orig_char_ascii_to_akai, text.encode("ascii"))
compare("char_ascii_to_akai(non-ascii)", live.char_ascii_to_akai,
        orig_char_ascii_to_akai, "é")

# --- 5. padded construct string, which uses CHAR_MAP_SPACE for padding
padded = live.AkaiPaddedString(12)
for text in ["", "A", "KICK 01", "HI-HAT #2", "A.B+C-D", "ABCDEFGHIJKL", "   X"]:
    checked += 2
    want_bytes = orig_char_ascii_to_akai(text).ljust(12, b"\x0a")
    if padded.build(text) != want_bytes:
        fail(f"padded build differs for {text!r}")
    if padded.parse(want_bytes) != orig_char_akai_to_ascii(want_bytes.rstrip(b"\x0a")):
        fail(f"padded parse differs for {text!r}")

print(f"{checked} comparisons, {failures} mismatches")
sys.exit(1 if failures else 0)
