"""Equivalence demo for r19:
smpl_extract.util.fat.FileStream._get_address_given_sector_index.

FileStream is the FAT-chained stream behind Roland S-7xx sample data; the
SectorReadError it raises for a sector index beyond the file's chain is the
stop condition caught by PipelineTranscoder.__next__ and
PassthroughTranscoder.__next__.  The live method is compared with an inline
copy of the ORIGINAL:

  1. direct calls with in-range, negative, out-of-range, bool, float, None,
     slice and huge indexes and several offsets (value, or exception type,
     message and type of __cause__);
  2. random read / seek / readall sequences through the public API over
     random sector chains (also chains truncated after construction and
     parents that are too short), comparing returned bytes or exception,
     position and the log of seek / read operations on the parent stream;
  3. complete transcodings from 1..3 such streams (widths 1/2/4, both byte
     orders, patched host byte order, several block sizes, truncated
     chains so that the stop condition fires mid-way), byte for byte.

Exit 0 when everything agrees, 1 otherwise.
"""
from io import BytesIO
from io import SEEK_CUR
from io import SEEK_END
from io import SEEK_SET
import itertools
import random
import sys
from unittest.mock import patch

import smpl_extract.transcoder as T
from smpl_extract.data_streams import DataStream
from smpl_extract.data_streams import Endianess
from smpl_extract.data_streams import StreamEncoding
from smpl_extract.util.fat import FileStream
from smpl_extract.util.sector import SectorStream
from smpl_extract.util.stream import SectorReadError


class FileStream_ORIG(FileStream):

    def _get_address_given_sector_index(
            self,
            sector_index: int,
            offset: int
        ):
        try:
            sector  = self.sector_list[sector_index]
        except IndexError as e:
            raise SectorReadError(
                f"Sector {sector_index} lies beyond the "
                f"{len(self.sector_list)} sectors of the file."
            ) from e
        result  = SectorStream._get_address_given_sector_index(
            self,
            sector,
            offset
        )
        return result


class LoggedBytesIO(BytesIO):
    def __init__(self, data):
        super().__init__(data)
        self.log = []

    def seek(self, offset, whence=SEEK_SET):
        self.log.append(("seek", offset, whence))
        return super().seek(offset, whence)

    def tell(self):
        self.log.append(("tell",))
        return super().tell()

    def read(self, size=-1):
        self.log.append(("read", size))
        return super().read(size)


failures = []
checks = 0


def outcome(f, *args):
    try:
        value = f(*args)
        return ("ok", type(value).__name__, value)
    except Exception as e:  # noqa: BLE001 - compared by type and text
        cause = type(e.__cause__).__name__
        context = type(e.__context__).__name__
        return ("exc", type(e).__name__, str(e), cause, context,
                e.__suppress_context__)


def check(label, a, b):
    global checks
    checks += 1
    if a != b:
        failures.append((label, a, b))


def pattern(n, seed=0):
    rnd = random.Random(seed)
    return bytes(rnd.randrange(256) for _ in range(n))


# ---------------------------------------------------------------- 1. direct
chains = [[], [0], [3, 1, 2], [5, 5, 5, 0], list(range(9, -1, -1)),
          [2.5, "x", None], (4, 2)]
indexes = [0, 1, 2, 3, 4, 9, 10, 11, -1, -2, -3, -4, -10, -11, 100, -100,
           True, False, 10 ** 30, 1.0, None, "1", slice(0, 2), slice(None)]
offsets = [0, 1, 7, 511, 512, -1, 2.5, None]
for chain, index, offset, sector_size in itertools.product(
        chains, indexes, offsets, (1, 16, 512)):
    parent = pattern(64)
    new = FileStream(LoggedBytesIO(parent), sector_size, list(chain)
                     if isinstance(chain, list) else chain)
    old = FileStream_ORIG(LoggedBytesIO(parent), sector_size, list(chain)
                          if isinstance(chain, list) else chain)
    label = ("direct", repr(chain), repr(index), repr(offset), sector_size)
    check(label,
          outcome(new._get_address_given_sector_index, index, offset),
          outcome(old._get_address_given_sector_index, index, offset))
    check(label + ("log",), new.substream.log, old.substream.log)


# ------------------------------------------------------------ 2. sequences
def run_sequence(cls, parent, sector_size, chain, truncate_to, ops):
    sub = LoggedBytesIO(parent)
    stream = cls(sub, sector_size, list(chain))
    if truncate_to is not None:
        del stream.sector_list[truncate_to:]
    trace = []
    for op in ops:
        if op[0] == "read":
            trace.append(outcome(stream.read, op[1]))
        elif op[0] == "seek":
            trace.append(outcome(stream.seek, op[1], op[2]))
        elif op[0] == "readall":
            trace.append(outcome(stream.readall))
        else:
            trace.append(outcome(stream.tell))
        trace.append((stream.position, stream.true_size))
    return trace, sub.log


rnd = random.Random(4321)
for case in range(800):
    sector_size = rnd.choice([1, 2, 4, 8, 16, 64])
    num_parent_sectors = rnd.randrange(1, 24)
    parent_len = num_parent_sectors * sector_size
    if rnd.random() < 0.2:
        parent_len -= rnd.randrange(0, sector_size + 1)
    parent = pattern(max(0, parent_len), seed=case)
    chain_len = rnd.randrange(0, 12)
    chain = [rnd.randrange(0, num_parent_sectors + rnd.choice([0, 0, 0, 3]))
             for _ in range(chain_len)]
    truncate_to = None
    if chain_len and rnd.random() < 0.35:
        truncate_to = rnd.randrange(0, chain_len)
    ops = []
    for _ in range(rnd.randrange(1, 10)):
        kind = rnd.choice(["read", "read", "read", "seek", "readall", "tell"])
        if kind == "read":
            ops.append(("read", rnd.choice(
                [0, 1, 2, 3, sector_size, sector_size + 1, 2 * sector_size,
                 3 * sector_size + 1, 4096, None, -1])))
        elif kind == "seek":
            ops.append(("seek",
                        rnd.choice([0, 1, -1, sector_size, -sector_size,
                                    2 * sector_size + 1, 1000, -1000]),
                        rnd.choice([SEEK_SET, SEEK_CUR, SEEK_END])))
        else:
            ops.append((kind,))
    label = ("sequence", case, sector_size, tuple(chain), truncate_to,
             tuple(ops))
    check(label,
          run_sequence(FileStream, parent, sector_size, chain, truncate_to,
                       ops),
          run_sequence(FileStream_ORIG, parent, sector_size, chain,
                       truncate_to, ops))


# known answer: chained sectors are read in chain order
parent = bytes(range(40))
stream = FileStream(BytesIO(parent), 8, [3, 0, 4])
check("known", stream.read(24), parent[24:32] + parent[0:8] + parent[32:40])
check("known error",
      outcome(stream._get_address_given_sector_index, 3, 0)[:4],
      ("exc", "SectorReadError",
       "Sector 3 lies beyond the 3 sectors of the file.", "IndexError"))


# --------------------------------------------------------- 3. transcodings
def transcode(cls, sources, host, block):
    """sources: list of (parent, sector_size, chain, truncate_to, nch, width,
    order)."""
    out = []
    streams = []
    total = 0
    width = sources[0][5]
    for parent, sector_size, chain, truncate_to, nch, w, order in sources:
        fs = cls(LoggedBytesIO(parent), sector_size, list(chain))
        if truncate_to is not None:
            del fs.sector_list[truncate_to:]
        enc = StreamEncoding(endianess=order, sample_width=w,
                             num_interleaved_channels=nch)
        streams.append(DataStream(fs, enc))
        total += max(1, nch)
    dest = StreamEncoding(endianess=Endianess.LITTLE, sample_width=width,
                          num_interleaved_channels=total)
    defaults = T.get_num_frames_possible.__defaults__
    try:
        with patch.object(T, "system_byte_order", host):
            T.get_num_frames_possible.__defaults__ = (block,)
            transcoder = T.make_transcoder(streams, dest)
            out.append(type(transcoder).__name__)
            for chunk in transcoder:
                out.append(bytes(chunk))
    except Exception as e:  # noqa: BLE001
        out.append(("exc", type(e).__name__, str(e)))
    finally:
        T.get_num_frames_possible.__defaults__ = defaults
    out.append([s.stream.position for s in streams])
    out.append([s.stream.substream.log for s in streams])
    return out


orders = [Endianess.LITTLE, Endianess.BIG]
rnd = random.Random(77)
case = 0
for num_streams in (1, 2, 3):
    for width in (1, 2, 4):
        for stream_orders in itertools.product(orders, repeat=num_streams):
            for host in orders:
                for block in (1, width, 3 * width, 64, 4096):
                    for variant in ("equal", "unequal", "truncated"):
                        case += 1
                        sector_size = rnd.choice([4, 8, 12, 32])
                        parent_sectors = 16
                        parent = pattern(parent_sectors * sector_size, case)
                        equal_len = rnd.randrange(0, 8)
                        sources = []
                        for i in range(num_streams):
                            nch = rnd.choice([1, 1, 2, 3])
                            n = equal_len if variant == "equal" \
                                else rnd.randrange(0, 8)
                            chain = [rnd.randrange(parent_sectors)
                                     for _ in range(n)]
                            truncate_to = None
                            if variant == "truncated" and n:
                                truncate_to = rnd.randrange(0, n)
                            sources.append((parent, sector_size, chain,
                                            truncate_to, nch, width,
                                            stream_orders[i]))
                        label = ("transcode", case, variant, host, block)
                        check(label,
                              transcode(FileStream, sources, host, block),
                              transcode(FileStream_ORIG, sources, host,
                                        block))


print(f"{checks} checks, {len(failures)} disagreements")
for failure in failures[:5]:
    print("DISAGREE", failure)
sys.exit(1 if failures else 0)
