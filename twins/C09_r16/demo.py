"""Equivalence demo for r16: roland.s7xx.image.RolandS7xxImageAdapter._decode_element
(what the Roland branch of actions.determine_image_type returns once
is_roland_s7xx_image said yes).

The refactoring builds the RolandS7xxImage from keyword arguments: the eleven
values copied from the ID area are collected into a dict driven by a new
module-level tuple of field names and expanded with **, and volumes / fat are
passed by keyword instead of positionally.

The ORIGINAL method body is pasted below.  Checks:
  * the name tuple (when present) is exactly the first eleven dataclass fields
    of RolandS7xxImage, in order, and all of them are fields of IdArea;
  * on many synthetic parsed containers (random values of assorted types) the
    live method and the original produce images whose every dataclass field is
    the same object, with the same _children, and whose _f_realize_children
    closure behaves the same (updates the context, returns the volumes list);
  * with a spying container / id_area the sequence of attribute reads is the
    same, and a missing attribute raises the same AttributeError at the same
    point;
  * end to end: generated minimal Roland images (random disk names / counters,
    sizes that are and are not multiples of 2048) delivered raw, as 2352-byte
    sectors, MDX-wrapped and through cue sheets written to a fresh temp
    directory are all recognised as Roland, give the expected field values and
    the same `ls` text.
"""
import contextlib
import dataclasses
import io
import os
import random
import shutil
import struct
import sys
import tempfile
from typing import cast

from construct.lib.containers import Container

from smpl_extract import actions
from smpl_extract.alcohol.mdx import MdxHeaderConstruct
from smpl_extract.roland.s7xx import image as image_module
from smpl_extract.roland.s7xx.data_types import FAT_AREA_ID
from smpl_extract.roland.s7xx.data_types import FAT_AREA_OFFSET
from smpl_extract.roland.s7xx.data_types import FAT_AREA_SIZE
from smpl_extract.roland.s7xx.image import IdArea
from smpl_extract.roland.s7xx.image import IdAreaStruct
from smpl_extract.roland.s7xx.image import RolandS7xxImage
from smpl_extract.roland.s7xx.image import RolandS7xxImageAdapter
from smpl_extract.roland.s7xx.image import RolandS7xxImageContainer
from smpl_extract.roland.s7xx.image import RolandS7xxImageStruct
from smpl_extract.roland.s7xx.image import is_roland_s7xx_image


# ---- the ORIGINAL method, verbatim ------------------------------------------
def original_decode_element(self, obj, child_info, context, path):
    del child_info, path

    container = cast(RolandS7xxImageContainer, obj)
    result = RolandS7xxImage(
        container.id_area.revision,
        container.id_area.model_version,
        container.id_area.disk_type,
        container.id_area.disk_version,
        container.id_area.disk_name,
        container.id_area.disk_capacity,
        container.id_area.num_volumes,
        container.id_area.num_performances,
        container.id_area.num_patches,
        container.id_area.num_partials,
        container.id_area.num_samples,
        container.volumes,
        container.fat,
        _f_realize_children=self.wrap_child_realization(  # type: ignore
            lambda: container.volumes,  # type: ignore
            context
        )
    )
    return result


ID_FIELDS = [f.name for f in dataclasses.fields(IdArea)]
IMAGE_FIELDS = [f.name for f in dataclasses.fields(RolandS7xxImage)]

failures = []
checks = 0


def check(label, a, b):
    global checks
    checks += 1
    if a != b:
        failures.append((label, a, b))


def outcome(fn):
    try:
        return ("ok", fn())
    except Exception as e:  # noqa: BLE001 - compared, not hidden
        return ("exc", type(e).__name__, str(e))


class Spy:
    """Attribute bag that logs every attribute read into a shared list."""

    def __init__(self, tag, log, values):
        object.__setattr__(self, "_tag", tag)
        object.__setattr__(self, "_log", log)
        object.__setattr__(self, "_values", values)

    def __getattr__(self, name):
        self._log.append((self._tag, name))
        try:
            return self._values[name]
        except KeyError:
            raise AttributeError(f"{self._tag} has no {name}") from None


def random_value(rng):
    return rng.choice([
        rng.randint(-5, 70000), rng.random(), None, True, "", "S-770", "Hard Disk", "2.25 beta",
        "näme", b"bytes", (1, 2), object(), [rng.randint(0, 9)],
    ])


def describe(image):
    """Everything observable on a freshly decoded image (closure checked apart)."""
    fields = [(name, id(getattr(image, name))) for name in IMAGE_FIELDS if name != "_f_realize_children"]
    return (
        type(image).__name__,
        fields,
        image._children,
        sorted(vars(image)),
        callable(image._f_realize_children),
    )


def mdf_wrap(payload):
    out = bytearray()
    for i in range(0, len(payload), 2048):
        body = payload[i:i + 2048].ljust(2048, b"\0")
        out += b"\x00" + b"\xFF" * 10 + b"\x00" + struct.pack(">I", i // 2048)[1:] + b"\x01"
        out += body + bytes(288)
    return bytes(out)


def mdx_wrap(payload):
    return MdxHeaderConstruct.build(dict(
        copyright=b"\xA9" + b" " * 25,
        eof=MdxHeaderConstruct.sizeof() + len(payload),
    )) + payload


def make_roland_image(rng, extra):
    values = dict(
        revision=rng.randint(0, 2**32 - 1),
        s7xx_str=rng.choice(["S770 MR25A", "S750\tMR25A", "s760 mr25a"]),
        empty_str="",
        version_str=rng.choice(["S-770 Hard Disk Ver. 2.25", "S-750 MO Disk Ver 1.02a", "SP-700 CD-ROM Disk Ver.3"]),
        copyright_str="Copyright Roland",
        disk_name=rng.choice(["MYDISK", "", "A B C", "0123456789ABCDEF"]),
        disk_capacity=rng.randint(0, 2**32 - 1),
        num_volumes=0,
        num_performances=0,
        num_patches=rng.randint(0, 0xFFFF),
        num_partials=rng.randint(0, 0xFFFF),
        num_samples=rng.randint(0, 0xFFFF),
    )
    img = bytearray(0x110000 + extra)
    ida = IdAreaStruct.build(values)
    img[:len(ida)] = ida
    fat = bytearray(FAT_AREA_SIZE)
    struct.pack_into("<HH", fat, 0, FAT_AREA_ID, 77)
    struct.pack_into("<HH", fat, FAT_AREA_SIZE - 4, 0xFFFF, 0xFFFF)
    img[FAT_AREA_OFFSET:FAT_AREA_OFFSET + FAT_AREA_SIZE] = fat
    return bytes(img), values


def ls_text(image, path=""):
    buf = io.StringIO()
    with contextlib.redirect_stdout(buf):
        actions.ls_action(image, path)
    return buf.getvalue()


def main():
    rng = random.Random(0x516)
    adapter = RolandS7xxImageAdapter(RolandS7xxImageStruct)

    # -- the name table ----------------------------------------------------------
    table = getattr(image_module, "_ID_AREA_IMAGE_FIELDS", None)
    if table is not None:
        check("table == leading image fields", list(table), IMAGE_FIELDS[:len(table)])
        check("table == id area fields", list(table), ID_FIELDS)
    check("image fields", IMAGE_FIELDS, ID_FIELDS + ["volumes", "fat", "_f_realize_children"])

    # -- synthetic containers ----------------------------------------------------
    for n in range(3000):
        id_area = IdArea(**{name: random_value(rng) for name in ID_FIELDS})
        volumes = [object() for _ in range(rng.randint(0, 3))]
        container = Container(id_area=id_area, fat_area=object(), fat=object(), volumes=volumes,
                              _dir_version=rng.randint(1, 2))
        ctx_a = {"_elem_name": "x", "k": n}
        ctx_b = {"_elem_name": "x", "k": n}
        a = adapter._decode_element(container, None, ctx_a, "(parsing)")
        b = original_decode_element(adapter, container, None, ctx_b, "(parsing)")
        check(("synthetic", n), describe(a), describe(b))
        for name in ID_FIELDS:
            check(("value identity", n, name), getattr(a, name) is getattr(id_area, name), True)
        check(("volumes identity", n), (a.volumes is volumes, a.fat is container.fat), (True, True))
        additions = {"_elem_parent": a, "_elem_routines": {"r": n}}
        ra = a._f_realize_children(dict(additions))
        rb = b._f_realize_children(dict(additions, _elem_parent=b))
        check(("closure result", n), (ra is volumes, rb is volumes), (True, True))
        check(("closure context", n), (sorted(ctx_a), ctx_a["_elem_routines"], ctx_a["_elem_parent"] is a),
              (sorted(ctx_b), ctx_b["_elem_routines"], ctx_b["_elem_parent"] is b))
        # the closure reads container.volumes lazily
        replacement = [object()]
        container.volumes = replacement
        check(("closure is lazy", n), (a._f_realize_children({}) is replacement, b._f_realize_children({}) is replacement),
              (True, True))

    # -- order of attribute reads, and failure point --------------------------------
    for n in range(400):
        full = {name: random_value(rng) for name in ID_FIELDS}
        missing = rng.choice([None] + ID_FIELDS + ["volumes", "fat", "id_area"])
        logs, results = [], []
        for fn in (lambda c, ctx: adapter._decode_element(c, None, ctx, "p"),
                   lambda c, ctx: original_decode_element(adapter, c, None, ctx, "p")):
            log = []
            id_values = {k: v for k, v in full.items() if k != missing}
            top = {"id_area": Spy("id_area", log, id_values), "volumes": [1], "fat": "FAT"}
            top.pop(missing, None)
            spy = Spy("container", log, top)
            out = outcome(lambda: fn(spy, {}))
            results.append(out if out[0] == "exc" else ("ok", type(out[1]).__name__))
            logs.append(log)
        check(("spy result", n, missing), results[0], results[1])
        check(("spy reads", n, missing), logs[0], logs[1])

    # -- end to end --------------------------------------------------------------
    workdir = tempfile.mkdtemp(prefix="r16_demo_")
    try:
        for n in range(6):
            extra = rng.choice([0, 0, 1, 777, 2048, 4095])
            payload, values = make_roland_image(rng, extra)
            check(("signature", n), is_roland_s7xx_image(io.BytesIO(payload)), True)
            blobs = {"raw": payload, "mdf": mdf_wrap(payload), "mdx": mdx_wrap(payload)}
            paths = {}
            for kind, blob in blobs.items():
                paths[kind] = os.path.join(workdir, f"img{n}.{kind}")
                with open(paths[kind], "wb") as f:
                    f.write(blob)
            for kind in ("raw", "mdf"):
                cue = os.path.join(workdir, f"img{n}.{kind}.cue")
                with open(cue, "w", encoding="ascii") as f:
                    f.write(f"FILE \"img{n}.{kind}\" BINARY\n  TRACK 01 MODE1/2352\n    INDEX 01 00:00:00\n")
                paths["cue->" + kind] = cue

            listings = {}
            for kind, path in paths.items():
                image = actions.determine_image_type(path)
                check(("e2e type", n, kind), type(image).__name__, "RolandS7xxImage")
                got = {name: getattr(image, name) for name in ID_FIELDS}
                want = dict(
                    revision=values["revision"],
                    disk_name=values["disk_name"], disk_capacity=values["disk_capacity"],
                    num_volumes=0, num_performances=0, num_patches=values["num_patches"],
                    num_partials=values["num_partials"], num_samples=values["num_samples"],
                )
                check(("e2e values", n, kind), {k: got[k] for k in want}, want)
                check(("e2e strings", n, kind),
                      all(isinstance(got[k], str) and got[k] for k in ("model_version", "disk_type", "disk_version")), True)
                check(("e2e volumes", n, kind), (image.volumes, image._children), ([], None))
                listings[kind] = (got["model_version"], got["disk_type"], got["disk_version"], ls_text(image))
            check(("e2e same everywhere", n), len(set(listings.values())), 1)
    finally:
        shutil.rmtree(workdir, ignore_errors=True)

    print(f"{checks} checks, {len(failures)} disagreements")
    for f in failures[:10]:
        print("  MISMATCH", repr(f)[:400])
    return 1 if failures else 0


if __name__ == "__main__":
    sys.exit(main())
