"""Equivalence demo for r12 (info rendering of a single item:
InfoTree.print_tree / to_string).

`print_tree` as currently in the tree is compared with an inline copy of the
ORIGINAL implementation on:
  * hand-written item structures: nested mappings / lists / tuples, empty
    containers, strings at every level (a str is itself a Sequence), custom
    Mapping and Sequence classes, non-str keys (join fails), values without
    len() (ints, None), generators, self-referential containers
    (RecursionError), very deep and very wide structures;
  * every combination of those with odd layout parameters: total_width 0 /
    1 / 2 / 3 / 4 / negative / float / NaN / str, max_rows 0 / 1 / 2 / -1 /
    float / NaN / None, delimiters of length 0..3 and non-str delimiters,
    headers of length 0..4 including non-str cells, lists and strings;
  * thousands of randomly generated structures and parameters;
  * LeafElement.get_info().to_string() for dataclass leaves and the stdout of
    ls_action for leaf and directory paths of a synthetic image.
Same text or same exception type and message is required. Exit 0 when all
agree, else 1.
"""
from collections import OrderedDict
from collections import UserDict
from collections import UserList
from collections.abc import Mapping as AbcMapping
from collections.abc import Sequence as AbcSequence
import contextlib
from dataclasses import dataclass
from dataclasses import field
import io
from io import StringIO
import itertools
import random
import sys
from typing import List
from typing import Mapping
from typing import Sequence
from typing import Tuple

from smpl_extract.actions import ls_action
from smpl_extract.base import ElementTypes
from smpl_extract.elements import LeafElement
from smpl_extract.info import InfoTree
from smpl_extract.structural import Image
from smpl_extract.structural import Traversable


# ---- ORIGINAL implementation (verbatim, as a free function) ---------------
def orig_print_tree(self):


    @dataclass
    class RowEntry:
        content: Tuple[str, ...] = ("", )
        depth: int = 0
        is_divider: bool = False


    row_entries: Sequence[RowEntry] = []


    def build_inner(item, depth=0, prev_key="", row_entries=row_entries):

        if isinstance(item, Sequence) or isinstance(item, Mapping):

            if isinstance(item, Sequence):
                kv_pair = (
                    ("".join((prev_key, f"[{str(i)}]")), value)
                    for i,value in enumerate(item)
                )
            else:
                kv_pair = item.items()

            for key, value in kv_pair:
                    content = [f"{key}:"]
                    if isinstance(value, str):
                        content.append(str(value))
                    elif len(value) == 0:
                        content.append("None")
                    row_entries.append(RowEntry(tuple(content), depth))
                    # expand value
                    if not isinstance(value, str):
                        build_inner(
                            value,
                            depth=(depth + 1),
                            prev_key=key,
                            row_entries=row_entries
                        )


    row_entries.append(RowEntry(tuple(self.header)))
    row_entries.append(RowEntry(is_divider=True))  # divider
    build_inner(self.items)  # fill row_entries

    str_buffer = StringIO(newline="\n")
    # print tree
    for i, row in enumerate(row_entries):
        if i > self.max_rows:
            str_buffer.write("\n")
            str_buffer.write(f"(...) exceeded {self.max_rows} lines\n")
            break
        if row.is_divider:
            result = "-" * self.total_width
            str_buffer.write(result + "\n")
            continue

        column_values = ((" ", ) * row.depth) + row.content
        result = self.delimiter.join(column_values)
        if len(result) > self.total_width:
            result = result[0:self.total_width-3] + "..."
        str_buffer.write(result + "\n")

    result = str_buffer.getvalue()
    return result


class OrigInfoTree(InfoTree):
    print_tree = orig_print_tree


# ---- helper types ---------------------------------------------------------
class MyMapping(AbcMapping):
    def __init__(self, data):
        self._data = dict(data)

    def __getitem__(self, key):
        return self._data[key]

    def __iter__(self):
        return iter(self._data)

    def __len__(self):
        return len(self._data)


class MySequence(AbcSequence):
    def __init__(self, data):
        self._data = list(data)

    def __getitem__(self, index):
        return self._data[index]

    def __len__(self):
        return len(self._data)


class BothKinds(dict, AbcSequence):
    """A Mapping that also claims to be a Sequence (Sequence wins)."""
    def __getitem__(self, index):
        if isinstance(index, int):
            if index < 2:
                return f"item{index}"
            raise IndexError(index)
        return dict.__getitem__(self, index)


class StrSub(str):
    pass


class LenRaises:
    def __len__(self):
        raise RuntimeError("no len")


class BadFormatKey:
    def __format__(self, spec):
        raise ValueError("bad key format")

    def __hash__(self):
        return 7


def self_referential_list():
    value = ["a"]
    value.append(value)
    return value


def self_referential_dict():
    value = {"a": "b"}
    value["self"] = value
    return value


def deep(n, leaf="x"):
    value = leaf
    for i in range(n):
        value = {f"k{i}": value} if i % 2 else [value]
    return value


NAN = float("nan")


def fixed_items():
    return [
        {}, [], (), "", "abc", StrSub("sub"), None, 5, 1.5, b"bytes",
        bytearray(b"ba"), range(3), {"a": "b"}, {"a": ""}, {"a": {}},
        {"a": []}, {"a": ()}, {"a": None}, {"a": 0}, {"a": 7}, {"a": b""},
        {"a": b"xy"}, {"a": range(0)}, {"a": range(2)}, {"a": {"b": "c"}},
        {"a": {"b": {"c": {"d": "e"}}}}, {"a": ["x", "y"]},
        {"a": ("x", ("y", "z"))}, {"a": [[], [[]], [[["deep"]]]]},
        {"": ""}, {" ": " "}, {"k:": "v:"}, {"line\nbreak": "v\nw"},
        {"tab\t": "äöü ☃"}, {1: "int key"},
        {1: ["int key then seq"]}, {None: ["none key then seq"]},
        {("t", 1): "tuple key"}, {("t", 1): ["tuple key then seq"]},
        {StrSub("s"): ["strsub key then seq"]}, {"a": LenRaises()},
        {BadFormatKey(): "v"}, ["a", "b", "c"], ["a", ["b", ["c"]]],
        [{"a": "b"}, {"c": ["d"]}], ("x",), [""], [[]], [{}], [None], [3],
        ["x" * 200], {"k" * 100: "v" * 100}, {"a": "x" * 77},
        {"a": "x" * 76}, {"a": "x" * 78}, OrderedDict(b="1", a="2"),
        UserDict({"u": "d"}), UserList(["u", "l"]), MyMapping({"m": "v"}),
        MyMapping({"m": MyMapping({})}), MySequence(["s", MySequence([])]),
        MySequence([]), BothKinds(a="1"), {"both": BothKinds()},
        self_referential_list(), self_referential_dict(), deep(5), deep(30),
        deep(120, leaf=[]), {f"key{i}": f"value{i}" for i in range(400)},
        [str(i) for i in range(298)], [str(i) for i in range(299)],
        [str(i) for i in range(300)], {"a": (i for i in range(2))},
        (i for i in range(2)), {"name": "SAMPLE", "loops": [
            {"start": "0", "end": "10"}, {"start": "5", "end": "9"}],
            "tune": {"semi": "0", "cent": "-3"}, "empty": [], "text": ""},
    ]


HEADERS = [
    ("NAME", "  ", "Sample"), (), ("only",), ("a", "b", "c", "d"),
    ("", "", ""), ("x" * 90, " ", "T"), ["list", "header"], "str",
    ("ok", 5), (None,), ("ä", "\n", "\t"),
]
WIDTHS = [80, 0, 1, 2, 3, 4, 5, 10, -1, -10, 79, 1000, 80.0, 7.5, NAN, "80",
          None, True]
DELIMITERS = [" ", "", "--", " | ", "\n", None, 1, b" ", StrSub("+")]
MAX_ROWS = [300, 0, 1, 2, 3, -1, 5, 2.5, NAN, None, "3", True, 10 ** 6]


def observe(cls, header, items, kwargs, use_to_string):
    try:
        tree = cls(header, items, **kwargs)
        text = tree.to_string() if use_to_string else tree.print_tree()
        return ("ok", type(text).__name__, text)
    except RecursionError as exc:
        return ("exc", "RecursionError", str(exc))
    except BaseException as exc:  # noqa: B902
        return ("exc", type(exc).__name__, str(exc))


def _has_generator(value):
    # one level is enough for the fixtures above (and safe for the
    # self-referential ones)
    if isinstance(value, dict):
        return any(hasattr(v, "gi_frame") for v in value.values())
    return hasattr(value, "gi_frame")


FIXED = fixed_items()
SINGLE_USE = {i for i, value in enumerate(FIXED) if _has_generator(value)}


def regenerate(index):
    """The index-th fixed item; rebuilt when it holds a single-use
    generator."""
    if index in SINGLE_USE:
        return fixed_items()[index]
    return FIXED[index]


def random_item(rng, depth=0):
    r = rng.random()
    if depth > 4 or r < 0.35:
        return rng.choice([
            "", "v", "value " * rng.randint(1, 20), "ä☃", " ",
            StrSub("s"),
        ])
    if r < 0.40:
        return rng.choice([None, 0, 3, 2.5, b"", b"x", LenRaises()])
    n = rng.randint(0, 4)
    if r < 0.70:
        keys = [rng.choice(["a", "b", "key", "", " ", "long key " * 3, 1,
                            None, ("t",), StrSub("k")]) for _ in range(n)]
        return {k: random_item(rng, depth + 1) for k in keys}
    if r < 0.9:
        return [random_item(rng, depth + 1) for _ in range(n)]
    if r < 0.95:
        return tuple(random_item(rng, depth + 1) for _ in range(n))
    return rng.choice([MyMapping, UserDict])(
        {f"m{i}": random_item(rng, depth + 1) for i in range(n)}
    )


# ---- end to end -----------------------------------------------------------
@dataclass
class Loop:
    start: int = 0
    end: int = 10

    def itemize(self):
        return {"start": str(self.start), "end": str(self.end)}


@dataclass
class Leaf(LeafElement):
    type_id = ElementTypes.SampleEntry
    name: str = ""
    type_name: str = "Sample"
    rate: int = 44100
    note: str = "C3"
    loops: List[Loop] = field(default_factory=list)
    tags: tuple = ()
    extra: dict = field(default_factory=dict)
    _hidden: int = 1


LEAVES = [
    Leaf(name="PLAIN"),
    Leaf(name="LOOPS", loops=[Loop(), Loop(3, 4)], tags=("a", "b")),
    Leaf(name="", extra={"k": {"deep": ["x", {"y": "z"}]}, "e": {}}),
    Leaf(name="W" * 100, note="n" * 100, tags=tuple("t" * 90 for _ in "12")),
    Leaf(name="  PADDED  ", extra={i: str(i) for i in range(5)}),
    Leaf(name="MANY", tags=tuple(str(i) for i in range(400))),
    Leaf(name="A:B", extra={"bytes": b"raw", "none": None, "num": 3}),
]


class OrigLeafMixin:
    def get_info(self):
        header = (self.safe_name, " "*2, self.type_name)
        items = self.itemize()
        return OrigInfoTree(header, items)


class Dir(Traversable):
    pass


class TreeImage(Image):
    name = "Fake Image"
    type_name = "Fake Image"

    def __init__(self, leaves):
        def realize(ctx):
            folder = Dir(
                lambda c: list(leaves), routines=ctx["_elem_routines"],
                parent=ctx["_elem_parent"], type_name="Volume",
            )
            folder.name = "VOL"
            return [folder] + list(leaves)
        Traversable.__init__(self, realize)


def make_orig_leaves():
    @dataclass
    class OrigLeaf(OrigLeafMixin, Leaf):
        pass
    OrigLeaf.__name__ = OrigLeaf.__qualname__ = "Leaf"
    out = []
    for leaf in LEAVES:
        out.append(OrigLeaf(
            name=leaf.name, loops=list(leaf.loops), tags=leaf.tags,
            extra=dict(leaf.extra), note=leaf.note,
        ))
    return out


def make_new_leaves():
    return [
        Leaf(name=leaf.name, loops=list(leaf.loops), tags=leaf.tags,
             extra=dict(leaf.extra), note=leaf.note)
        for leaf in LEAVES
    ]


LS_PATHS = [
    "", "VOL", "PLAIN", "plain", "LOOPS", "VOL/LOOPS", "VOL/", "VOL/PADDED",
    " PADDED ", "A:B", "MANY", "VOL/MANY/", "W" * 100, "VOL/nope", "nope",
    "PLAIN/x", "/", "VOL//",
]


def capture_ls(leaves, path):
    image = TreeImage(leaves)
    buf = io.StringIO()
    try:
        with contextlib.redirect_stdout(buf):
            ls_action(image, path)
        return ("ok", buf.getvalue())
    except BaseException as exc:  # noqa: B902
        return ("exc", type(exc).__name__, str(exc), buf.getvalue())


def main():
    failures = 0
    checked = 0

    def compare(label, expected, actual):
        nonlocal failures, checked
        checked += 1
        if expected != actual:
            failures += 1
            if failures <= 5:
                print("MISMATCH", label)
                print("  expected", repr(expected)[:400])
                print("  actual  ", repr(actual)[:400])

    n_items = len(FIXED)
    assert len(SINGLE_USE) == 2, SINGLE_USE

    # every fixed item with default layout, via print_tree and to_string
    for index in range(n_items):
        for use_to_string in (False, True):
            expected = observe(
                OrigInfoTree, HEADERS[0], regenerate(index), {}, use_to_string
            )
            actual = observe(
                InfoTree, HEADERS[0], regenerate(index), {}, use_to_string
            )
            compare(("fixed", index, use_to_string), expected, actual)

    # every fixed item against every single odd parameter
    for index in range(n_items):
        variants = (
            [("header", h, {}) for h in HEADERS]
            + [("width", HEADERS[0], {"total_width": w}) for w in WIDTHS]
            + [("delim", HEADERS[0], {"delimiter": d}) for d in DELIMITERS]
            + [("rows", HEADERS[0], {"max_rows": m}) for m in MAX_ROWS]
        )
        for kind, header, kwargs in variants:
            expected = observe(
                OrigInfoTree, header, regenerate(index), kwargs, False
            )
            actual = observe(InfoTree, header, regenerate(index), kwargs,
                             False)
            compare((kind, index, header, kwargs), expected, actual)

    # parameter cross product on a few representative items
    representative = [27, n_items - 1]
    for index in representative:
        for header, width, delim, rows in itertools.product(
            HEADERS[:3], WIDTHS, DELIMITERS, MAX_ROWS
        ):
            kwargs = {
                "total_width": width, "delimiter": delim, "max_rows": rows
            }
            expected = observe(
                OrigInfoTree, header, regenerate(index), kwargs, False
            )
            actual = observe(InfoTree, header, regenerate(index), kwargs,
                             False)
            compare(("cross", index, header, kwargs), expected, actual)

    # random structures and parameters
    rng = random.Random(1212)
    for n in range(6000):
        seed = rng.random()
        header = rng.choice(HEADERS)
        kwargs = {}
        if rng.random() < 0.5:
            kwargs["total_width"] = rng.choice(WIDTHS + [20, 30, 40])
        if rng.random() < 0.3:
            kwargs["delimiter"] = rng.choice(DELIMITERS)
        if rng.random() < 0.4:
            kwargs["max_rows"] = rng.choice(MAX_ROWS + [4, 6, 8])
        expected = observe(
            OrigInfoTree, header, random_item(random.Random(seed)), kwargs,
            False
        )
        actual = observe(
            InfoTree, header, random_item(random.Random(seed)), kwargs, False
        )
        compare(("random", n, header, kwargs), expected, actual)

    # leaves: get_info().to_string() and ls_action stdout
    for orig_leaf, new_leaf in zip(make_orig_leaves(), make_new_leaves()):
        expected = orig_leaf.get_info().to_string()
        actual = new_leaf.get_info().to_string()
        compare(("leaf", new_leaf.name), expected, actual)
        if type(new_leaf.get_info()) is not InfoTree:
            compare(("leaf info type", new_leaf.name), "InfoTree",
                    type(new_leaf.get_info()).__name__)
    for path in LS_PATHS:
        expected = capture_ls(make_orig_leaves(), path)
        actual = capture_ls(make_new_leaves(), path)
        compare(("ls", path), expected, actual)
    sample = capture_ls(make_new_leaves(), "VOL/LOOPS")
    if sample[0] != "ok" or "loops[1]:" not in sample[1]:
        print("UNEXPECTED leaf rendering", sample)
        failures += 1
    sample = capture_ls(make_new_leaves(), "MANY")
    if sample[0] != "ok" or "(...) exceeded 300 lines" not in sample[1]:
        print("UNEXPECTED long leaf rendering", repr(sample)[:300])
        failures += 1

    print(f"checked {checked} cases, {failures} mismatches")
    return 1 if failures else 0


if __name__ == "__main__":
    sys.exit(main())
