"""Equivalence demo for r16: smpl_extract/formats/wav.py WavRiffChunkType.

The chunk-id enum used by WavRiffChunkStruct (and therefore by the
length-prefixed RiffStruct) is now built by keyword expansion of a dict
comprehension over the new module-level table _RIFF_CHUNK_FOURCCS instead of
three literal keyword arguments.

The demo re-creates the ORIGINAL enum (and, on top of it, the original
WavRiffChunkStruct / WavRiffBodyStruct / RiffStruct using the live, untouched
chunk body structs) and compares with the live definitions:
  * the enum's mappings (content AND order), member attributes, their int /
    str values, equality and hashing, unknown attribute errors,
  * build / parse of the enum for members, strings, ints, unknown values,
  * the Switch case table of the live WavRiffChunkStruct,
  * bytes built for whole RIFF files with fmt / smpl / data chunks where the
    data comes from lists, generators that stop early and real transcoders
    over complete and truncated sector streams; length prefixes in the bytes
    are checked against an independent computation,
  * parsing the built bytes and truncated / corrupted variants,
  * WavSampleBuilder (generalized/wav.py) output for samples whose streams
    are cut short, written to files in a fresh temporary directory.
Exit 0 when everything agrees, 1 otherwise.
"""
from io import BytesIO
import os
import random
import shutil
import struct
import sys
import tempfile

from construct.core import Const
from construct.core import Enum as EnumConstruct
from construct.core import GreedyRange
from construct.core import Int32ul
from construct.core import Prefixed
from construct.core import Struct
from construct.core import Switch
from construct.expr import this
from construct.lib.containers import Container

from smpl_extract.data_streams import DataStream
from smpl_extract.data_streams import Endianess
from smpl_extract.data_streams import StreamEncoding
from smpl_extract.formats import wav as live
from smpl_extract.formats.wav import WavDataChunkStruct
from smpl_extract.formats.wav import WavFormatChunkContainer
from smpl_extract.formats.wav import WavFormatChunkStruct
from smpl_extract.formats.wav import WavLoopContainer
from smpl_extract.formats.wav import WavLoopType
from smpl_extract.formats.wav import WavSampleChunkContainer
from smpl_extract.formats.wav import WavSampleChunkStruct
from smpl_extract.generalized import wav as gen_wav
from smpl_extract.generalized.sample import Sample
from smpl_extract.midi import MidiNote
from smpl_extract.transcoder import make_transcoder
from smpl_extract.util import bytes2int
from smpl_extract.util.fat import FileStream


# --------------------------------------------------------------------------
# ORIGINAL definitions (verbatim copies, names suffixed with _orig; the chunk
# body structs are the live, unchanged ones)
# --------------------------------------------------------------------------
WavRiffChunkType_orig = EnumConstruct(
    Int32ul,
    FMT=bytes2int(b"fmt "),
    SMPL=bytes2int(b"smpl"),
    DATA=bytes2int(b"data"),
)
WavRiffChunkStruct_orig = Struct(
    "riff_id"   / WavRiffChunkType_orig,
    "data"      / Prefixed(Int32ul,
        Switch(this.riff_id, {
            WavRiffChunkType_orig.FMT:  WavFormatChunkStruct,
            WavRiffChunkType_orig.SMPL: WavSampleChunkStruct,
            WavRiffChunkType_orig.DATA: WavDataChunkStruct
        })
    )
)


WavRiffBodyStruct_orig = Struct(
    "fourcc"    / Const(b"WAVE"),
    "chunks"    / GreedyRange(WavRiffChunkStruct_orig)
)


RiffStruct_orig = Struct(
    "fourcc"    / Const(b"RIFF"),
    "data"      / Prefixed(Int32ul, WavRiffBodyStruct_orig),
)


# --------------------------------------------------------------------------
failures = 0
checks = 0


def check(cond, what):
    global failures, checks
    checks += 1
    if not cond:
        failures += 1
        if failures <= 20:
            print("MISMATCH:", str(what)[:600])


def outcome(f):
    try:
        return ("ok", f())
    except BaseException as e:  # noqa
        return ("exc", type(e).__name__, str(e))


def plain(obj):
    """Containers / lazies / enum strings -> plain comparable data."""
    if callable(obj) and not isinstance(obj, type):
        return ("lazy", plain(obj()))
    if isinstance(obj, dict):
        return {k: plain(v) for k, v in obj.items() if k != "_io"}
    if isinstance(obj, (list, tuple)):
        return [plain(x) for x in obj]
    if hasattr(obj, "intvalue"):
        return ("enum", str(obj), obj.intvalue)
    if isinstance(obj, MidiNote):
        return ("note", obj.to_midi_byte())
    return obj


def test_enum():
    a = WavRiffChunkType_orig
    b = live.WavRiffChunkType
    check(type(a) is type(b), "enum construct type")
    check(list(a.encmapping.items()) == list(b.encmapping.items()),
          f"encmapping {a.encmapping} != {b.encmapping}")
    check(list(a.decmapping.items()) == list(b.decmapping.items()),
          "decmapping")
    check(list(a.ksymapping.items()) == list(b.ksymapping.items()),
          "ksymapping")
    check(type(a.subcon) is type(b.subcon) and a.subcon is b.subcon,
          "enum subcon")
    check(a.sizeof() == b.sizeof() == 4, "enum sizeof")
    for name in ("FMT", "SMPL", "DATA"):
        ma, mb = getattr(a, name), getattr(b, name)
        check(type(ma) is type(mb), f"member type {name}")
        check(ma == mb and str(ma) == str(mb) == name, f"member str {name}")
        check(ma.intvalue == mb.intvalue, f"member int {name}")
        check(hash(ma) == hash(mb), f"member hash {name}")
        check({ma: 1}.get(mb) == 1 and {mb: 1}.get(ma) == 1,
              f"member as dict key {name}")
    for name in ("LIST", "fmt", "fmt ", "_RIFF", "encmapping2"):
        ra = outcome(lambda: getattr(a, name))
        rb = outcome(lambda: getattr(b, name))
        check(ra == rb, f"unknown member {name}: {ra} != {rb}")

    values = [a.FMT, a.SMPL, a.DATA, b.FMT, b.SMPL, b.DATA,
              "FMT", "SMPL", "DATA", "fmt ", "LIST", "", 0, 1, -1,
              bytes2int(b"fmt "), bytes2int(b"smpl"), bytes2int(b"data"),
              bytes2int(b"LIST"), 0xFFFFFFFF, 0x100000000, None, 1.5, b"fmt "]
    for v in values:
        ra = outcome(lambda: a.build(v))
        rb = outcome(lambda: b.build(v))
        check(ra == rb, f"enum build {v!r}: {ra} != {rb}")
    raws = [b"fmt ", b"smpl", b"data", b"LIST", b"FMT ", b"\0\0\0\0",
            b"fmt", b"", b"data-and-more", b"\xff\xff\xff\xff"]
    for raw in raws:
        ra = outcome(lambda: plain(a.parse(raw)))
        rb = outcome(lambda: plain(b.parse(raw)))
        check(ra == rb, f"enum parse {raw!r}: {ra} != {rb}")

    # the switch inside the live chunk struct is keyed by the live members
    switch_a = WavRiffChunkStruct_orig.subcons[1].subcon.subcon
    switch_b = live.WavRiffChunkStruct.subcons[1].subcon.subcon
    check(isinstance(switch_b, Switch), "live switch found")
    check(
        [(str(k), k.intvalue, v is w) for (k, v), (_, w) in
         zip(switch_a.cases.items(), switch_b.cases.items())]
        == [("FMT", bytes2int(b"fmt "), True),
            ("SMPL", bytes2int(b"smpl"), True),
            ("DATA", bytes2int(b"data"), True)],
        "switch cases"
    )
    check([str(k) for k in switch_b.cases] == ["FMT", "SMPL", "DATA"],
          "switch case order")


# --- independent reference encoder for the length prefixes -----------------
def ref_riff(chunks):
    body = b"WAVE"
    for cid, payload in chunks:
        body += cid + struct.pack("<I", len(payload)) + payload
    return b"RIFF" + struct.pack("<I", len(body)) + body


def ref_fmt(fmt):
    # (item access: attribute access on the dataclass containers would give
    # the class-level defaults)
    audio_format = fmt["audio_format"]
    channel_cnt = fmt["channel_cnt"]
    sample_rate = fmt["sample_rate"]
    bits_per_sample = fmt["bits_per_sample"]
    return struct.pack(
        "<HHIIHH", audio_format, channel_cnt, sample_rate,
        sample_rate * channel_cnt * bits_per_sample // 8,
        channel_cnt * bits_per_sample // 8, bits_per_sample
    )


def random_fmt(rng):
    return WavFormatChunkContainer(
        audio_format=1,
        channel_cnt=rng.choice([1, 2]),
        sample_rate=rng.choice([0, 8000, 22050, 44100, 48000]),
        bits_per_sample=rng.choice([8, 16])
    )


def random_smpl(rng):
    loops = [
        WavLoopContainer(
            cue_id=i,
            loop_type=rng.choice(list(WavLoopType)),
            start_byte=rng.randint(0, 1000),
            end_byte=rng.randint(0, 100000),
            fraction=0,
            play_cnt=rng.randint(0, 5)
        )
        for i in range(rng.randint(0, 3))
    ]
    return WavSampleChunkContainer(
        sample_period=rng.randint(0, 100000),
        midi_note=MidiNote.from_midi_byte(rng.randint(12, 100)),
        pitch_fraction=rng.randint(0, 0xFFFFFFFF),
        sample_loops=loops,
        sampler_data=b""
    )


def early_stop_generator(parts, stop_after):
    for i, part in enumerate(parts):
        if i >= stop_after:
            return
        yield part


def make_stream_transcoder(seed, truncated):
    local = random.Random(seed)
    sector_size = local.choice([4, 16, 64, 512])
    num_parent_sectors = local.randint(1, 16)
    full = bytes(
        local.getrandbits(8) for _ in range(sector_size * num_parent_sectors)
    )
    cut = local.randint(0, len(full))
    data = full[:cut] if truncated else full
    num_streams = local.choice([1, 2])
    width = local.choice([1, 2])
    src_endian = local.choice([Endianess.LITTLE, Endianess.BIG])
    streams = []
    for _ in range(num_streams):
        n = local.randint(1, 10)
        sector_list = [
            local.randint(0, num_parent_sectors - 1) for _ in range(n)
        ]
        streams.append(DataStream(
            FileStream(BytesIO(data), sector_size, sector_list),
            StreamEncoding(src_endian, width, 1)
        ))
    dest = StreamEncoding(Endianess.LITTLE, width, num_streams)
    return streams, dest


def test_riff(rng: random.Random):
    ids_a = WavRiffChunkType_orig
    ids_b = live.WavRiffChunkType
    for case in range(300):
        fmt = random_fmt(rng)
        smpl = random_smpl(rng) if rng.random() < 0.5 else None
        parts = [
            bytes(rng.getrandbits(8) for _ in range(rng.randint(0, 40)))
            for _ in range(rng.randint(0, 6))
        ]
        mode = rng.choice(["list", "gen", "early", "transcoder", "cut"])
        seed = rng.getrandbits(32)
        stop_after = rng.randint(0, len(parts))

        def data_source():
            if mode == "list":
                return list(parts)
            if mode == "gen":
                return (p for p in parts)
            if mode == "early":
                return early_stop_generator(parts, stop_after)
            streams, dest = make_stream_transcoder(seed, mode == "cut")
            return make_transcoder(streams, dest)

        def obj(ids, how):
            chunks = []
            key = {
                "member": lambda n: getattr(ids, n),
                "string": lambda n: n,
                "int": lambda n: getattr(ids, n).intvalue,
            }[how]
            chunks.append(Container(riff_id=key("FMT"), data=fmt))
            if smpl is not None:
                chunks.append(Container(riff_id=key("SMPL"), data=smpl))
            chunks.append(Container(riff_id=key("DATA"), data=data_source()))
            return Container(data=Container(chunks=chunks))

        how = rng.choice(["member", "member", "string", "int"])
        ra = outcome(lambda: RiffStruct_orig.build(obj(ids_a, how)))
        rb = outcome(lambda: live.RiffStruct.build(obj(ids_b, how)))
        check(ra == rb, f"riff build case {case} ({mode}, {how}): differ")
        # members of one enum used with the other struct
        rc = outcome(lambda: live.RiffStruct.build(obj(ids_a, "member")))
        rd = outcome(lambda: RiffStruct_orig.build(obj(ids_b, "member")))
        check(rc == rd, f"riff cross build case {case}: differ")
        if how == "member":
            check(rc == ra, f"riff cross build case {case}: differ from own")

        if rb[0] != "ok":
            continue
        raw = rb[1]
        # (with plain ints as ids the Switch finds no case and the chunk
        # bodies are empty in both versions; no reference for that)
        if mode in ("list", "gen", "early") and how != "int":
            used = parts if mode != "early" else parts[:stop_after]
            expected_chunks = [(b"fmt ", ref_fmt(fmt))]
            if smpl is not None:
                smpl_raw = WavSampleChunkStruct.build(smpl)
                expected_chunks.append((b"smpl", smpl_raw))
            expected_chunks.append((b"data", b"".join(used)))
            check(raw == ref_riff(expected_chunks),
                  f"riff build case {case} ({mode}): differs from reference "
                  f"encoder\n  {raw!r}\n  {ref_riff(expected_chunks)!r}")
        # outer prefix covers everything that follows it
        check(struct.unpack("<I", raw[4:8])[0] == len(raw) - 8,
              f"riff case {case}: outer length prefix")

        # parse the result and damaged variants with both
        variants = [raw, raw[:rng.randint(0, len(raw))], raw[:-1], raw[:12],
                    raw[:8], raw + b"\0\0", b"RIFX" + raw[4:]]
        pos = rng.randint(8, max(8, len(raw) - 1))
        variants.append(raw[:pos] + b"\xff" + raw[pos + 1:])
        for i, v in enumerate(variants):
            pa = outcome(lambda: plain(RiffStruct_orig.parse(v)))
            pb = outcome(lambda: plain(live.RiffStruct.parse(v)))
            check(pa == pb, f"riff parse case {case} variant {i}: {pa} != {pb}")

    # unknown / odd chunk ids
    for rid in ("LIST", 12345, None, "fmt ", b"data"):
        o = Container(data=Container(chunks=[Container(riff_id=rid, data=[])]))
        ra = outcome(lambda: RiffStruct_orig.build(o))
        rb = outcome(lambda: live.RiffStruct.build(o))
        check(ra == rb, f"riff build odd id {rid!r}: {ra} != {rb}")


def test_builder(rng: random.Random, tmpdir: str):
    orig_builder = gen_wav.WavSampleAdapter(RiffStruct_orig)
    for case in range(150):
        seed = rng.getrandbits(32)
        truncated = rng.random() < 0.6
        with_smpl = rng.random() < 0.5

        def sample():
            streams, dest = make_stream_transcoder(seed, truncated)
            return Sample(
                name="s",
                data_streams=streams,
                num_channels=dest.num_interleaved_channels,
                sample_rate=44100,
                midi_note=MidiNote.from_string("C4") if with_smpl else None,
            )

        try:
            sample()
        except TypeError:
            # Sample's constructor signature is not what this demo assumes;
            # the struct-level comparison above already covers the change.
            print("note: Sample(...) signature differs, builder test skipped")
            return
        ra = outcome(lambda: orig_builder.build(sample()))
        rb = outcome(lambda: gen_wav.WavSampleBuilder.build(sample()))
        check(ra == rb, f"builder case {case}: output differs")
        path = os.path.join(tmpdir, f"case{case}.wav")
        rc = outcome(lambda: gen_wav.export_wav(sample(), path))
        if rc[0] == "ok" and ra[0] == "ok":
            with open(path, "rb") as f:
                check(f.read() == ra[1], f"builder case {case}: file differs")
        else:
            check(rc[0] == ra[0], f"builder case {case}: export outcome {rc}")


def main():
    rng = random.Random(0xC15D16)
    tmpdir = tempfile.mkdtemp(prefix="r16demo_")
    try:
        test_enum()
        test_riff(rng)
        test_builder(rng, tmpdir)
    finally:
        shutil.rmtree(tmpdir, ignore_errors=True)
    print(f"{checks} checks, {failures} mismatches")
    return 0 if failures == 0 else 1


if __name__ == "__main__":
    sys.exit(main())
