"""Equivalence demo for r20: smpl_extract/roland/s7xx/image.py, the declaration
RolandS7xxImageStruct - the parser that the Roland branch of
actions.determine_image_type runs (through RolandSxxImageParser) as soon as
is_roland_s7xx_image has recognised the ID area; it embeds the same
IdAreaAdapterParser.

The refactoring replaces the four context lambdas of the declaration
(`lambda this: this.fat_area.fat`, `lambda this: this.fat_area.version`,
`lambda this: this.id_area.num_volumes`, `lambda this: this.id_area.num_performances`)
by `operator.attrgetter("fat_area.fat")` etc.  (Note that construct's
`this.fat_area.fat` expression objects would NOT be equivalent here: they index
with [] and the values are dataclasses; attrgetter does the same getattr chain
as the lambda.)

The ORIGINAL declaration is pasted below.  Checks:
  * the four callables dug out of the live Struct against the original lambdas
    on many contexts: construct Containers holding dataclasses / Containers /
    plain objects, contexts with a missing or None member, plain dicts, objects
    with logging __getattr__ - same returned object (identity) or same
    exception type and message, and the same sequence of attribute reads;
  * both Structs have the same shape (classes, names) and sizeof outcome;
  * generated Roland images (random counters, num_volumes / num_performances
    from 0 to 3 over blank and over random directory bytes, broken FAT ids,
    truncated images, sizes that are and are not multiples of 2048) parsed with
    the live Struct and with the original: same fields / volumes / `ls` text or
    the same exception;
  * end to end: the images delivered raw, as 2352-byte sectors, MDX-wrapped and
    through cue sheets in a fresh temp directory are recognised as Roland and
    list the same.
"""
import contextlib
import dataclasses
import io
import os
import random
import shutil
import struct
import sys
import tempfile

from construct.core import Computed
from construct.core import FixedSized
from construct.core import Seek
from construct.core import Struct
from construct.lib.containers import Container

from smpl_extract import actions
from smpl_extract.alcohol.mdx import MdxHeaderConstruct
from smpl_extract.roland.s7xx.data_types import FAT_AREA_ID
from smpl_extract.roland.s7xx.data_types import FAT_AREA_OFFSET
from smpl_extract.roland.s7xx.data_types import FAT_AREA_SIZE
from smpl_extract.roland.s7xx.data_types import ID_AREA_SIZE
from smpl_extract.roland.s7xx.fat import FatArea
from smpl_extract.roland.s7xx.fat import FatAreaParser
from smpl_extract.roland.s7xx.image import IdArea
from smpl_extract.roland.s7xx.image import IdAreaAdapterParser
from smpl_extract.roland.s7xx.image import IdAreaStruct
from smpl_extract.roland.s7xx.image import RolandS7xxImageAdapter
from smpl_extract.roland.s7xx.image import RolandS7xxImageStruct
from smpl_extract.roland.s7xx.image import RolandSxxImageParser
from smpl_extract.roland.s7xx.image import is_roland_s7xx_image
from smpl_extract.roland.s7xx.volume_entry import VolumeEntriesList


# ---- the ORIGINAL declaration, verbatim ----------------------------------------
OriginalImageStruct = Struct(
    "id_area" / FixedSized(ID_AREA_SIZE, IdAreaAdapterParser),
    Seek(FAT_AREA_OFFSET),
    "fat_area" / FatAreaParser,
    "fat" / Computed(lambda this: this.fat_area.fat),
    "_dir_version" / Computed(lambda this: this.fat_area.version),
    "volumes" / VolumeEntriesList(
        lambda this: this.id_area.num_volumes,
        lambda this: this.id_area.num_performances
    )  # type: ignore
)
# --------------------------------------------------------------------------------


failures = []
checks = 0


def check(label, a, b):
    global checks
    checks += 1
    if a != b:
        failures.append((label, a, b))


def outcome(fn):
    try:
        return ("ok", fn())
    except Exception as e:  # noqa: BLE001 - compared, not hidden
        return ("exc", type(e).__name__, str(e))


def callables_of(image_struct):
    """The four context functions of a RolandS7xxImageStruct-like declaration."""
    by_name = {sub.name: sub for sub in image_struct.subcons if sub.name}
    volumes = by_name["volumes"].subcon          # Renamed -> VolumeEntriesList
    return {
        "fat": by_name["fat"].subcon.func,
        "_dir_version": by_name["_dir_version"].subcon.func,
        "num_volumes": volumes.subcon.count,      # the SafeListConstruct count
        "num_performances": volumes.num_performances,
    }


def shape(con, depth=0):
    out = [(depth, type(con).__name__, getattr(con, "name", None))]
    if depth > 2:
        return out
    if hasattr(con, "subcons"):
        for sub in con.subcons:
            out += shape(sub, depth + 1)
    elif hasattr(con, "subcon"):
        out += shape(con.subcon, depth + 1)
    return out


class Spy:
    """Attribute bag that logs every attribute read into a shared list."""

    def __init__(self, tag, log, values):
        object.__setattr__(self, "_tag", tag)
        object.__setattr__(self, "_log", log)
        object.__setattr__(self, "_values", values)

    def __getattr__(self, name):
        self._log.append((self._tag, name))
        try:
            return self._values[name]
        except KeyError:
            raise AttributeError(f"{self._tag} has no {name}") from None


class Plain:
    def __init__(self, **kw):
        self.__dict__.update(kw)


ID_FIELDS = [f.name for f in dataclasses.fields(IdArea)]


def random_member(rng, kind):
    """Something to put under 'fat_area' / 'id_area' in a context."""
    pick = rng.randrange(8)
    if kind == "fat_area":
        full = dict(version=rng.choice([1, 2, None, "2"]), num_remaining_clusters=rng.randrange(100), fat=object())
    else:
        full = {name: rng.choice([rng.randrange(70000), None, "x", 2.5]) for name in ID_FIELDS}
    if pick == 0:
        return None
    if pick == 1:
        return Container(full)
    if pick == 2:
        partial = dict(full)
        partial.pop(rng.choice(sorted(partial)))
        return Container(partial)
    if pick == 3:
        return Plain(**full)
    if pick == 4:
        partial = dict(full)
        partial.pop(rng.choice(sorted(partial)))
        return Plain(**partial)
    if pick == 5:
        return dict(full)                         # plain dict: attribute access fails
    return FatArea(**full) if kind == "fat_area" else IdArea(**full)


def header(sector_id):
    return b"\x00" + b"\xFF" * 10 + b"\x00" + struct.pack(">I", sector_id)[1:] + b"\x01"


def mdf_wrap(payload):
    out = bytearray()
    for i in range(0, len(payload), 2048):
        out += header(i // 2048) + payload[i:i + 2048].ljust(2048, b"\0") + bytes(288)
    return bytes(out)


def mdx_wrap(payload):
    return MdxHeaderConstruct.build(dict(
        copyright=b"\xA9" + b" " * 25,
        eof=MdxHeaderConstruct.sizeof() + len(payload),
    )) + payload


def make_roland_image(rng, extra, num_volumes=0, num_performances=0, noise=False, fat_id=FAT_AREA_ID):
    values = dict(
        revision=rng.randint(0, 2**32 - 1),
        s7xx_str=rng.choice(["S770 MR25A", "S750\tMR25A", "s760 mr25a"]),
        empty_str="",
        version_str=rng.choice(["S-770 Hard Disk Ver. 2.25", "S-750 MO Disk Ver 1.02a", "SP-700 CD-ROM Disk Ver.3"]),
        copyright_str="Copyright Roland",
        disk_name=rng.choice(["MYDISK", "", "A B C", "0123456789ABCDEF"]),
        disk_capacity=rng.randint(0, 2**32 - 1),
        num_volumes=num_volumes,
        num_performances=num_performances,
        num_patches=rng.randint(0, 0xFFFF),
        num_partials=rng.randint(0, 0xFFFF),
        num_samples=rng.randint(0, 0xFFFF),
    )
    img = bytearray(0x110000 + extra)
    if noise:
        img[:] = bytes(rng.randrange(256) for _ in range(4096)) * (len(img) // 4096) + bytes(len(img) % 4096)
    ida = IdAreaStruct.build(values)
    img[:ID_AREA_SIZE] = bytes(ID_AREA_SIZE)
    img[:len(ida)] = ida
    fat = bytearray(FAT_AREA_SIZE)
    struct.pack_into("<HH", fat, 0, fat_id, 77)
    struct.pack_into("<HH", fat, FAT_AREA_SIZE - 4, 0xFFFF, 0xFFFF)
    img[FAT_AREA_OFFSET:FAT_AREA_OFFSET + FAT_AREA_SIZE] = fat
    return bytes(img)


def ls_text(image, path=""):
    buf = io.StringIO()
    with contextlib.redirect_stdout(buf):
        actions.ls_action(image, path)
    return buf.getvalue()


def digest(image):
    plain_fields = [f.name for f in dataclasses.fields(IdArea)]
    return (
        type(image).__name__,
        [(name, getattr(image, name)) for name in plain_fields],
        [(type(v).__name__, v.name, getattr(v, "index", None)) for v in image.volumes],
        type(image.fat).__name__,
        ls_text(image),
    )


def main():
    rng = random.Random(0x520)

    live = callables_of(RolandS7xxImageStruct)
    orig = callables_of(OriginalImageStruct)
    check("callables are callable", [callable(f) for f in live.values()], [True] * 4)
    check("shape", shape(RolandS7xxImageStruct), shape(OriginalImageStruct))
    check("sizeof", outcome(RolandS7xxImageStruct.sizeof), outcome(OriginalImageStruct.sizeof))

    # -- the four context functions on synthetic contexts ---------------------------
    for n in range(4000):
        members = {"fat_area": random_member(rng, "fat_area"), "id_area": random_member(rng, "id_area")}
        if rng.random() < 0.1:
            members.pop(rng.choice(sorted(members)))
        context = rng.choice([Container, Container, Plain, dict])(**members)
        for name in live:
            a = outcome(lambda: live[name](context))
            b = outcome(lambda: orig[name](context))
            check(("fn", n, name), a, b)
            if a[0] == "ok" and b[0] == "ok":
                check(("fn identity", n, name), a[1] is b[1], True)

    for n in range(600):
        missing = rng.choice([None, "fat_area", "id_area", "fat", "version", "num_volumes", "num_performances"])
        for name in live:
            logs, results = [], []
            for fn in (live[name], orig[name]):
                log = []
                fat_values = {k: v for k, v in dict(fat="FAT", version=2).items() if k != missing}
                id_values = {k: v for k, v in dict(num_volumes=3, num_performances=9).items() if k != missing}
                top = {"fat_area": Spy("fat_area", log, fat_values), "id_area": Spy("id_area", log, id_values)}
                top.pop(missing, None)
                results.append(outcome(lambda: fn(Spy("context", log, top))))
                logs.append(log)
            check(("spy result", n, name, missing), results[0], results[1])
            check(("spy reads", n, name, missing), logs[0], logs[1])

    # -- whole images through both declarations -------------------------------------
    original_adapter = RolandS7xxImageAdapter(OriginalImageStruct)
    payloads = []
    tally = {"ok": 0, "exc": 0}
    for n in range(40):
        extra = rng.choice([0, 0, 1, 777, 2048, 4095])
        payload = make_roland_image(
            rng, extra,
            num_volumes=rng.choice([0, 0, 1, 2, 3]),
            num_performances=rng.choice([0, 0, 1, 3]),
            noise=(n % 3 == 2),
            fat_id=FAT_AREA_ID if n % 8 else 0x1234,
        )
        if n % 10 == 9:
            payload = payload[:rng.choice([100, ID_AREA_SIZE, FAT_AREA_OFFSET + 10, FAT_AREA_OFFSET + FAT_AREA_SIZE])]
        results = []
        for parse in (RolandSxxImageParser, original_adapter.parse_stream):
            stream = io.BytesIO(payload)
            out = outcome(lambda: parse(stream))
            if out[0] == "ok":
                out = ("ok", outcome(lambda: digest(out[1])))
            results.append((out, stream.tell()))
        check(("image parse", n), results[0], results[1])
        tally[results[0][0][0]] += 1
        if results[0][0][0] == "ok" and extra in (0, 777, 2048) and len(payloads) < 4:
            payloads.append(payload)
    check("both outcomes exercised", (tally["ok"] >= 10, tally["exc"] >= 5), (True, True))

    # -- end to end --------------------------------------------------------------
    workdir = tempfile.mkdtemp(prefix="r20_demo_")
    try:
        for n, payload in enumerate(payloads):
            check(("signature", n), is_roland_s7xx_image(io.BytesIO(payload)), True)
            blobs = {"raw": payload, "mdf": mdf_wrap(payload), "mdx": mdx_wrap(payload)}
            paths = {}
            for kind, blob in blobs.items():
                paths[kind] = os.path.join(workdir, f"img{n}.{kind}")
                with open(paths[kind], "wb") as f:
                    f.write(blob)
            for kind in ("raw", "mdf"):
                cue = os.path.join(workdir, f"img{n}.{kind}.cue")
                with open(cue, "w", encoding="ascii") as f:
                    f.write(f"FILE \"img{n}.{kind}\" BINARY\n  TRACK 01 MODE1/2352\n    INDEX 01 00:00:00\n")
                paths["cue->" + kind] = cue

            listings = {}
            for kind, path in paths.items():
                image = actions.determine_image_type(path)
                check(("e2e type", n, kind), type(image).__name__, "RolandS7xxImage")
                listings[kind] = repr(digest(image))
            reference = digest(original_adapter.parse_stream(io.BytesIO(payload)))
            check(("e2e same as original declaration", n), listings["raw"], repr(reference))
            check(("e2e same everywhere", n), len(set(listings.values())), 1)
    finally:
        shutil.rmtree(workdir, ignore_errors=True)

    print(f"{checks} checks, {len(failures)} disagreements")
    for f in failures[:10]:
        print("  MISMATCH", repr(f)[:400])
    return 1 if failures else 0


if __name__ == "__main__":
    sys.exit(main())
