"""Equivalence demo for r22: the constructor chain of the stream object that
RolandFileAllocationTable.get_file returns (mechanism 'cluster chain minus
leading clusters'):
  smpl_extract/roland/s7xx/fat.py  RolandFile.__init__
  smpl_extract/util/fat.py         FileStream.__init__

Refactoring (call re-spelling): both constructors now hand their arguments to
`super().__init__` POSITIONALLY instead of by keyword (RolandFile ->
FileStream(parent_stream, sector_size, sector_list, position, buffer_length),
FileStream -> SectorStream(parent_stream, size, sector_length, position,
buffer_length)); FileStream binds `sector_size * len(sector_list)` to the local
`total_size` before the call instead of computing it inside the argument list;
the default `buffer_length = 0x1000` is spelled `4096`.

The two ORIGINAL constructors (pasted below; the only adaptation is the
explicit two-argument form of `super()`, which a function defined outside its
class needs) are installed on the classes for a second run of every scenario
and the two runs are compared:
  (1) construction through RolandFile / FileStream / the AKAI `Segment`
      subclass with every calling style (positional, keyword, mixed, defaults,
      too few / too many / unknown / duplicated arguments): the instance
      attributes (names, order, values, identity of the stream and of the
      sector list) or the exception type + message,
  (2) odd argument values (sector_list None / tuple / range / generator /
      empty, sector sizes 0, negative, float, str, huge),
  (3) RolandFileAllocationTable.get_file for shuffled cluster chains and every
      cluster_offset: sector list, size, and the bytes read in chunks, compared
      with the chain concatenated by hand, plus the exact seek/read calls made
      on the shared partition stream,
  (4) introspection (signature, defaults, parameter kinds),
  (5) precomputed values.
Exit 0 when everything agrees, 1 otherwise.
"""
import inspect
import io
import random
import sys
from io import IOBase
from typing import List

from smpl_extract.akai.data_types import AKAI_SECTOR_SIZE
from smpl_extract.akai.sat import Segment
from smpl_extract.roland.s7xx import fat as roland_fat
from smpl_extract.roland.s7xx.data_types import ROLAND_CLUSTER_SIZE
from smpl_extract.roland.s7xx.fat import RolandFile
from smpl_extract.roland.s7xx.fat import RolandFileAllocationTable
from smpl_extract.util import fat as util_fat
from smpl_extract.util.fat import FileStream
from smpl_extract.util.fat import SectorLink
from smpl_extract.util.fat import add_to_sector_links
from smpl_extract.util.sector import SectorStream


# ---------------------------------------------------------------- original --
def _original_file_stream_init(
        self,
        parent_stream:      IOBase,
        sector_size:        int,
        sector_list:        List[int],
        position:           int = 0,
        buffer_length:      int = 0x1000
) -> None:
    super(FileStream, self).__init__(
        parent_stream,
        size=(sector_size * len(sector_list)),
        sector_length=sector_size,
        position=position,
        buffer_length=buffer_length
    )
    self.sector_list = sector_list


def _original_roland_file_init(
        self,
        partition_stream:   IOBase,
        sector_list:        List[int],
        position:           int = 0,
        buffer_length:      int = 0x1000
) -> None:
    super(RolandFile, self).__init__(
        partition_stream,
        sector_size=ROLAND_CLUSTER_SIZE,
        sector_list=sector_list,
        position=position,
        buffer_length=buffer_length
    )


for _fn, _owner in ((_original_file_stream_init, "FileStream"),
                    (_original_roland_file_init, "RolandFile")):
    _fn.__name__ = "__init__"
    _fn.__qualname__ = _owner + ".__init__"   # TypeError messages quote the qualname
# -----------------------------------------------------------------------------

failures = []


def check(cond, what):
    if not cond:
        failures.append(what)
        print("MISMATCH:", what)


def outcome(fn):
    try:
        return ("ok", fn())
    except BaseException as e:  # noqa: BLE001
        return ("exc", type(e).__name__, str(e))


class Recorder(io.BytesIO):
    def __init__(self, data):
        super().__init__(data)
        self.log = []

    def seek(self, *a):
        r = super().seek(*a)
        self.log.append(("seek", a, r))
        return r

    def tell(self):
        r = super().tell()
        self.log.append(("tell", r))
        return r

    def read(self, *a):
        r = super().read(*a)
        self.log.append(("read", a, len(r)))
        return r


N_CLUSTERS = 12
DATA = b"".join(bytes(((c * 37 + i * 5 + (i >> 8)) & 0xFF) for i in range(ROLAND_CLUSTER_SIZE))
                for c in range(N_CLUSTERS))


def describe(obj, stream, sector_list):
    """Everything a constructor leaves behind on the instance."""
    d = dict(vars(obj))
    out = [("keys", list(d.keys()))]
    for key, value in d.items():
        if value is stream:
            out.append((key, "<the stream>"))
        elif value is sector_list:
            out.append((key, "<the sector list>", outcome(lambda: list(value))
                        if not inspect.isgenerator(value) else "<generator>"))
        else:
            out.append((key, type(value).__name__, repr(value)))
    return out


def gen_list():
    yield 1
    yield 2


def scenario_construction():
    out = []
    sentinel = object()

    def call_styles(cls_name):
        base = Recorder(DATA)
        sl = [3, 1, 2]
        if cls_name == "FileStream":
            lead = (base, 512, sl)
            names = ("parent_stream", "sector_size", "sector_list")
        else:
            lead = (base, sl)
            names = ("partition_stream", "sector_list")
        styles = [
            ("positional", lead, {}),
            ("positional+pos", lead + (7,), {}),
            ("positional+pos+buf", lead + (7, 64), {}),
            ("kw position", lead, {"position": 9}),
            ("kw buffer", lead, {"buffer_length": 1}),
            ("kw both", lead, {"buffer_length": 0, "position": -4}),
            ("all keywords", (), dict(zip(names, lead), position=2, buffer_length=3)),
            ("all keywords defaults", (), dict(zip(names, lead))),
            ("mixed", lead[:1], dict(zip(names[1:], lead[1:]))),
            ("too few", lead[:-1], {}),
            ("none", (), {}),
            ("too many", lead + (1, 2, 3), {}),
            ("unknown kw", lead, {"size": 5}),
            ("unknown kw 2", lead, {"sector_length": 5}),
            ("duplicate", lead, {names[-1]: [9]}),
            ("position None", lead, {"position": None}),
            ("buffer None", lead, {"buffer_length": None}),
            ("position str", lead + ("x",), {}),
        ]
        return base, sl, styles

    for cls_name in ("FileStream", "RolandFile", "Segment"):
        n_styles = len(call_styles(cls_name)[2])
        for i in range(n_styles):
            base, sl, styles = call_styles(cls_name)
            label, args, kwargs = styles[i]
            cls = {"FileStream": FileStream, "RolandFile": RolandFile, "Segment": Segment}[cls_name]
            res = outcome(lambda: describe(cls(*args, **kwargs), base, sl))
            out.append((cls_name, label, res, list(base.log)))

    # (2) odd values
    odd_lists = [None, (), (4, 5), range(3), [], [0], [5] * 40, "abc", b"\x01\x02", {1: 2}, 7, gen_list,
                 [None, "x"], [10 ** 9]]
    for i in range(len(odd_lists)):
        for cls_name in ("RolandFile", "FileStream", "Segment"):
            base = Recorder(DATA)
            sl = odd_lists[i]
            if sl is gen_list:
                sl = gen_list()
            if cls_name == "FileStream":
                make = lambda: FileStream(base, 100, sl)
            elif cls_name == "RolandFile":
                make = lambda: RolandFile(base, sl)
            else:
                make = lambda: Segment(base, sl)
            out.append((cls_name, "odd list", i, outcome(lambda: describe(make(), base, sl))))
    for size in (0, 1, -1, -512, 2.5, "ab", None, 2 ** 70, True, [1], (1, 2)):
        base = Recorder(DATA)
        sl = [2, 0, 1]
        res = outcome(lambda: describe(FileStream(base, size, sl), base, sl))
        out.append(("FileStream", "odd size", repr(size), res))
        res = outcome(lambda: describe(FileStream(base, sector_list=sl, sector_size=size), base, sl))
        out.append(("FileStream", "odd size kw", repr(size), res))
    for stream in (None, 5, sentinel):
        sl = [1]
        out.append(("RolandFile", "odd stream",
                    outcome(lambda: describe(RolandFile(stream, sl), stream, sl))))
    return out


def build_table(rng):
    """A FAT with shuffled chains over the recorder stream."""
    base = Recorder(DATA)
    links = [SectorLink()] * 64
    clusters = list(range(N_CLUSTERS))
    rng.shuffle(clusters)
    chains = []
    while clusters:
        n = rng.randrange(1, 6)
        chain, clusters = clusters[:n], clusters[n:]
        add_to_sector_links(chain, links)
        chains.append(chain)
    return base, RolandFileAllocationTable(base, 64, links), chains


def scenario_files():
    out = []
    rng = random.Random(22)
    for trial in range(25):
        base, table, chains = build_table(rng)
        for chain in chains:
            for top in range(0, len(chain) + 2):
                base.log.clear()

                def go():
                    f = table.get_file(chain[0], top)
                    attrs = (type(f).__name__, list(f.sector_list), f.end_of_file, f.position,
                             f.buffer_length, f.true_size, f.sector_length, f.substream is base,
                             list(vars(f).keys()))
                    f.seek(0, io.SEEK_SET)
                    chunks = []
                    while True:
                        chunk = f.read(rng_sizes[len(chunks) % len(rng_sizes)])
                        if len(chunk) < 1:
                            break
                        chunks.append(chunk)
                    return attrs, b"".join(chunks)
                rng_sizes = [rng.choice([4096, 4096, 100, ROLAND_CLUSTER_SIZE, 2 * ROLAND_CLUSTER_SIZE + 6])
                             for _ in range(5)]
                res = outcome(go)
                out.append((trial, chain, top, res, list(base.log)))
                if res[0] == "ok":
                    expected = b"".join(DATA[c * ROLAND_CLUSTER_SIZE:(c + 1) * ROLAND_CLUSTER_SIZE]
                                        for c in chain[top:])
                    check(res[1][1] == expected, f"hand-concatenated chain trial={trial} {chain} top={top}")
                    check(res[1][0][2] == ROLAND_CLUSTER_SIZE * len(chain[top:]), "size = clusters * 9216")
    # files that start in the middle / near the end, explicit position + buffer
    for position in (0, 1, ROLAND_CLUSTER_SIZE - 1, ROLAND_CLUSTER_SIZE, 3 * ROLAND_CLUSTER_SIZE, 10 ** 6, -3):
        for buffer_length in (0x1000, 4096, 1, 0, 9216):
            base = Recorder(DATA)
            f_res = outcome(lambda: RolandFile(base, [5, 2, 9], position, buffer_length))
            if f_res[0] != "ok":
                out.append((position, buffer_length, f_res))
                continue
            f = f_res[1]
            first = outcome(lambda: f.read(10))
            rest = outcome(lambda: len(f.readall()))
            out.append((position, buffer_length, first, rest, f.position, list(base.log)))
    # AKAI segments share FileStream
    base = Recorder(DATA)
    seg = Segment(base, [3, 0, 7])
    out.append(("segment", seg.end_of_file, seg.sector_length, seg.read(AKAI_SECTOR_SIZE + 5), list(base.log)))
    return out


def scenario_introspection():
    out = []
    for cls in (FileStream, RolandFile):
        sig = inspect.signature(cls.__init__)
        out.append((cls.__name__, [(p.name, str(p.kind), p.default if p.default is not p.empty else "<none>")
                                   for p in sig.parameters.values()]))
        out.append((cls.__name__, cls.__init__.__defaults__, cls.__init__.__kwdefaults__,
                    cls.__init__.__name__, cls.__init__.__qualname__))
        sig2 = inspect.signature(cls)
        out.append((cls.__name__, "class signature", [p.name for p in sig2.parameters.values()]))
    out.append(("mro", [c.__name__ for c in RolandFile.__mro__[:4]]))
    return out


def run_all():
    return {
        "construction": scenario_construction(),
        "files": scenario_files(),
        "introspection": scenario_introspection(),
    }


def first_difference(a, b):
    for i, (x, y) in enumerate(zip(a, b)):
        if x != y:
            return i, x, y
    return None


def main():
    check("__init__" in FileStream.__dict__ and "__init__" in RolandFile.__dict__
          and roland_fat.RolandFile is RolandFile and util_fat.FileStream is FileStream
          and RolandFile.__mro__[1] is FileStream and FileStream.__mro__[1] is SectorStream,
          "class wiring")
    live_results = run_all()
    saved_fs, saved_rf = FileStream.__init__, RolandFile.__init__
    FileStream.__init__ = _original_file_stream_init
    RolandFile.__init__ = _original_roland_file_init
    try:
        original_results = run_all()
    finally:
        FileStream.__init__ = saved_fs
        RolandFile.__init__ = saved_rf

    total = 0
    for key in live_results:
        a, b = live_results[key], original_results[key]
        total += len(a)
        check(len(a) == len(b), f"{key}: lengths")
        if a != b:
            check(False, f"{key}: first difference {first_difference(a, b)!r}"[:800])

    # (5) precomputed
    base = io.BytesIO(DATA)
    f = RolandFile(base, [4, 1])
    check((f.end_of_file, f.position, f.buffer_length, f.true_size, f.sector_length)
          == (2 * 9216, 0, 4096, 4096, 9216), "precomputed defaults")
    check(f.sector_list == [4, 1] and f.substream is base, "precomputed references")
    check(list(vars(f).keys()) == ["substream", "end_of_file", "position", "buffer_length", "true_size",
                                   "sector_length", "sector_list"], "attribute order")
    f.seek(9216 - 2, io.SEEK_SET)
    check(f.read(4) == DATA[5 * 9216 - 2:5 * 9216] + DATA[9216:9216 + 2], "precomputed read across clusters")
    g = FileStream(base, 10, [1, 0, 2], 5, 3)
    check((g.end_of_file, g.position, g.buffer_length, g.sector_length) == (30, 5, 3, 10), "precomputed FileStream")
    check(g.read(10) == DATA[15:20] + DATA[0:5], "precomputed FileStream read")
    n_ok = sum(1 for r in live_results["construction"] if any(isinstance(x, tuple) and x[:1] == ("ok",) for x in r))
    n_exc = sum(1 for r in live_results["construction"] if any(isinstance(x, tuple) and x[:1] == ("exc",) for x in r))
    check(n_ok >= 50 and n_exc >= 20, f"coverage ok={n_ok} exc={n_exc}")

    print(f"{total} scenario records compared (constructions ok={n_ok} raising={n_exc}), "
          f"{len(failures)} mismatches")
    return 1 if failures else 0


if __name__ == "__main__":
    sys.exit(main())
