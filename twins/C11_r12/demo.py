"""Equivalence demo for resize_buffer (smpl_extract/transcoder.py).

1. The live resize_buffer is compared with an inline copy of the ORIGINAL for
   many buffers (bytes, bytearray, memoryview, numpy arrays, lists, str) and
   frame sizes (positive, negative, zero, bool, float, wrong types): value,
   type, identity of the returned object with the argument, exceptions.
2. Its two callers, decode_frame and PassthroughTranscoder / make_transcoder,
   are run end to end over sample streams that share ONE file handle (windows
   of StreamOffset / SectorStream / FileStream / StreamReversed over it), once
   with the live function and once with the original patched into the module:
   produced blocks and the full seek/read/tell trace of the handle must agree,
   for exhaustive and random interleavings of several transcoders.
Exit 0 when everything agrees, 1 otherwise.
"""
import io
import itertools
import random
import sys
import zlib

import numpy as np

import smpl_extract.transcoder as transcoder
from smpl_extract.data_streams import DataStream
from smpl_extract.data_streams import Endianess
from smpl_extract.data_streams import StreamEncoding
from smpl_extract.util.fat import FileStream
from smpl_extract.util.sector import SectorStream
from smpl_extract.util.stream import StreamOffset
from smpl_extract.util.stream import StreamReversed
from smpl_extract.util.stream import StreamWrapper


def original_resize_buffer(buffer, frame_size):
    """Verbatim copy of the original resize_buffer."""
    if len(buffer) % frame_size != 0:
        num_frames = len(buffer) // frame_size
        true_size = num_frames * frame_size
        buffer = buffer[:true_size]
    return buffer


LIVE_RESIZE = transcoder.resize_buffer
FAILS = []


def check(label, a, b):
    if a != b:
        FAILS.append(label)
        print("MISMATCH", label)
        print("   live:", repr(a)[:400])
        print("   orig:", repr(b)[:400])


def attempt(f, *a, **k):
    try:
        return ("ok", f(*a, **k))
    except StopIteration:
        return ("stop",)
    except Exception as e:  # noqa
        return ("exc", type(e).__name__, str(e))


# ------------------------------------------------------------------ part 1
def show(arg, res):
    if res[0] != "ok":
        return res
    v = res[1]
    if isinstance(v, np.ndarray):
        body = ("nd", v.dtype.str, v.shape, v.tobytes())
    elif isinstance(v, memoryview):
        body = ("mv", v.tobytes())
    else:
        body = (type(v).__name__, v)
    return ("ok", v is arg, body)


def unit():
    n = 0
    rnd = random.Random(12)
    raw = bytes(rnd.randrange(256) for _ in range(64))
    lengths = list(range(0, 20)) + [31, 32, 33, 63, 64]
    frame_sizes = [1, 2, 3, 4, 5, 6, 7, 8, 12, 16, 24, 63, 64, 65, 1000,
                   -1, -2, -3, -7, -64, 0, True, False, 2.0, 2.5, 0.0, float("nan"), float("inf"),
                   None, "2", b"2", (2,), 2 + 0j, np.int16(4), np.int64(3), np.float32(2)]
    makers = [
        ("bytes", lambda k: raw[:k]),
        ("bytearray", lambda k: bytearray(raw[:k])),
        ("memoryview", lambda k: memoryview(raw[:k])),
        ("ndarray", lambda k: np.frombuffer(raw[:k], dtype=np.uint8)),
        ("list", lambda k: list(raw[:k])),
        ("str", lambda k: "x" * k),
        ("tuple", lambda k: tuple(raw[:k])),
    ]
    for (kind, mk), k, fs in itertools.product(makers, lengths, frame_sizes):
        a_arg, b_arg = mk(k), mk(k)
        a = show(a_arg, attempt(LIVE_RESIZE, a_arg, fs))
        b = show(b_arg, attempt(original_resize_buffer, b_arg, fs))
        check(("unit", kind, k, repr(fs)), a, b)
        n += 1
    for bad in (None, 5, 2.5, object()):
        for fs in (1, 2, 0):
            a = attempt(LIVE_RESIZE, bad, fs)
            b = attempt(original_resize_buffer, bad, fs)
            check(("unit-bad", repr(bad)[:20], fs), a[:2], b[:2])
            n += 1
    # keyword call, and len() / % / slicing observed through a spy object
    check("kw", attempt(LIVE_RESIZE, buffer=raw[:7], frame_size=2), attempt(original_resize_buffer, buffer=raw[:7], frame_size=2))
    for k, fs in itertools.product((0, 5, 6, 7, 12), (1, 2, 3, 4, 0)):
        rec = []
        for f in (LIVE_RESIZE, original_resize_buffer):
            slices = []

            class Spy:
                def __len__(self):
                    return k

                def __getitem__(self, item):
                    slices.append((item.start, item.stop, item.step))
                    return ("cut", item.stop)

            s = Spy()
            r = attempt(f, s, fs)
            rec.append((r if r[0] != "ok" else ("ok", r[1] is s, r[1] if r[1] is not s else None), slices))
        check(("spy", k, fs), rec[0], rec[1])
        n += 1
    return n


# ------------------------------------------------------------------ part 2
class TraceIO(io.BytesIO):
    def __init__(self, data):
        super().__init__(data)
        self.trace = []

    def seek(self, off, whence=0):
        r = super().seek(off, whence)
        self.trace.append(("seek", off, whence, r))
        return r

    def read(self, n=-1):
        r = super().read(n)
        self.trace.append(("read", n, len(r), zlib.crc32(r)))
        return r

    def tell(self):
        r = super().tell()
        self.trace.append(("tell", r))
        return r


_R = random.Random(1212)
DATA = bytes(_R.randrange(256) for _ in range(60000))

ENCODINGS = [
    StreamEncoding(Endianess.LITTLE, 2, 1, True),
    StreamEncoding(Endianess.BIG, 2, 1, True),
    StreamEncoding(Endianess.LITTLE, 2, 2, True),
    StreamEncoding(Endianess.LITTLE, 1, 1, False),
    StreamEncoding(Endianess.LITTLE, 4, 1, True),
    StreamEncoding(Endianess.BIG, 2, 3, True),
]


def make_view(handle, kind, size, seed):
    rnd = random.Random(seed)
    if kind == 0:
        return StreamOffset(handle, size, rnd.randrange(0, 2000))
    if kind == 1:
        return StreamWrapper(SectorStream(StreamOffset(handle, 50000, 100), size + 640, 64), size)
    if kind == 2:
        sl = rnd.sample(range(90), 40)
        return StreamWrapper(FileStream(StreamOffset(handle, 58000, 300), 512, sl), size)
    if kind == 3:
        return StreamReversed(StreamOffset(handle, size, rnd.randrange(0, 999)), size, 2)
    raise AssertionError(kind)


def scenario(seed):
    """A few transcoders (mono passthrough, stereo from two monos, interleaved
    source) over one handle; returns a builder and a schedule."""
    rnd = random.Random(seed)
    specs = []
    for _ in range(rnd.randrange(2, 4)):
        nstreams = rnd.choice([1, 1, 2])
        # sizes deliberately not multiples of the frame size
        streams = [(rnd.randrange(4), rnd.choice([0, 1, 3, 1001, 4097, 8190, 8191, 9000, 12289]),
                    rnd.randrange(len(ENCODINGS)), rnd.randrange(10 ** 6)) for _ in range(nstreams)]
        total = sum(max(1, ENCODINGS[e].num_interleaved_channels) for _, _, e, _ in streams)
        if nstreams == 1 and rnd.random() < 0.5:
            dest = ENCODINGS[streams[0][2]]  # passthrough
        else:
            dest = StreamEncoding(rnd.choice([Endianess.LITTLE, Endianess.BIG]), rnd.choice([1, 2, 4]), total, True)
        specs.append((streams, dest))
    steps = [rnd.randrange(len(specs)) for _ in range(14)]
    return specs, steps


def run_scenario(resize, specs, steps, eager):
    transcoder.resize_buffer = resize
    try:
        handle = TraceIO(DATA)
        made = {}

        def get(i):
            if i not in made:
                streams, dest = specs[i]
                ds = [DataStream(make_view(handle, k, size, sd), ENCODINGS[e]) for k, size, e, sd in streams]
                made[i] = attempt(transcoder.make_transcoder, ds, dest)
            return made[i]

        if eager:
            for i in range(len(specs)):
                get(i)
        out = []
        for i in steps:
            t = get(i)
            if t[0] != "ok":
                out.append(t)
                continue
            r = attempt(next, t[1])
            out.append(r if r[0] != "ok" else ("ok", len(r[1]), zlib.crc32(r[1])))
        return out, [type(m[1]).__name__ if m[0] == "ok" else m for m in made.values()], handle.trace
    finally:
        transcoder.resize_buffer = LIVE_RESIZE


def decode_frame_direct():
    """decode_frame with explicit, odd buffer sizes on two streams of one handle."""
    n = 0
    for enc_a, enc_b in itertools.product(range(len(ENCODINGS)), repeat=2):
        for size_a, size_b, sizes in itertools.product((0, 5, 1001), (7, 4096), ((1, 1), (3, 5), (7, 4097), (4096, 10), (0, 6))):
            rec = []
            for resize in (LIVE_RESIZE, original_resize_buffer):
                transcoder.resize_buffer = resize
                try:
                    handle = TraceIO(DATA)
                    ds = [DataStream(make_view(handle, 1, size_a, 5), ENCODINGS[enc_a]),
                          DataStream(make_view(handle, 0, size_b, 6), ENCODINGS[enc_b])]
                    outs = []
                    for _ in range(3):
                        r = attempt(transcoder.decode_frame, ds, list(sizes))
                        if r[0] == "ok":
                            r = ("ok", [(c.dtype.str, c.shape, c.tobytes()) for c in r[1]])
                        outs.append(r)
                    rec.append((outs, handle.trace))
                finally:
                    transcoder.resize_buffer = LIVE_RESIZE
            check(("decode_frame", enc_a, enc_b, size_a, size_b, sizes), rec[0], rec[1])
            n += 1
    return n


def exhaustive():
    """Left/right style: two transcoders x 3 blocks each, all interleavings."""
    n = 0
    specs_list = [
        [([(1, 8191, 0, 1)], ENCODINGS[0]), ([(2, 9000, 0, 2)], ENCODINGS[0])],
        [([(1, 8191, 0, 1), (2, 9001, 1, 2)], StreamEncoding(Endianess.LITTLE, 2, 2, True)), ([(3, 4098, 0, 3)], ENCODINGS[0])],
        [([(0, 12289, 2, 1)], ENCODINGS[2]), ([(0, 12289, 2, 1)], StreamEncoding(Endianess.BIG, 2, 2, True))],
    ]
    for si, specs in enumerate(specs_list):
        for mask in itertools.combinations(range(6), 3):
            steps = [0 if i in mask else 1 for i in range(6)]
            for eager in (True, False):
                check(("exhaustive", si, mask, eager),
                      run_scenario(LIVE_RESIZE, specs, steps, eager), run_scenario(original_resize_buffer, specs, steps, eager))
                n += 1
    return n


def main():
    assert transcoder.resize_buffer is not original_resize_buffer
    a = unit()
    b = decode_frame_direct()
    c = exhaustive()
    d = 0
    for seed in range(250):
        specs, steps = scenario(seed)
        for eager in (True, False):
            check(("random", seed, eager),
                  run_scenario(LIVE_RESIZE, specs, steps, eager), run_scenario(original_resize_buffer, specs, steps, eager))
            d += 1
    print("unit: %d, decode_frame: %d, exhaustive: %d, random: %d, mismatches: %d" % (a, b, c, d, len(FAILS)))
    return 1 if FAILS else 0


if __name__ == "__main__":
    sys.exit(main())
