"""Equivalence demo for r10: get_smpl_normalized_pitch
(smpl_extract/generalized/wav.py).

An inline copy of the ORIGINAL get_smpl_normalized_pitch is compared with the
one in the tree: exhaustively for the signed/unsigned byte ranges of the
semitone and cents tuning values, on wide/corner integers, and on
non-integer and invalid argument types (float, bool, numpy ints, Fraction,
Decimal, complex, None, str).  Values, value TYPES and exceptions (type and
message) must agree.  Then get_smpl_chunk_data of the tree is compared with an
inline copy of its original body that uses the original pitch function, over a
root key x semitone x cents sweep (container fields and built bytes).
Exit 0 when everything agrees, 1 otherwise.
"""
import decimal
import fractions
import itertools
import sys
import warnings

import numpy as np

from smpl_extract.formats.wav import SmpteFormat
from smpl_extract.formats.wav import WavLoopContainer
from smpl_extract.formats.wav import WavLoopType
from smpl_extract.formats.wav import WavSampleChunkContainer
from smpl_extract.formats.wav import WavSampleChunkStruct
from smpl_extract.generalized import wav as gwav
from smpl_extract.generalized.sample import LoopRegion
from smpl_extract.generalized.sample import LoopType
from smpl_extract.generalized.sample import Sample
from smpl_extract.midi import MidiNote


def orig_get_smpl_normalized_pitch(semi, cents):
    # verbatim copy of the original implementation
    CENTS_DIV = float(0x80000000) / 50

    comb_cents = 50*semi + cents
    note_offset = round((comb_cents) // 100)
    cents_offset = (comb_cents) % 100
    cents_normalized = int(round(cents_offset * CENTS_DIV))

    result = (note_offset, cents_normalized)
    return result


_DEFAULT_SAMPLE_RATE = 44100
def orig_get_smpl_chunk_data(sample):
    # verbatim copy of the original implementation (uses the original pitch function)

    sample_rate = sample.sample_rate
    if sample_rate == 0:
        sample_rate = _DEFAULT_SAMPLE_RATE

    loop_type_mapping = {
        LoopType.FORWARD:       WavLoopType.FORWARD,
        LoopType.ALTERNATING:   WavLoopType.ALTERNATING,
        LoopType.REVERSE:       WavLoopType.REVERSE
    }

    loop_headers = []
    if len(sample.loop_regions):
        for i, loop in enumerate(sample.loop_regions):
            play_cnt = 0
            if loop.play_cnt is not None:
                play_cnt = loop.play_cnt
            elif not loop.repeat_forever and loop.duration is not None:
                loop_duration = loop.duration
                loop_total_duration = (loop.end_sample - loop.start_sample)/sample_rate
                if loop_total_duration == 0:
                    continue
                play_cnt = round(loop_duration/loop_total_duration)

            loop_type = loop_type_mapping.get(
                loop.loop_type,
                WavLoopType.FORWARD
            )

            loop_headers.append(WavLoopContainer(
                cue_id=i,
                loop_type=loop_type,
                start_byte=loop.start_sample,
                end_byte=loop.end_sample,
                fraction=0,
                play_cnt=play_cnt
            ))
    sample_period_nano = (10**9)/sample_rate

    pitch_semi = sample.pitch_offset_semi or 0
    pitch_cents = sample.pitch_offset_cents or 0
    note_pitch_offset, pitch_cents_normalized = orig_get_smpl_normalized_pitch(
        pitch_semi,
        pitch_cents
    )
    midi_note = sample.midi_note or MidiNote.from_string("C4")
    adj_note_pitch = MidiNote.from_midi_byte(
        midi_note.to_midi_byte() + note_pitch_offset
    )
    smpl_header = WavSampleChunkContainer(
        manufacturer=0,
        product=0,
        sample_period=round(sample_period_nano),
        midi_note=adj_note_pitch,
        pitch_fraction=pitch_cents_normalized,
        smpte_format=SmpteFormat.NONE,
        smpte_offset=0,
        sample_loops=loop_headers,
        sampler_data=b""
    )
    return smpl_header


def outcome(func, *args):
    try:
        res = func(*args)
    except BaseException as e:  # noqa
        return ("exc", type(e).__name__, str(e))
    return ("ok", describe(res))


def describe(value):
    if isinstance(value, tuple):
        return ("tuple", len(value), tuple((type(v).__name__, repr(v)) for v in value))
    if isinstance(value, WavSampleChunkContainer):
        fields = tuple(
            (k, type(v).__name__, repr(v)) for k, v in value.items()
        )
        try:
            built = WavSampleChunkStruct.build(value)
        except BaseException as e:  # noqa
            built = ("build-exc", type(e).__name__, str(e))
        return ("container", fields, built)
    return ("other", type(value).__name__, repr(value))


warnings.simplefilter("ignore")  # numpy scalar overflow warnings in the odd-type cases
failures = 0
checked = 0


def compare(orig, new, *args):
    global failures, checked
    checked += 1
    a = outcome(orig, *args)
    b = outcome(new, *args)
    if a != b:
        failures += 1
        if failures <= 10:
            print("MISMATCH", args)
            print("  orig:", a)
            print("  new: ", b)


new_pitch = gwav.get_smpl_normalized_pitch

# exhaustive over signed and unsigned tuning bytes
for semi in range(-128, 256):
    for cents in range(-128, 256):
        compare(orig_get_smpl_normalized_pitch, new_pitch, semi, cents)

# wide / corner integers
corner_ints = [
    0, 1, -1, 49, 50, 51, 99, 100, 101, -49, -50, -51, -99, -100, -101,
    2**15, -2**15, 2**31 - 1, -2**31, 2**31, 2**53, 2**53 + 1, -(2**53) - 1,
    2**64, -(2**64), 10**30, -(10**30) + 7,
]
for semi, cents in itertools.product(corner_ints, repeat=2):
    compare(orig_get_smpl_normalized_pitch, new_pitch, semi, cents)

# other argument types
odd_values = [
    0.0, -0.0, 0.5, -0.5, 1.25, 49.999, 99.5, -99.5, 1e300, -1e300,
    float("inf"), float("-inf"), float("nan"),
    True, False,
    np.int8(-7), np.uint8(200), np.int16(300), np.int32(-100000), np.int64(2**40),
    np.float32(3.5), np.float64(-12.75),
    fractions.Fraction(7, 3), fractions.Fraction(-151, 2),
    decimal.Decimal("12.5"), decimal.Decimal("-0.01"),
    1 + 2j, None, "3", b"3", [1], (), object,
]
for semi, cents in itertools.product(odd_values + [0, 3, -3], repeat=2):
    compare(orig_get_smpl_normalized_pitch, new_pitch, semi, cents)

# through get_smpl_chunk_data: root key x semitone x cents sweep
loops = [
    LoopRegion(start_sample=10, end_sample=500, repeat_forever=True),
    LoopRegion(start_sample=0, end_sample=44100, repeat_forever=False, duration=2.5),
]
root_notes = [None] + [MidiNote.from_midi_byte(b) for b in (21, 24, 59, 60, 61, 96, 108, 126, 127)]
tunings = [None, 0, 1, -1, 49, 50, 51, -49, -50, -51, 99, 100, -100, 127, -128, 128, 255]
for note, semi, cents in itertools.product(root_notes, tunings, tunings):
    for rate, loop_regions in ((44100, []), (0, loops)):
        sample = Sample(
            name="s",
            sample_rate=rate,
            midi_note=note,
            pitch_offset_semi=semi,
            pitch_offset_cents=cents,
            loop_regions=list(loop_regions),
        )
        compare(orig_get_smpl_chunk_data, gwav.get_smpl_chunk_data, sample)

print(f"checked {checked} cases, {failures} mismatches")
sys.exit(1 if failures else 0)
