"""Equivalence demo for r1: decode_frame (per-stream block decode and
de-interleave).  Compares smpl_extract.transcoder.decode_frame against an
inline copy of the ORIGINAL implementation on many inputs, including the
sequence of read() calls made on every source stream.  Exit 0 = all agree.
"""
from io import BytesIO
import itertools
import random
import sys
from typing import List

import numpy as np

from smpl_extract import transcoder as T
from smpl_extract.data_streams import DataStream
from smpl_extract.data_streams import Endianess
from smpl_extract.data_streams import StreamEncoding
from smpl_extract.util.stream import SectorReadError


# ---------------------------------------------------------------- original
def orig_resize_buffer(buffer: bytes, frame_size: int) -> bytes:
    if len(buffer) % frame_size != 0:
        num_frames = len(buffer) // frame_size
        true_size = num_frames * frame_size
        buffer = buffer[:true_size]
    return buffer


def orig_decode_frame(streams, buffer_sizes) -> List[np.ndarray]:
    channels: List[np.ndarray] = []

    for stream, size in zip(streams, buffer_sizes):
        dtype = stream.encoding.dtype
        num_channels = max(1, stream.encoding.num_interleaved_channels)
        buffer = stream.stream.read(size)
        buffer = orig_resize_buffer(buffer, stream.frame_size)

        if buffer is None or len(buffer) <= 0:
            for i in range(num_channels):
                channels.append(np.zeros(0, dtype=dtype))
            continue

        samples_interleaved: np.ndarray = np.frombuffer(buffer, dtype=dtype)
        samples = [samples_interleaved]
        if num_channels > 1:
            samples_arr = samples_interleaved.reshape((-1, num_channels)).T
            samples = list(samples_arr)

        channels += samples

    return channels


# ---------------------------------------------------------------- helpers
class RecordingStream(BytesIO):
    """BytesIO that logs every read and can fail at a given call number."""

    def __init__(self, data, log, tag, fail_at=None):
        super().__init__(data)
        self.log = log
        self.tag = tag
        self.fail_at = fail_at
        self.calls = 0

    def read(self, size=-1):
        self.calls += 1
        self.log.append((self.tag, size, self.tell()))
        if self.fail_at is not None and self.calls == self.fail_at:
            raise SectorReadError("boom")
        return super().read(size)


def make_streams(spec, log):
    streams = []
    for i, (data, enc, fail_at) in enumerate(spec):
        streams.append(DataStream(RecordingStream(data, log, i, fail_at), enc))
    return streams


def describe(arrs):
    return [(a.dtype.str, a.shape, a.tobytes()) for a in arrs]


def run(fn, spec, buffer_sizes, rounds):
    log = []
    streams = make_streams(spec, log)
    out = []
    for _ in range(rounds):
        try:
            out.append(("ok", describe(fn(streams, buffer_sizes))))
        except Exception as e:  # noqa: BLE001 - compare type + message
            out.append(("exc", type(e).__name__, str(e)))
    out.append(("log", log))
    out.append(("pos", [s.stream.tell() for s in streams]))
    return out


# ---------------------------------------------------------------- cases
failures = 0
cases = 0


def check(spec, buffer_sizes, rounds=4):
    global failures, cases
    cases += 1
    a = run(orig_decode_frame, spec, buffer_sizes, rounds)
    b = run(T.decode_frame, spec, buffer_sizes, rounds)
    if a != b:
        failures += 1
        if failures <= 5:
            print("MISMATCH", [(len(d), e, f) for d, e, f in spec],
                  buffer_sizes)


rng = random.Random(12)
widths = (1, 2, 4)
chans = (0, 1, 2, 3)
orders = (Endianess.LITTLE, Endianess.BIG)

# one stream, exhaustive over small parameters
for w, c, o, signed in itertools.product(widths, chans, orders, (True, False)):
    enc = StreamEncoding(o, w, c, signed)
    fs = c * w
    for nbytes in (0, 1, 2, 3, 5, 7, 8, 12, 13, 24, 25, 61):
        data = bytes(rng.randrange(256) for _ in range(nbytes))
        for size in (1, 2, 3, 4, 6, 8, 12, 16, 4096):
            if fs == 0:
                # frame_size 0 -> ZeroDivisionError in resize_buffer: both
                # versions must raise identically
                check([(data, enc, None)], [size], rounds=2)
                break
            check([(data, enc, None)], [size])

# several streams, random mixes, unequal lengths, partial trailing frames
for _ in range(1500):
    n = rng.randint(1, 3)
    w = rng.choice(widths)
    spec = []
    sizes = []
    frames_per_block = rng.choice((1, 2, 3, 5, 16, 1024))
    for i in range(n):
        c = rng.choice((1, 1, 2, 3))
        enc = StreamEncoding(rng.choice(orders), w, c, rng.random() < 0.8)
        nbytes = rng.choice((0, 1, rng.randint(0, 80), c * w * rng.randint(0, 9)))
        data = bytes(rng.randrange(256) for _ in range(nbytes))
        fail_at = rng.choice((None, None, None, 1, 2, 3))
        spec.append((data, enc, fail_at))
        # also exercise sizes that are not a multiple of the frame size
        sizes.append(frames_per_block * c * w + rng.choice((0, 0, 0, 1)))
    if rng.random() < 0.1:
        sizes = sizes[:-1]          # zip() truncation
    if rng.random() < 0.1:
        sizes = sizes + [7]
    check(spec, sizes, rounds=rng.randint(1, 6))

# unusual sample width (dtype falls back to int16) with interleaving
for w in (3, 8):
    for c in (1, 2, 3):
        enc = StreamEncoding(Endianess.LITTLE, w, c, True)
        for nbytes in (0, 5, 6, 18, 24, 48, 50):
            data = bytes(rng.randrange(256) for _ in range(nbytes))
            check([(data, enc, None)], [c * w * 2])

# empty argument lists
check([], [])
check([], [4])

print(f"{cases} cases, {failures} mismatches")
sys.exit(1 if failures else 0)
