"""Equivalence demo for r13 (the wrapper around ls_action that turns a file
name into an image before a path is resolved or reported as not found:
actions._wrap_filestream).

The decorator as currently in the tree is compared with an inline copy of the
ORIGINAL implementation (run against the same module globals):
  * scripted: a recording function is decorated by both; every kind of
    `file` argument (str, str subclass, empty str, bytes, None, an Image
    instance, an arbitrary object), several positional / keyword argument
    shapes, a determine_image_type that returns a token / None / raises, and
    a decorated function that returns a value / raises: same calls seen by
    determine_image_type and by the function (arguments by identity), same
    return value of the wrapper (always None), same exception; the
    functools.wraps metadata is the same;
  * real: the undecorated ls_action (its __wrapped__) is decorated by both
    and run on an AKAI image given as a file name, as a parsed image object,
    on garbage / empty / missing files and a directory, for many found and
    not-found paths: same stdout, same exception;
  * the module's own ls_action / export_samples_to_wav (decorated at import
    time by whatever is in the tree) give the same stdout as the original
    decorator applied to their __wrapped__ function.
Exit 0 when all agree, else 1.
"""
import contextlib
import io
import itertools
import os
import shutil
import sys
import tempfile
import types

import smpl_extract.actions as actions
from smpl_extract.akai.data_types import AKAI_PARTITION_MAGIC
from smpl_extract.akai.data_types import AKAI_SAT_ENTRY_CNT
from smpl_extract.akai.data_types import AKAI_SECTOR_SIZE
from smpl_extract.akai.data_types import AKAI_VOLUME_ENTRY_CNT
from smpl_extract.akai.data_types import FILE_TABLE_END_FLAG
from smpl_extract.structural import Image


# ---- ORIGINAL implementation (verbatim) -----------------------------------
def _orig_wrap_filestream(func):
    @wraps(func)
    def inner(file, *args, **kwargs):
        if isinstance(file, str):
            result = determine_image_type(file)
        else:
            result = file
        func(result, *args, **kwargs)
    return inner


def rehome(function, name):
    """Make the pasted original resolve its globals (wraps,
    determine_image_type) in smpl_extract.actions like the tree's code."""
    return types.FunctionType(
        function.__code__, actions.__dict__, name, function.__defaults__,
        function.__closure__,
    )


orig_wrap_filestream = rehome(_orig_wrap_filestream, "_wrap_filestream")
new_wrap_filestream = actions._wrap_filestream


# ---- part 1: scripted -----------------------------------------------------
class Boom(Exception):
    pass


class Token:
    def __init__(self, label):
        self.label = label

    def __repr__(self):
        return f"<{self.label}>"


class StrSub(str):
    pass


class FakeImage(Image):
    def __init__(self):
        pass


FILE_KINDS = ["str", "strsub", "empty", "bytes", "none", "image", "object"]
DETERMINE = ["token", "none", "boom", "oserror"]
FUNC = ["value", "none", "boom"]
ARG_SHAPES = [
    ((), {}),
    (("path",), {}),
    ((), {"path": "A/B"}),
    (("a", 2, None), {"k": 1, "z": (1, 2)}),
]


def make_file(kind):
    if kind == "str":
        return "/some/dir/image.img"
    if kind == "strsub":
        return StrSub("relative.cue")
    if kind == "empty":
        return ""
    if kind == "bytes":
        return b"/some/dir/image.img"
    if kind == "none":
        return None
    if kind == "image":
        return FakeImage()
    return Token("stream-arg")


def run_scripted(decorator, file_kind, determine, func_behaviour, shape):
    log = []
    names = {}

    def label(value):
        return names.get(id(value), repr(value))

    def fake_determine(*args, **kwargs):
        log.append(("determine", tuple(map(label, args)), sorted(kwargs)))
        if determine == "boom":
            raise Boom("determine")
        if determine == "oserror":
            raise FileNotFoundError(2, "No such file", "x")
        if determine == "none":
            return None
        token = Token("determined")
        names[id(token)] = "determined-image"
        names.setdefault("keep", []).append(token)
        return token

    def the_action(*args, **kwargs):
        "doc of the action"
        log.append((
            "action", tuple(map(label, args)),
            tuple((k, label(v)) for k, v in kwargs.items()),
        ))
        if func_behaviour == "boom":
            raise Boom("action")
        if func_behaviour == "value":
            return Token("action-result")
        return None

    file_arg = make_file(file_kind)
    if file_arg is not None:
        names[id(file_arg)] = "file-arg"
    saved = actions.determine_image_type
    actions.determine_image_type = fake_determine
    try:
        wrapped = decorator(the_action)
        meta = (
            wrapped.__name__, wrapped.__qualname__, wrapped.__doc__,
            wrapped.__wrapped__ is the_action, wrapped.__module__,
        )
        args, kwargs = shape
        try:
            outcome = ("ok", repr(wrapped(file_arg, *args, **kwargs)))
        except BaseException as exc:  # noqa: B902
            outcome = ("exc", type(exc).__name__, str(exc))
        # calling with no argument at all / file given by keyword
        extra = []
        for call in (
            lambda: wrapped(),
            lambda: wrapped(file=file_arg),
            lambda: wrapped(file_arg, file="twice"),
        ):
            try:
                extra.append(("ok", repr(call())))
            except BaseException as exc:  # noqa: B902
                extra.append(("exc", type(exc).__name__))
    finally:
        actions.determine_image_type = saved
    return meta, outcome, extra, log


# ---- part 2: real files ---------------------------------------------------
def akai_name(text):
    out = []
    for ch in text.ljust(12)[:12]:
        if ch.isdigit():
            out.append(ord(ch) - ord("0"))
        elif "A" <= ch <= "Z":
            out.append(0x0B + ord(ch) - ord("A"))
        else:
            out.append({" ": 0x0A, "#": 0x25, "+": 0x26, "-": 0x27,
                        ".": 0x28}[ch])
    return bytes(out)


def make_partition(sectors, volumes=()):
    header = (
        sectors.to_bytes(2, "little") + b"\x00\x00" + AKAI_PARTITION_MAGIC
        + bytes([0x55, 0xBA]) + b"\x2f\x00"
    )
    sat = [0] * AKAI_SAT_ENTRY_CNT
    entries = b""
    bodies = {}
    next_sector = 4
    for n in range(AKAI_VOLUME_ENTRY_CNT):
        if n < len(volumes):
            name, vtype = volumes[n]
            entries += (
                akai_name(name) + vtype.to_bytes(2, "little")
                + next_sector.to_bytes(2, "little")
            )
            sat[next_sector] = 0xC000
            body = bytearray(AKAI_SECTOR_SIZE)
            body[8:10] = FILE_TABLE_END_FLAG.to_bytes(2, "little")
            bodies[next_sector] = bytes(body)
            next_sector += 1
        else:
            entries += bytes([0x0A] * 12) + b"\x00\x00\x00\x00"
    for s in range(4):
        sat[s] = 0x4000
    sat_bytes = b"".join(v.to_bytes(2, "little") for v in sat)
    blob = bytearray(sectors * AKAI_SECTOR_SIZE)
    head = header + entries + sat_bytes
    blob[:len(head)] = head
    for sector, body in bodies.items():
        blob[sector * AKAI_SECTOR_SIZE:(sector + 1) * AKAI_SECTOR_SIZE] = body
    return bytes(blob)


def write_files(root):
    vols_a = (("VOLUME 001", 1), ("VOLUME 002", 3), ("VOLUME 001", 1))
    akai = make_partition(8, vols_a) + make_partition(4, (("DRUMS", 3),))
    files = {
        "akai.img": akai,
        "empty.bin": b"",
        "garbage.bin": bytes(range(256)) * 64,
        "text.txt": b"hello world\nnot a cue sheet\n",
        "data.cue": (
            b"FILE \"akai.img\" BINARY\n  TRACK 01 MODE1/2352\n"
            b"    INDEX 01 00:00:00\n"
        ),
    }
    for name, data in files.items():
        with open(os.path.join(root, name), "wb") as handle:
            handle.write(data)
    os.mkdir(os.path.join(root, "subdir"))
    return sorted(files) + ["subdir", "does-not-exist.img"]


LS_PATHS = [
    "", " ", "/", "\\", "A", "a:", " A: ", "A:/", "A\\", "B", "C", "A:B",
    "A/VOLUME 001", "A/VOLUME 001 (2)", "a/volume 002/", "A\\VOLUME 002\\",
    "A/VOLUME 003", "B:/DRUMS", "B/DRUMS/x", "A//VOLUME 001", "nope",
    "\u2603", "A/\u00e4", "::", "A::",
]


def run_ls(wrapped, argument, path):
    buf = io.StringIO()
    try:
        with contextlib.redirect_stdout(buf):
            returned = wrapped(argument, path)
        return ("ok", repr(returned), buf.getvalue())
    except BaseException as exc:  # noqa: B902
        return ("exc", type(exc).__name__, str(exc), buf.getvalue())


def main():
    failures = 0
    checked = 0

    for combo in itertools.product(FILE_KINDS, DETERMINE, FUNC, ARG_SHAPES):
        expected = run_scripted(orig_wrap_filestream, *combo)
        actual = run_scripted(new_wrap_filestream, *combo)
        checked += 1
        if expected != actual:
            failures += 1
            if failures <= 5:
                print("MISMATCH", combo)
                print("  expected", expected)
                print("  actual  ", actual)

    raw_ls = actions.ls_action.__wrapped__
    raw_export = actions.export_samples_to_wav.__wrapped__
    ls_variants = {
        "orig": orig_wrap_filestream(raw_ls),
        "new": new_wrap_filestream(raw_ls),
        "module": actions.ls_action,
    }
    export_variants = {
        "orig": orig_wrap_filestream(raw_export),
        "new": new_wrap_filestream(raw_export),
        "module": actions.export_samples_to_wav,
    }

    root = tempfile.mkdtemp()
    try:
        names = write_files(root)
        saw_listing = False
        saw_not_found = False
        for name in names:
            target = os.path.join(root, name)
            for path in LS_PATHS:
                results = {
                    key: run_ls(wrapped, target, path)
                    for key, wrapped in ls_variants.items()
                }
                checked += 1
                if "was not found" in results["orig"][-1]:
                    saw_not_found = True
                if "VOLUME 001 (2)" in results["orig"][-1]:
                    saw_listing = True
                if not (results["orig"] == results["new"]
                        == results["module"]):
                    failures += 1
                    if failures <= 5:
                        print("MISMATCH ls", name, repr(path), results)

        # an already parsed image object is passed through untouched
        for key_a, key_b in (("orig", "new"), ("orig", "module")):
            image_a = actions.determine_image_type(
                os.path.join(root, "akai.img"))
            image_b = actions.determine_image_type(
                os.path.join(root, "akai.img"))
            for path in LS_PATHS:
                first = run_ls(ls_variants[key_a], image_a, path)
                second = run_ls(ls_variants[key_b], image_b, path)
                checked += 1
                if first != second:
                    failures += 1
                    if failures <= 5:
                        print("MISMATCH ls(image)", repr(path), first, second)
            image_a.file.close()
            image_b.file.close()

        # the other decorated action, on a file name and on a non-image
        for name in ("akai.img", "garbage.bin", "does-not-exist.img"):
            outs = {}
            for key, wrapped in export_variants.items():
                out_dir = os.path.join(root, "out-" + key + "-" + name)
                outcome = run_ls(wrapped, os.path.join(root, name), out_dir)
                tree = sorted(
                    os.path.relpath(os.path.join(d, f), out_dir)
                    for d, _, fs in os.walk(out_dir) for f in fs
                )
                outs[key] = (
                    tuple(
                        part.replace(out_dir, "<out>")
                        if isinstance(part, str) else part
                        for part in outcome
                    ),
                    tree,
                )
            checked += 1
            if not (outs["orig"] == outs["new"] == outs["module"]):
                failures += 1
                print("MISMATCH export", name, outs)

        if not (saw_listing and saw_not_found):
            print("fixtures did not reach listing / not-found output")
            failures += 1
    finally:
        shutil.rmtree(root, ignore_errors=True)

    print(f"checked {checked} cases, {failures} mismatches")
    return 1 if failures else 0


if __name__ == "__main__":
    sys.exit(main())
