"""Equivalence demo for r9 (smpl_extract/util/constructs.py: pull_child_info).

The ORIGINAL pull_child_info (with its dead initial stores and if-statements)
is pasted below and compared with the live one on

 A. a cross product of hand-made contexts: keys present at level 0, level 1,
    level 2 (too deep to be seen), absent; values None / falsy / truthy;
    explicit `name` argument None / "" / "x" / 0; parents with a path, with
    an empty path, without a `path` attribute (AttributeError), with a path
    that is not a list (TypeError on concatenation), with a __bool__ that
    raises (identity tests must not call it);
 B. the order of the look-ups made on the context (a recording dict);
 C. identity relations of the result (parent_path is parent.path, next_path
    is parent_path when unnamed, a fresh list otherwise);
 D. random contexts;
 E. end to end: a small AKAI volume parsed through FileEntriesAdapter (which
    calls pull_child_info) with every type byte in one file entry.

Exit 0 when everything agrees, 1 otherwise.
"""
import io
import itertools
import random
import struct
import sys
from typing import Any
from typing import Dict
from typing import Optional

from construct.lib.containers import Container

import smpl_extract.util.constructs as cm
from smpl_extract.util.constructs import ChildInfo
from smpl_extract.util.constructs import _pull_from_context


# ---------------------------------------------------------------- original
def orig_pull_child_info(context: Dict[str, Any], name: Optional[str] = None) -> ChildInfo:
    parent = None
    parent_path = []
    routines = []
    resultant_path = parent_path

    # name
    if name is None:
        name = _pull_from_context(context, "_elem_name", None)
    # parent
    parent = _pull_from_context(context, "_elem_parent", None)
    # parent_path
    if parent is not None:
        parent_path = parent.path
    # resultant_path
    if name is not None:
        resultant_path = parent_path + [name]
    else:
        resultant_path = parent_path
    # routines
    routines = _pull_from_context(context, "_elem_routines", [])

    result = ChildInfo(
        parent=parent,
        parent_path=parent_path,
        next_path=resultant_path,
        routines=routines,
        name=name
    )
    return result


# ---------------------------------------------------------------- helpers
class P:
    def __init__(self, path):
        self.path = path

    def __repr__(self):
        return "P(%r)" % (self.path,)


class NoPath:
    def __repr__(self):
        return "NoPath()"


class AngryBool(P):
    def __bool__(self):
        raise RuntimeError("bool called")

    def __eq__(self, other):
        raise RuntimeError("eq called")

    __hash__ = object.__hash__


class PathProp:
    """path is a property that counts its reads and returns a new list"""
    def __init__(self):
        self.reads = 0

    @property
    def path(self):
        self.reads += 1
        return ["p", str(self.reads)]


class RecDict(dict):
    """records every look-up"""
    def __init__(self, *a, log=None, tag="", **k):
        super().__init__(*a, **k)
        self.log = log if log is not None else []
        self.tag = tag

    def keys(self):
        self.log.append((self.tag, "keys"))
        return super().keys()

    def __getitem__(self, k):
        self.log.append((self.tag, "get", k))
        return super().__getitem__(k)

    def __contains__(self, k):
        self.log.append((self.tag, "in", k))
        return super().__contains__(k)


failures = 0
checks = 0


def outcome(fn, *args):
    try:
        r = fn(*args)
    except BaseException as e:  # noqa
        return ("exc", type(e), str(e)), None
    return ("ok", r), r


def same_result(a, b):
    """ChildInfo equality AND identity of every member"""
    if a[0] != b[0]:
        return False
    if a[0] == "exc":
        return a == b
    ra, rb = a[1], b[1]
    if type(ra) is not type(rb) or ra._fields != rb._fields:
        return False
    for f in ("parent", "routines", "name"):
        if getattr(ra, f) is not getattr(rb, f):
            # fresh default list of routines: compare by value and type
            if f == "routines" and getattr(ra, f) == [] and getattr(rb, f) == [] \
                    and type(getattr(ra, f)) is type(getattr(rb, f)):
                continue
            return False
    for f in ("parent_path", "next_path"):
        va, vb = getattr(ra, f), getattr(rb, f)
        if type(va) is not type(vb) or va != vb:
            return False
    # aliasing structure
    if (ra.parent_path is ra.next_path) != (rb.parent_path is rb.next_path):
        return False
    pa = getattr(ra.parent, "__dict__", {}).get("path", None)
    if pa is not None:
        if (ra.parent_path is pa) != (rb.parent_path is pa):
            return False
    return True


def check(label, ctx_factory, *args):
    global failures, checks
    checks += 1
    c1 = ctx_factory()
    c2 = ctx_factory()
    a, _ = outcome(orig_pull_child_info, c1, *args)
    b, _ = outcome(cm.pull_child_info, c2, *args)
    ok = same_result(a, b)
    if ok and isinstance(c1, RecDict):
        ok = c1.log == c2.log
    if ok and c1 != c2:
        ok = False
    if not ok:
        failures += 1
        if failures < 20:
            print("MISMATCH", label, args, a, b)


# ---------------------------------------------------------------- A + B + C
shared_path = ["A", "VOL"]
shared_routines = {"r": (lambda x: x)}
parents = [
    None,
    P(shared_path),
    P([]),
    P(("t",)),           # tuple + list -> TypeError
    P(None),             # None + list -> TypeError
    P("str"),            # str + list -> TypeError
    NoPath(),            # AttributeError
    AngryBool(["q"]),
    0, "", False,        # falsy, not None: attribute error on .path
]
names = [None, "", "x", 0, "NAME  12", ["l"]]
routines_values = ["ABSENT", None, [], shared_routines, ()]
arg_names = [(), (None,), ("",), ("arg",), (0,)]
placements = ["absent", "l0", "l1", "l2", "l0+l1"]


def build(parent_pl, parent, name_pl, name, rout_pl, rout, rec):
    def factory():
        log = []
        mk = (lambda tag: RecDict(log=log, tag=tag)) if rec else (lambda tag: dict())
        l0, l1, l2 = mk("l0"), mk("l1"), mk("l2")
        levels = {"l0": l0, "l1": l1, "l2": l2}
        for key, pl, val in (
                ("_elem_parent", parent_pl, parent),
                ("_elem_name", name_pl, name),
                ("_elem_routines", rout_pl, rout)):
            if pl == "absent" or (key == "_elem_routines" and val == "ABSENT"):
                continue
            if pl == "l0+l1":
                dict.__setitem__(l0, key, val)
                dict.__setitem__(l1, key, "shadowed")
            else:
                dict.__setitem__(levels[pl], key, val)
        dict.__setitem__(l1, "_", l2)
        dict.__setitem__(l0, "_", l1)
        return l0
    return factory


for parent_pl, name_pl, rout_pl in itertools.product(placements, repeat=3):
    for parent in parents:
        for name in names:
            for rout in routines_values:
                for args in arg_names:
                    for rec in (False, True):
                        check(
                            (parent_pl, parent, name_pl, name, rout_pl, rout, rec),
                            build(parent_pl, parent, name_pl, name, rout_pl, rout, rec),
                            *args
                        )

# contexts without "_" at all, and Container contexts
shared_parent = P(["a"])
shared_rout = {}
for ctx in (
        lambda: {},
        lambda: Container(),
        lambda: Container(_elem_parent=shared_parent, _elem_name="n"),
        lambda: Container(_=Container(_elem_parent=shared_parent, _elem_routines=shared_rout), _elem_name="n"),
        lambda: {"_": {}},
        lambda: {"_": None},          # `"x" in None.keys()` -> AttributeError
        lambda: None,                 # AttributeError
):
    for args in arg_names:
        check("misc", ctx, *args)

# property read exactly once
for args in arg_names:
    pa, pb = PathProp(), PathProp()
    ra = orig_pull_child_info({"_elem_parent": pa}, *args)
    rb = cm.pull_child_info({"_elem_parent": pb}, *args)
    checks += 1
    if pa.reads != pb.reads or ra.parent_path != rb.parent_path \
            or ra.next_path != rb.next_path \
            or (ra.parent_path is ra.next_path) != (rb.parent_path is rb.next_path):
        failures += 1
        print("MISMATCH property reads", args, pa.reads, pb.reads)

# fresh empty path every call (no shared mutable default)
x1 = cm.pull_child_info({})
x2 = cm.pull_child_info({})
checks += 1
if x1.parent_path is x2.parent_path or x1.parent_path is not x1.next_path \
        or x1.routines is x2.routines:
    failures += 1
    print("MISMATCH fresh lists")

# ---------------------------------------------------------------- D random
rnd = random.Random(1409)
pool = [None, "", "n", 0, 1, [], ["z"], P(["r"]), P([]), NoPath(), {}, ()]
for _ in range(20000):
    def fac(seed=rnd.random()):
        r = random.Random(seed)
        l2 = {k: r.choice(pool) for k in ("_elem_parent", "_elem_name", "_elem_routines") if r.random() < 0.5}
        l1 = {k: r.choice(pool) for k in ("_elem_parent", "_elem_name", "_elem_routines") if r.random() < 0.5}
        l0 = {k: r.choice(pool) for k in ("_elem_parent", "_elem_name", "_elem_routines") if r.random() < 0.5}
        if r.random() < 0.8:
            l1["_"] = l2
        if r.random() < 0.8:
            l0["_"] = l1
        return l0
    args = rnd.choice(arg_names)
    check("random", fac, *args)


# ---------------------------------------------------------------- E end to end
def end_to_end():
    """FileEntriesAdapter over a synthetic file table, live function patched
    in and out."""
    from construct.expr import this
    from smpl_extract.akai.akai_string import char_ascii_to_akai
    from smpl_extract.akai.file_entry import FileEntriesAdapter
    from smpl_extract.akai.file_entry import FileEntryConstruct
    import smpl_extract.akai.file_entry as fe

    class Sat:
        def get_segment(self, start):
            return io.BytesIO(bytes(512))

    def akai(s):
        return bytes(char_ascii_to_akai(c) for c in s.ljust(12))

    def entry(name, ftype, size, start):
        return akai(name) + bytes(4) + bytes([ftype]) + size.to_bytes(3, "little") \
            + struct.pack("<H", start) + bytes(2)

    def table(damage_type):
        t = entry("FIRST", 0x73, 100, 5) + entry("SECOND", damage_type, 100, 6) \
            + entry("THIRD", 0xF3, 100, 7)
        return t + bytes(24 * 3)

    adapter = FileEntriesAdapter(this.sat, FileEntryConstruct)
    parent = P(["IMG", "A", "VOL"])
    live = cm.pull_child_info
    bad = 0
    for t in range(256):
        outs = []
        for fn in (orig_pull_child_info, live):
            fe.pull_child_info = fn
            try:
                try:
                    res = adapter.parse_stream(
                        io.BytesIO(table(t)), sat=Sat(),
                        _elem_parent=parent, _elem_routines={})
                    outs.append([(e.name, e.file_type) for e in res])
                except Exception as e:  # noqa
                    outs.append(("exc", type(e), str(e)))
            finally:
                fe.pull_child_info = live
        if outs[0] != outs[1]:
            bad += 1
            print("MISMATCH e2e type byte", t, outs)
    return bad


checks += 256
failures += end_to_end()

print("checks:", checks, "failures:", failures)
sys.exit(1 if failures else 0)
