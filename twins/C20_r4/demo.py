"""Equivalence demo for r4: SampleParamEntryStruct
(smpl_extract/roland/s7xx/sample_entry.py), the Roland sample parameter record.

The struct in the tree is compared with an inline copy of the ORIGINAL
definition (inline dict literals) on: every loop_mode byte, every
sample_options byte, random whole 48-byte records (parse), the build direction
of the two mapped fields, truncated records (same exception), and the mapping
tables held by the MappingDefault instances.
"""
import random
import sys

from construct.core import Bitwise
from construct.core import Computed
from construct.core import Int16ul
from construct.core import Int8ul
from construct.core import Nibble
from construct.core import PaddedString
from construct.core import Padding
from construct.core import Struct
from construct.lib.containers import Container

from smpl_extract.roland.s7xx import sample_entry as M
from smpl_extract.roland.s7xx.data_types import RolandLoopMode
from smpl_extract.roland.s7xx.data_types import RolandSampleMode
from smpl_extract.roland.s7xx.sample_entry import MappingDefault
from smpl_extract.roland.s7xx.sample_entry import RolandMidiNote
from smpl_extract.roland.s7xx.sample_entry import SampleParamLoopPointParser


# ---- verbatim copy of the ORIGINAL definition ----------------------------
OrigSampleParamEntryStruct = Struct(
    "name"                  / PaddedString(16, encoding="ascii"),
    "index"                 / Computed(lambda this: this._index),
    "start_sample"          / SampleParamLoopPointParser,
    "sustain_loop_start"    / SampleParamLoopPointParser,
    "sustain_loop_end"      / SampleParamLoopPointParser,
    "release_loop_start"    / SampleParamLoopPointParser,
    "release_loop_end"      / SampleParamLoopPointParser,
    "loop_mode"             / MappingDefault(
        Int8ul,
        {
            RolandLoopMode.FORWARD_END:         0,
            RolandLoopMode.FORWARD_RELEASE:     1,
            RolandLoopMode.ONESHOT:             2,
            RolandLoopMode.FORWARD_ONESHOT:     3,
            RolandLoopMode.ALTERNATE:           4,
            RolandLoopMode.REVERSE_ONESHOT:     5,
            RolandLoopMode.REVERSE_LOOP:        6
        }, 
        (RolandLoopMode.FORWARD_END, 0)
    ),
    "sustain_loop_enable"   / Int8ul,
    "sustain_loop_tune"     / Int8ul,
    "release_loop_tune"     / Int8ul,
    "cluster_top"           / Int16ul,
    "num_clusters"          / Int16ul,
    "sample_options"        / Bitwise(Struct(
        "sample_mode"       /\
            MappingDefault(
                Nibble,
                {
                    RolandSampleMode.MONO:      0,
                    RolandSampleMode.STEREO:    1
                },
                (RolandSampleMode.MONO, 0)
            ),
        "sampling_frequency" /\
            MappingDefault(
                Nibble,
                {
                    48000: 0,
                    44100: 1,
                    24000: 2,
                    22050: 3,
                    30000: 4,
                    15000: 5
                }
            )
    )),
    "original_key"          / RolandMidiNote(Int8ul),
    Padding(2)
)

NEW = M.SampleParamEntryStruct
OLD = OrigSampleParamEntryStruct
failures = 0


def fail(*a):
    global failures
    failures += 1
    if failures < 20:
        print("MISMATCH", *a)


def norm(x):
    if isinstance(x, dict):
        return ("dict", tuple((k, norm(v)) for k, v in x.items() if not str(k).startswith("_")))
    if isinstance(x, (list, tuple)):
        return (type(x).__name__, tuple(norm(v) for v in x))
    return (type(x).__name__, repr(x))


def outcome(f, *a, **kw):
    try:
        return ("ok", norm(f(*a, **kw)))
    except Exception as e:
        return ("exc", type(e).__name__, str(e))


rng = random.Random(404)
RECORD = 48
assert NEW.sizeof() == OLD.sizeof() == RECORD


def record(loop_mode=None, options=None, key=None):
    name = bytes(rng.randrange(0x20, 0x7F) for _ in range(rng.randrange(0, 17))).ljust(16, b"\0")
    b = name + bytes(rng.randrange(256) for _ in range(20))
    b += bytes([rng.randrange(256) if loop_mode is None else loop_mode])
    b += bytes(rng.randrange(256) for _ in range(3 + 4))
    if options is None:   # mostly valid frequency codes (0..5), sometimes anything
        options = rng.randrange(256) if rng.randrange(5) == 0 \
            else (rng.randrange(16) << 4) | rng.randrange(6)
    b += bytes([options])
    b += bytes([rng.randrange(256) if key is None else key])
    b += bytes(rng.randrange(256) for _ in range(2))
    assert len(b) == RECORD
    return b


n = 0
stats = {"ok": 0, "exc": 0}
# every loop_mode byte, with a valid options byte
for lm in range(256):
    raw = record(loop_mode=lm, options=rng.choice([0x00, 0x01, 0x13, 0x15, 0xF2]))
    idx = rng.randrange(0x2000)
    g, w = outcome(NEW.parse, raw, _index=idx), outcome(OLD.parse, raw, _index=idx)
    stats[g[0]] += 1; n += 1
    if g != w:
        fail("loop_mode", lm, g, w)
# every options byte (frequency codes 6..15 raise MappingError in both)
for opt in range(256):
    raw = record(options=opt)
    g, w = outcome(NEW.parse, raw, _index=opt), outcome(OLD.parse, raw, _index=opt)
    stats[g[0]] += 1; n += 1
    if g != w:
        fail("options", opt, g, w)
# random records, and random truncations
for _ in range(4000):
    raw = record()
    if rng.randrange(8) == 0:
        raw = raw[:rng.randrange(RECORD)]
    idx = rng.choice([0, 1, rng.randrange(0x2000)])
    g, w = outcome(NEW.parse, raw, _index=idx), outcome(OLD.parse, raw, _index=idx)
    stats[g[0]] += 1; n += 1
    if g != w:
        fail("random", raw.hex(), g, w)
# without _index in the context
raw = record(options=0x01)
if outcome(NEW.parse, raw) != outcome(OLD.parse, raw):
    fail("no index")

# build direction of the mapped fields
lm_values = list(RolandLoopMode) + list(range(-1, 9)) + [None, "x", 255]
for v in lm_values:
    g, w = outcome(NEW.loop_mode.build, v), outcome(OLD.loop_mode.build, v)
    n += 1
    if g != w:
        fail("build loop_mode", v, g, w)
modes = list(RolandSampleMode) + [0, 1, 2, None]
freqs = [48000, 44100, 24000, 22050, 30000, 15000, 0, 1, 5, 32000, None]
for m in modes:
    for f in freqs:
        obj = Container(sample_mode=m, sampling_frequency=f)
        g, w = outcome(NEW.sample_options.build, obj), outcome(OLD.sample_options.build, obj)
        n += 1
        if g != w:
            fail("build options", m, f, g, w)


# the tables held by the mapping adapters
def tables(struct):
    lm = struct.loop_mode.subcon
    fr = struct.sample_options.subcon.subcon.sampling_frequency.subcon
    return [
        (list(lm.encmapping.items()), list(lm.decmapping.items()),
         lm.default_decode, lm.default_encode),
        (list(fr.encmapping.items()), list(fr.decmapping.items()),
         fr.default_decode, fr.default_encode),
    ]


if tables(NEW) != tables(OLD):
    fail("tables", tables(NEW), tables(OLD))
if [s.name for s in NEW.subcons] != [s.name for s in OLD.subcons]:
    fail("field names")

print("cases:", n, stats, "failures:", failures)
sys.exit(1 if failures else 0)
