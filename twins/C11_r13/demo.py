"""Equivalence demo for StreamReversed._translate_addr (smpl_extract/util/stream.py).

The live StreamReversed is compared with a subclass whose _translate_addr is a
verbatim copy of the ORIGINAL single-function implementation.  Compared are:
return values, exception types and messages, object state afterwards and the
exact sequence of tell/seek/read calls issued on the shared underlying handle,
for direct calls of _translate_addr, for scripted read/seek sequences, for
reversed views nested over StreamOffset windows (the way the Roland sample code
builds them) and for random interleavings of several views over ONE handle.
In addition every stream's bytes under interleaving are compared with what an
isolated sequential reader of the same view obtains.
Exit 0 when everything agrees, 1 otherwise.
"""
import io
import itertools
import random
import sys
from io import SEEK_CUR, SEEK_END, SEEK_SET

from smpl_extract.util.stream import BadAlign
from smpl_extract.util.stream import BadReadSize
from smpl_extract.util.stream import StreamOffset
from smpl_extract.util.stream import StreamReversed


class OrigStreamReversed(StreamReversed):
    def _translate_addr(self, address: int) -> int:
        """Verbatim copy of the original StreamReversed._translate_addr."""
        if self.true_size % self.sample_width != 0:
            raise BadReadSize(
                f"Read Size: {self.true_size} is not evenly "
                f"divisible by {self.sample_width}."
            )
        true_address = self.end_of_file - (address + self.true_size)
        if true_address % self.sample_width != 0:
            raise BadAlign(
                f"Position: {true_address} is not evenly "
                f"divisible by {self.sample_width}."
            )
        return true_address


class TraceIO(io.BytesIO):
    def __init__(self, data):
        super().__init__(data)
        self.trace = []

    def seek(self, off, whence=0):
        self.trace.append(("seek>", off, whence))
        r = super().seek(off, whence)
        self.trace.append(("seek<", r))
        return r

    def tell(self):
        r = super().tell()
        self.trace.append(("tell", r))
        return r

    def read(self, size=-1):
        r = super().read(size)
        self.trace.append(("read", size, r))
        return r


FAILURES = []
CHECKS = 0


def check(cond, what):
    global CHECKS
    CHECKS += 1
    if not cond:
        FAILURES.append(what)
        if len(FAILURES) <= 20:
            print("MISMATCH:", what)


def outcome(f, *a, **k):
    try:
        return ("ok", f(*a, **k))
    except BaseException as e:  # noqa: BLE001 - we compare whatever is raised
        return ("exc", type(e).__name__, str(e))


def state(view):
    return (
        view.position, view.true_size, view.end_of_file,
        view.sample_width, view.buffer_length,
    )


def payload(n, seed=0):
    rnd = random.Random(seed)
    return bytes(rnd.randrange(256) for _ in range(n))


# ---------------------------------------------------------------------------
# 1. direct calls of _translate_addr over a grid of object states
# ---------------------------------------------------------------------------
def direct_calls():
    for width in (1, 2, 3, 4, 8, 0, -2):
        for eof in (0, 1, 2, 6, 7, 12, 24, 25):
            for true_size in (0, 1, 2, 3, 4, 6, 12, 13, 24, 4096, -2):
                for address in (0, 1, 2, 3, 5, 6, 11, 12, 24, 30, -1, -4):
                    views = []
                    for cls in (StreamReversed, OrigStreamReversed):
                        v = cls(io.BytesIO(b""), eof, sample_width=width)
                        v.true_size = true_size
                        views.append(v)
                    a = outcome(views[0]._translate_addr, address)
                    b = outcome(views[1]._translate_addr, address)
                    check(a == b, ("direct", width, eof, true_size, address, a, b))
                    check(state(views[0]) == state(views[1]),
                          ("direct-state", width, eof, true_size, address))


# ---------------------------------------------------------------------------
# 2. scripted read/seek sequences, plain and nested over a StreamOffset
# ---------------------------------------------------------------------------
def build(cls, handle, kind, width, size, base):
    if kind == "plain":
        return cls(handle, size, sample_width=width)
    inner = StreamOffset(handle, size, base)
    return cls(inner, size, sample_width=width)


def run_script(cls, kind, width, size, base, script, data):
    handle = TraceIO(data)
    view = build(cls, handle, kind, width, size, base)
    log = []
    for op in script:
        if op[0] == "read":
            log.append(outcome(view.read, op[1]))
        elif op[0] == "seek":
            log.append(outcome(view.seek, op[1], op[2]))
        elif op[0] == "tell":
            log.append(outcome(view.tell))
        elif op[0] == "poke":  # something else moved the shared cursor
            handle.seek(op[1], SEEK_SET)
        log.append(state(view))
    return log, handle.trace


def scripted():
    data = payload(96, 1)
    rnd = random.Random(13)
    sizes = (0, 1, 2, 3, 4, 5, 6, 8, 12, 16, 100, None, -1)
    for kind, width, size, base in itertools.product(
            ("plain", "nested"), (1, 2, 3, 4), (0, 1, 6, 12, 24, 25, 48), (0, 5, 16)):
        if kind == "plain" and base:
            continue
        for trial in range(12):
            script = []
            for _ in range(rnd.randrange(1, 9)):
                r = rnd.random()
                if r < 0.55:
                    script.append(("read", rnd.choice(sizes)))
                elif r < 0.8:
                    script.append(("seek", rnd.randrange(-8, 56),
                                   rnd.choice((SEEK_SET, SEEK_CUR, SEEK_END, 7))))
                elif r < 0.9:
                    script.append(("tell",))
                else:
                    script.append(("poke", rnd.randrange(0, 96)))
            a = run_script(StreamReversed, kind, width, size, base, script, data)
            b = run_script(OrigStreamReversed, kind, width, size, base, script, data)
            check(a[0] == b[0], ("script-results", kind, width, size, base, script))
            check(a[1] == b[1], ("script-trace", kind, width, size, base, script))


# ---------------------------------------------------------------------------
# 3. several views over ONE handle, every/random interleavings
# ---------------------------------------------------------------------------
SPECS = (
    # (window start in the image, size in bytes, sample width, block size)
    (0, 24, 2, 4),
    (10, 36, 2, 6),
    (7, 30, 3, 9),
    (40, 16, 1, 5),
    (48, 32, 4, 8),
)


def make_views(cls, handle, specs):
    views = []
    for start, size, width, _block in specs:
        views.append(cls(StreamOffset(handle, size, start), size, sample_width=width))
    return views


def isolated_bytes(cls, data, spec):
    start, size, width, block = spec
    view = cls(StreamOffset(io.BytesIO(data), size, start), size, sample_width=width)
    out = []
    while True:
        chunk = view.read(block)
        if not chunk:
            break
        out.append(chunk)
    return out


def run_schedule(cls, data, specs, schedule):
    handle = TraceIO(data)
    views = make_views(cls, handle, specs)
    got = [[] for _ in specs]
    for who in schedule:
        got[who].append(outcome(views[who].read, specs[who][3]))
    return got, handle.trace, [state(v) for v in views]


def expected_reversed(data, spec):
    start, size, width, _block = spec
    window = data[start:start + size]
    samples = [window[i:i + width] for i in range(0, size, width)]
    return b"".join(reversed(samples))


def interleavings():
    data = payload(96, 2)
    # isolated readers: live == original == mirrored samples
    for spec in SPECS:
        a = isolated_bytes(StreamReversed, data, spec)
        b = isolated_bytes(OrigStreamReversed, data, spec)
        check(a == b, ("isolated", spec))
        check(b"".join(a) == expected_reversed(data, spec), ("mirror", spec))

    # exhaustive: 2 and 3 streams x few blocks each
    for specs in (SPECS[:2], SPECS[1:3], SPECS[:3], SPECS[2:5]):
        blocks = 3 if len(specs) == 2 else 2
        base = [i for i in range(len(specs)) for _ in range(blocks)]
        for schedule in sorted(set(itertools.permutations(base))):
            a = run_schedule(StreamReversed, data, specs, schedule)
            b = run_schedule(OrigStreamReversed, data, specs, schedule)
            check(a == b, ("exhaustive", specs, schedule))
            for who, spec in enumerate(specs):
                alone = isolated_bytes(StreamReversed, data, spec)
                seen = [x[1] for x in a[0][who]]
                check(seen == alone[:len(seen)], ("isolation", specs, schedule, who))

    # random: all five streams, read to exhaustion and beyond
    rnd = random.Random(99)
    for trial in range(150):
        schedule = [rnd.randrange(len(SPECS)) for _ in range(rnd.randrange(5, 60))]
        a = run_schedule(StreamReversed, data, SPECS, schedule)
        b = run_schedule(OrigStreamReversed, data, SPECS, schedule)
        check(a == b, ("random", trial))
        for who, spec in enumerate(SPECS):
            alone = isolated_bytes(StreamReversed, data, spec) + [b""] * 80
            seen = [x[1] for x in a[0][who]]
            check(seen == alone[:len(seen)], ("random-isolation", trial, who))


# ---------------------------------------------------------------------------
# 4. the documented failure modes still fail the same way
# ---------------------------------------------------------------------------
def failure_modes():
    data = payload(32, 3)
    cases = (
        # width, size, first op
        (2, 12, ("read", 3)),      # block does not hold whole samples
        (2, 13, ("read", 4)),      # window is not sample aligned
        (3, 12, ("read", 4)),
        (4, 10, ("seek", 0, SEEK_SET)),
        (0, 12, ("read", 4)),      # ZeroDivisionError comes first
        (2, 12, ("seek", 1, SEEK_SET)),
    )
    for width, size, op in cases:
        results = []
        for cls in (StreamReversed, OrigStreamReversed):
            handle = TraceIO(data)
            view = cls(handle, size, sample_width=width)
            first = outcome(getattr(view, op[0]), *op[1:])
            second = outcome(view.read, 2 * max(width, 1))
            results.append((first, second, state(view), handle.trace))
        check(results[0] == results[1], ("failure", width, size, op))
    r = outcome(StreamReversed(io.BytesIO(data), 12, sample_width=2).read, 3)
    check(r == ("exc", "BadReadSize", "Read Size: 3 is not evenly divisible by 2."), ("msg1", r))
    r = outcome(StreamReversed(io.BytesIO(data), 13, sample_width=2).read, 4)
    check(r == ("exc", "BadAlign", "Position: 9 is not evenly divisible by 2."), ("msg2", r))


def main():
    direct_calls()
    scripted()
    interleavings()
    failure_modes()
    print(f"{CHECKS} checks, {len(FAILURES)} mismatches")
    return 1 if FAILURES else 0


if __name__ == "__main__":
    sys.exit(main())
