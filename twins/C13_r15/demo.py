"""Equivalence demo for the FileEntryConstruct declaration
(smpl_extract/akai/file_entry.py), the 24 byte record whose sizeof() bounds the
directory table scan `for _i in range(max_table_entry_cnt)` in
FileEntriesAdapter._parse and whose computed `file_stream` field opens the
segment chain of every entry.

An inline copy of the ORIGINAL declaration is compared with the one in the tree
  * field by field on thousands of single records (valid and invalid names,
    every file type byte, sizes, starts, truncated records), with a fake SAT
    that logs every get_segment call and refuses some sectors,
  * through FileEntriesAdapter on whole directory tables (end flag at various
    places, bad entries, ragged table sizes), including the lazily parsed file
    of every entry.
Exit 0 when everything agrees, 1 otherwise.
"""
import io
import random
import struct
import sys

from construct.core import Computed
from construct.core import Int8ul
from construct.core import Int16ul
from construct.core import Int24ul
from construct.core import Padding
from construct.core import Struct
from construct.expr import this
from construct.lib.containers import Container

from smpl_extract.akai.akai_string import AkaiPaddedString
from smpl_extract.akai.akai_string import char_ascii_to_akai
from smpl_extract.akai.data_types import FileType
from smpl_extract.akai.file_entry import FileEntriesAdapter
from smpl_extract.akai.file_entry import FileEntryConstruct
from smpl_extract.util.constructs import EnumWrapper
from smpl_extract.util.fat import RequestedInvalidSector
from smpl_extract.util.stream import StreamWrapper


# verbatim copy of the original declaration
OriginalFileEntryConstruct = Struct(
    "name"      / AkaiPaddedString(12),
    Padding(4),
    "file_type" / EnumWrapper(Int8ul, FileType),  
    "size"      / Int24ul,
    "start"     / Int16ul,
    Padding(2),
    "file_stream" / Computed(lambda this:
        StreamWrapper(this._.sat.get_segment(this.start), this.size)
    )
)


class FakeSat:
    """stands for the SegmentAllocationTable of the volume"""

    def __init__(self):
        self.log = []
        self.handed_out = []

    def get_segment(self, index):
        self.log.append(index)
        if index % 7 == 3:
            raise RequestedInvalidSector
        if index == 16:
            raise IndexError("sat")
        rng = random.Random(index)
        segment = io.BytesIO(bytes(rng.getrandbits(8) for _ in range(400)))
        self.handed_out.append(segment)
        return segment


failures = 0
checked = 0


def report(label, new, old):
    global failures, checked
    checked += 1
    if new != old:
        failures += 1
        if failures < 10:
            print("MISMATCH", label)
            print("   new", str(new)[:400])
            print("   old", str(old)[:400])


def describe_exception(e):
    return ("raise", type(e), e.args, type(e.__cause__), type(e.__context__))


# ------------------------------------------------------------ single record
def record_outcome(construct, data):
    sat = FakeSat()
    stream = io.BytesIO(data)
    try:
        entry = construct.parse_stream(stream, _=Container(marker=1), sat=sat)
    except BaseException as e:  # noqa
        return describe_exception(e) + (stream.tell(), sat.log)
    file_stream = entry.file_stream
    return (
        "ok", sorted(k for k in entry.keys()),
        entry.name, entry.file_type, type(entry.file_type), entry.size,
        entry.start, type(file_stream), file_stream.end_of_file,
        file_stream.position, file_stream.buffer_length,
        len(sat.handed_out) == 1 and file_stream.substream is sat.handed_out[0],
        file_stream.read(16), stream.tell(), sat.log,
    )


NAME_ALPHABET = "ABCXYZ0189 #+-."
FILE_TYPES = [int(t) for t in FileType]


def make_record(rng):
    kind = rng.random()
    if kind < 0.75:
        text = "".join(rng.choice(NAME_ALPHABET) for _ in range(rng.randint(0, 12)))
        name = char_ascii_to_akai(text.ljust(12))
    elif kind < 0.9:
        name = bytes(rng.randrange(0, 48) for _ in range(12))
    else:
        name = bytes(rng.getrandbits(8) for _ in range(12))
    file_type = rng.choice(FILE_TYPES) if rng.random() < 0.8 else rng.getrandbits(8)
    size = rng.choice((0, 1, 15, 150, 400, 401, 0xFFFFFF, rng.getrandbits(24)))
    start = rng.choice((0, 1, 2, 3, 5, 10, 16, 0xFFFF, rng.getrandbits(16)))
    record = name + bytes(rng.getrandbits(8) for _ in range(4))
    record += bytes([file_type]) + size.to_bytes(3, "little")
    record += struct.pack("<H", start) + bytes(rng.getrandbits(8) for _ in range(2))
    assert len(record) == 24
    return record


# ---------------------------------------------------------- whole directory
class Parent:
    path = ["img", "A", "VOL"]


def table_outcome(construct, data):
    sat = FakeSat()
    parent = Parent()
    body = Struct("file_entries" / FileEntriesAdapter(this._.sat, construct))
    stream = io.BytesIO(data)
    try:
        parsed = body.parse_stream(
            stream, _=Container(marker=2), sat=sat,
            _elem_parent=parent, _elem_routines={}
        )
    except BaseException as e:  # noqa
        return describe_exception(e) + (stream.tell(), sat.log)
    entries = []
    for entry in parsed.file_entries:
        try:
            content = entry.file
            content = (type(content), getattr(content, "name", None),
                       getattr(content, "path", None))
        except BaseException as e:  # noqa
            content = describe_exception(e)[:2]
        entries.append((entry.name, entry.file_type, content))
    return ("ok", entries, stream.tell(), sat.log)


END_RECORD = bytes(8) + struct.pack("<H", 0xD747) + bytes(14)


def make_table(rng):
    n = rng.randint(0, 12)
    records = [make_record(rng) for _ in range(n)]
    if records and rng.random() < 0.5:
        records[rng.randrange(len(records))] = END_RECORD
    data = b"".join(records)
    if rng.random() < 0.4:
        data += bytes(rng.getrandbits(8) for _ in range(rng.randint(1, 23)))
    if rng.random() < 0.1:
        data = data[:rng.randint(0, len(data))]
    return data


def main():
    rng = random.Random(15)

    report("sizeof", FileEntryConstruct.sizeof(), OriginalFileEntryConstruct.sizeof())
    report("sizeof is 24", FileEntryConstruct.sizeof(), 24)
    report("field names",
           [sc.name for sc in FileEntryConstruct.subcons],
           [sc.name for sc in OriginalFileEntryConstruct.subcons])
    report("field types",
           [type(sc).__name__ for sc in FileEntryConstruct.subcons],
           [type(sc).__name__ for sc in OriginalFileEntryConstruct.subcons])

    for n in range(6000):
        record = make_record(rng)
        if n % 10 == 0:
            record = record[:rng.randint(0, 23)]
        report("record %d" % n,
               record_outcome(FileEntryConstruct, record),
               record_outcome(OriginalFileEntryConstruct, record))

    # every type byte and the interesting starts, valid name
    name = char_ascii_to_akai("SAMPLE 1".ljust(12))
    for file_type in range(256):
        for start in (0, 1, 3, 5, 8):
            record = name + bytes(4) + bytes([file_type]) + (150).to_bytes(3, "little")
            record += struct.pack("<H", start) + bytes(2)
            report("type %d start %d" % (file_type, start),
                   record_outcome(FileEntryConstruct, record),
                   record_outcome(OriginalFileEntryConstruct, record))

    for n in range(1500):
        table = make_table(rng)
        report("table %d" % n,
               table_outcome(FileEntryConstruct, table),
               table_outcome(OriginalFileEntryConstruct, table))

    print("checked", checked, "failures", failures)
    return 1 if failures else 0


if __name__ == "__main__":
    sys.exit(main())
