"""Equivalence demo for the name-based stereo pairing in smpl_extract/structural.py
(Image._STEREO_FILENAME, Image.combine_stereo_routine, Image._add_count_to_name).

Everything is compared against an inline copy of the ORIGINAL regex and the
ORIGINAL two functions:
  1. the regex itself (match / no match, groups, spans, flags, group count)
     on exhaustive short strings over a whitespace/hyphen/L/R alphabet plus
     random longer strings (unicode spaces, newlines, dashes included);
  2. _add_count_to_name (results and exceptions);
  3. combine_stereo_routine on multisets of sibling names in every order:
     result list (identity of untouched samples, streams/channels/name of the
     merged ones), order of export_name reads, order and arguments of the
     combine_stereo calls, exceptions, inputs left unmodified;
  4. an export to disk through ExportManager (files and bytes written).

Exit 0 when everything agrees, 1 otherwise.
"""
import io
import itertools
import os
import random
import re
import shutil
import struct
import sys
import tempfile
from contextlib import redirect_stdout
from typing import cast

import smpl_extract.structural as structural
from smpl_extract.data_streams import DataStream
from smpl_extract.data_streams import Endianess
from smpl_extract.data_streams import StreamEncoding
from smpl_extract.generalized.sample import ChannelConfig
from smpl_extract.generalized.sample import combine_stereo as real_combine_stereo
from smpl_extract.generalized.sample import Sample
from smpl_extract.structural import ExportManager
from smpl_extract.structural import Image


failures = []


def check(cond, *what):
    if not cond:
        failures.append(what)
        if len(failures) <= 8:
            print("MISMATCH", *what)


# --------------------------------------------------------------------------
# ORIGINAL implementation (verbatim copies)
# --------------------------------------------------------------------------
EVENTS = []


def combine_stereo(left, right, new_name=None):
    """logging wrapper used by BOTH implementations (patched into structural)"""
    EVENTS.append(("combine", id(left), id(right), new_name))
    if new_name == "BOOM":
        raise RuntimeError("combine failed")
    return real_combine_stereo(left, right, new_name)


structural.combine_stereo = combine_stereo


class OriginalImage(Image):

    def combine_stereo_routine(self, samples):
        sample_dict = {s.export_name: s for s in samples}
        marked = {n: False for n in sample_dict}
        result = []
        for sample in samples:

            result_sample = sample
            name = sample.export_name
            if marked[name]:
                continue

            match = self._STEREO_FILENAME.match(name)
            if match:
                alternate_ending = "R" if match.group(3) == "L" else "L"
                alternate_name = "".join((
                    match.group(1),
                    match.group(2),
                    alternate_ending
                ))
                if alternate_name in sample_dict.keys():
                    alternate_sample = sample_dict[alternate_name]
                    alternate_sample = cast(Sample, alternate_sample)
                    if alternate_ending == "R":
                        pairs = [sample, alternate_sample]
                    else:
                        pairs = [alternate_sample, sample]

                    new_name = match.group(1)
                    result_sample = combine_stereo(pairs[0], pairs[1], new_name)
                    marked[alternate_name] = True

            result.append(result_sample)
            marked[name] = True

        return result

    _STEREO_FILENAME = re.compile(r"(.*?)([\s-]+)(L|R)\s*$")
    def _add_count_to_name(self, name: str, count: int) -> str:
        count_str = "(" + str(count) + ")"
        delim = " "
        tokens = [name, count_str]
        match = self._STEREO_FILENAME.match(name)
        if match:
            tokens = [
                match.group(1),
                count_str,
                match.group(3)
            ]
        new_name = delim.join(tokens)
        return new_name


NEW = Image(lambda ctx: [])
OLD = OriginalImage(lambda ctx: [])


# --------------------------------------------------------------------------
# 1. the regex
# --------------------------------------------------------------------------
def describe_match(m):
    if m is None:
        return None
    return (m.groups(), m.span(0), m.span(1), m.span(2), m.span(3),
            m.lastindex, m.groupdict())


def regex_strings():
    alphabet = ["A", "L", "R", "-", " ", "\t", "\n", "l"]
    for n in range(0, 6):
        for combo in itertools.product(alphabet, repeat=n):
            yield "".join(combo)
    rng = random.Random(25)
    wide = ["A", "b", "L", "R", "l", "r", "-", " ", "\t", "\n", "\r", "\v",
            "\f", "\x1c", "\x1f", "\x85", "\xa0", " ", " ", "　",
            "–", "−", "_", ".", "#", "1", "(", ")", "\\", "|", "[",
            "]", "Ｌ", "\u0000"]
    for _ in range(4000):
        k = rng.randint(0, 14)
        yield "".join(rng.choice(wide) for _ in range(k))
    for stem in ["PIANO", "PIANO L", "A-L", "", "-", " ", "STR  ", "L", "R"]:
        for sep in ["-", " ", " -", "- ", "--", "   ", "\t", "", "\n", "\xa0"]:
            for end in ["L", "R", "L ", "R  ", "L\n", "R\n\n", "l", "LR", "RL",
                        "L-", "", "L|R", "|", "(L|R)"]:
                yield stem + sep + end


def test_regex():
    new_re = Image._STEREO_FILENAME
    old_re = OriginalImage._STEREO_FILENAME
    check(new_re.groups == old_re.groups == 3, "group count", new_re.groups)
    check(new_re.flags == old_re.flags, "flags", new_re.flags, old_re.flags)
    check(new_re.groupindex == old_re.groupindex, "groupindex")
    n = 0
    matched = 0
    for s in regex_strings():
        n += 1
        a = describe_match(new_re.match(s))
        b = describe_match(old_re.match(s))
        matched += b is not None
        check(a == b, "regex", repr(s), a, b)
        # the users only call .match, but search/fullmatch must agree too
        check(describe_match(new_re.search(s)) == describe_match(old_re.search(s)),
              "regex search", repr(s))
        check(describe_match(new_re.fullmatch(s)) == describe_match(old_re.fullmatch(s)),
              "regex fullmatch", repr(s))
    for bad in (None, b"A-L", 5, ["A-L"]):
        outs = []
        for r in (new_re, old_re):
            try:
                outs.append(("ok", describe_match(r.match(bad))))
            except Exception as e:
                outs.append(("exc", type(e).__name__, str(e)))
        check(outs[0] == outs[1], "regex bad input", repr(bad), outs)
    return n, matched


# --------------------------------------------------------------------------
# 2. _add_count_to_name
# --------------------------------------------------------------------------
def outcome(fn, *args):
    try:
        return ("ok", fn(*args))
    except Exception as e:
        return ("exc", type(e).__name__, str(e))


def test_add_count():
    n = 0
    rng = random.Random(26)
    for s in regex_strings():
        if rng.random() > 0.25:
            continue
        for count in (2, 10, 0, -1, "x", None):
            n += 1
            a = outcome(NEW._add_count_to_name, s, count)
            b = outcome(OLD._add_count_to_name, s, count)
            check(a == b, "_add_count_to_name", repr(s), count, a, b)
    for bad in (None, b"A-L", 5):
        a = outcome(NEW._add_count_to_name, bad, 2)
        b = outcome(OLD._add_count_to_name, bad, 2)
        check(a == b and a[0] == "exc", "_add_count_to_name bad", repr(bad), a, b)
    check(NEW._add_count_to_name("PAD -L", 3) == "PAD (3) L", "fixed value 1")
    check(NEW._add_count_to_name("PAD", 3) == "PAD (3)", "fixed value 2")
    check(NEW._add_count_to_name("PAD-l", 3) == "PAD-l (3)", "fixed value 3")
    return n


# --------------------------------------------------------------------------
# 3. combine_stereo_routine
# --------------------------------------------------------------------------
class Marker:
    """stands for a DataStream; identity is what matters"""
    def __init__(self, tag):
        self.tag = tag


class LoggedSample(Sample):
    """Sample whose export_name reads are logged (order of reads is compared)"""
    @property
    def export_name(self):
        EVENTS.append(("read", self.tag))
        return Sample.export_name.fget(self)


def make_samples(names, use_export_name):
    samples = []
    for i, n in enumerate(names):
        s = LoggedSample(name=n if not use_export_name else "raw%d" % i,
                         data_streams=[Marker((i, n))], _path=["img", "x"])
        s.tag = i
        if use_export_name:
            s._export_name = n
        samples.append(s)
    return samples


def snapshot(samples):
    return [(s.name, s._export_name, tuple(id(d) for d in s.data_streams),
             s.num_channels, int(s.channel_config)) for s in samples]


def run_routine(image, names, use_export_name):
    inputs = make_samples(names, use_export_name)
    before = snapshot(inputs)
    index_of = {id(s): i for i, s in enumerate(inputs)}
    del EVENTS[:]
    try:
        res = image.combine_stereo_routine(inputs)
        desc = []
        for r in res:
            desc.append((
                index_of.get(id(r)),
                type(r).__name__,
                r.name,
                r._export_name,
                tuple(d.tag for d in r.data_streams),
                r.num_channels,
                int(r.channel_config),
                tuple(r._path),
            ))
        out = ("ok", type(res).__name__, desc)
    except Exception as e:
        out = ("exc", type(e).__name__, str(e))
    events = []
    for ev in EVENTS:
        if ev[0] == "combine":
            events.append(("combine", index_of.get(ev[1]), index_of.get(ev[2]), ev[3]))
        else:
            events.append(ev)
    return out, events, before == snapshot(inputs)


def name_cases():
    small = ["A-L", "A-R", "A L", "A R", "A", "A-L-L", "A-L-R", "A--L", "A--R",
             "L", "-L", "-R", "A-L ", "BOOM-L", "BOOM-R"]
    for n in (0, 1, 2, 3):
        for combo in itertools.product(small, repeat=n):
            yield list(combo)
    stems = ["A", "A-", "A -", "PIANO", "PIANO L", "L", "R", "", "-", "B  ",
             "A-L", "BOOM"]
    seps = ["-", " ", " -", "- ", "--", "  ", "\t", "", "\n", "\xa0"]
    ends = ["L", "R", "L ", "R  ", "l", "r", "M", "LR", "RL", "", "L\n"]
    vocab = sorted({st + sp + en for st in stems for sp in seps for en in ends})
    vocab += ["L-R", "R-L", "A-L-R", "A-R-L", "A|R", "A-(L|R)"]
    rng = random.Random(5)
    for _ in range(2500):
        k = rng.randint(0, 9)
        names = [rng.choice(vocab) for _ in range(k)]
        if names and rng.random() < 0.6:
            base = rng.choice(stems) or "Z"
            sp = rng.choice(seps[:7])
            names += [base + sp + "L", base + sp + "R"]
            if rng.random() < 0.3:
                names.append(base)
            if rng.random() < 0.3:
                names.append(base + sp + "L")
        rng.shuffle(names)
        yield names
    # names that are not str: the regex raises TypeError
    yield ["A-L", None, "A-R"]
    yield ["A-L", b"A-R"]
    yield [b"A-L", b"A-R"]
    yield [5, "A-R", "A-L"]


def test_routine():
    n = 0
    pairs = 0
    for names in name_cases():
        for use_export_name in (True, False):
            n += 1
            a = run_routine(NEW, names, use_export_name)
            b = run_routine(OLD, names, use_export_name)
            pairs += sum(1 for ev in b[1] if ev[0] == "combine")
            check(a == b, "routine", names, use_export_name, a, b)
            check(b[2], "inputs modified", names)
    out, events, _ = run_routine(NEW, ["X-R", "Y", "X-L", "Y -L"], True)
    check(out == ("ok", "list", [
        (None, "Sample", "raw2", "X", ((2, "X-L"), (0, "X-R")), 2,
         int(ChannelConfig.STEREO_SPLIT_STREAMS), ("img", "x")),
        (1, "LoggedSample", "raw1", "Y", ((1, "Y"),), 1,
         int(ChannelConfig.MONO), ("img", "x")),
        (3, "LoggedSample", "raw3", "Y -L", ((3, "Y -L"),), 1,
         int(ChannelConfig.MONO), ("img", "x")),
    ]), "fixed routine value", out)
    check(events == [("read", 0), ("read", 1), ("read", 2), ("read", 3),
                     ("read", 0), ("combine", 2, 0, "X"), ("read", 1),
                     ("read", 2), ("read", 3)], "fixed event order", events)
    return n, pairs


# --------------------------------------------------------------------------
# 4. export to disk
# --------------------------------------------------------------------------
def pcm_sample(name, seed, frames):
    rng = random.Random(seed)
    data = struct.pack("<%dh" % frames, *[rng.randint(-32768, 32767) for _ in range(frames)])
    encoding = StreamEncoding(endianess=Endianess.LITTLE, sample_width=2,
                              num_interleaved_channels=1)
    return Sample(name=name, sample_rate=22050,
                  data_streams=[DataStream(stream=io.BytesIO(data), encoding=encoding)],
                  _path=["img", "VOL", name], _export_name=name)


def export_names(image, names):
    out_dir = tempfile.mkdtemp(prefix="r25_demo_")
    console = io.StringIO()
    try:
        manager = ExportManager(out_dir, {"combine_stereo": image.combine_stereo_routine})
        for i, name in enumerate(names):
            manager.add_sample(pcm_sample(name, i, 64))
        try:
            with redirect_stdout(console):
                manager.export_samples()
            status = "ok"
        except Exception as e:
            status = ("exc", type(e).__name__, str(e))
        files = {}
        for root, _, fnames in os.walk(out_dir):
            for f in fnames:
                p = os.path.join(root, f)
                with open(p, "rb") as fh:
                    files[os.path.relpath(p, out_dir)] = fh.read()
        return status, files, console.getvalue()
    finally:
        shutil.rmtree(out_dir, ignore_errors=True)


def test_export():
    sets = [
        ["PAD-L", "PAD-R", "PAD", "STR L", "STR R", "BASS -L", "BASS - R", "KICK"],
        ["PAD-R", "KICK", "PAD-L", "PAD -L", "PAD  -R", "PAD -R", "L", "R"],
        ["A-L-L", "A-L-R", "A-L", "A-R", "A L", "X\tL", "X\tR"],
        ["SOLO L", "SOLO l", "SOLO-r", "DUO--L", "DUO--R", "DUO-L"],
    ]
    n = 0
    for names in sets:
        for order in (names, list(reversed(names))):
            n += 1
            a = export_names(NEW, order)
            b = export_names(OLD, order)
            check(a == b, "export", order, a[0], b[0], sorted(a[1]), sorted(b[1]))
            check(a[0] == "ok" and len(a[1]) > 0, "export status", order, a[0])
    status, files, console = export_names(NEW, ["PAD-R", "KICK", "PAD-L"])
    check(sorted(files) == ["KICK.wav", "PAD.wav"], "fixed export", sorted(files))
    return n


def main():
    n_regex, n_matched = test_regex()
    n_count = test_add_count()
    n_routine, n_pairs = test_routine()
    n_export = test_export()
    print("regex strings: %d (%d matching), _add_count_to_name calls: %d, "
          "routine runs: %d (%d merges), exports: %d, mismatches: %d"
          % (n_regex, n_matched, n_count, n_routine, n_pairs, n_export, len(failures)))
    return 1 if failures else 0


if __name__ == "__main__":
    sys.exit(main())
