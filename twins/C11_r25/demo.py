"""Equivalence demo for make_transcoder (smpl_extract/transcoder.py).

make_transcoder validates the channel count of the source streams, rewinds
every source stream (in the order given), computes the block sizes and then
returns either a PassthroughTranscoder (one source that already has the target
format) or a PipelineTranscoder.

The live function is compared with a verbatim copy of the ORIGINAL one:

 1. values: random and systematic lists of 0-4 sources (8/16/32 bit, signed /
    unsigned, little / big endian, 0-4 interleaved channels, odd stream
    lengths, non-zero start positions) against many target encodings: class
    of the result, which source / list it holds, buffer size, names of the
    pipeline steps, every block it yields until exhaustion, final stream
    positions - or the exception type and text; also junk arguments;
 2. order of effects: recording stand-ins (list, data stream, encoding, raw
    stream) log every len / iteration / indexing of the list, every access to
    .encoding / .stream / .frame_size, every attribute of the encodings,
    every == and every seek / read with its arguments; the logs of both
    implementations must be identical, also when a seek or an attribute
    raises in the middle;
 3. sources that are windows, nested windows and fragmented sector files over
    ONE traced handle: two exports are created and drained with their calls
    interleaved (exhaustive for 3+3 steps, random beyond, a re-creation of a
    transcoder in the middle included); yielded blocks and the complete
    seek/tell/read trace of the handle must match the original, the blocks
    must match an isolated run and an independent oracle.
Exit 0 when everything agrees, 1 otherwise.
"""
import io
import itertools
import random
import sys
from io import SEEK_SET
from typing import Callable
from typing import List
from typing import Tuple

import numpy as np

from smpl_extract.data_streams import DataStream
from smpl_extract.data_streams import Endianess
from smpl_extract.data_streams import IncompatibleNumberOfChannels
from smpl_extract.data_streams import NoDataStream
from smpl_extract.data_streams import StreamEncoding
from smpl_extract.data_streams import system_byte_order
from smpl_extract.transcoder import PassthroughTranscoder
from smpl_extract.transcoder import PipelineTranscoder
from smpl_extract.transcoder import TranscodePipelineStruct
from smpl_extract.transcoder import decode_frame
from smpl_extract.transcoder import encode_frame
from smpl_extract.transcoder import get_buffer_sizes
from smpl_extract.transcoder import make_transcoder
from smpl_extract.transcoder import swap_endianess
from smpl_extract.transcoder import swap_endianess_multi
from smpl_extract.util.fat import FileStream
from smpl_extract.util.stream import StreamOffset
from smpl_extract.util.stream import StreamWrapper


def orig_make_transcoder(
        data_streams: List[DataStream],
        dest_encoding: StreamEncoding
    ):

    # check for bad args
    if len(data_streams) <= 0:
        raise NoDataStream("No data streams given")

    total_num_channels = 0
    for data_stream in data_streams:
        num_channels = max(1, data_stream.encoding.num_interleaved_channels)
        total_num_channels += num_channels
    expected_num_channels = dest_encoding.num_interleaved_channels
    if total_num_channels != expected_num_channels:
        raise IncompatibleNumberOfChannels(
            f"Expected {expected_num_channels} fourd {total_num_channels}."
        )

    # begin
    for data_stream in data_streams:
        data_stream.stream.seek(0, SEEK_SET)
    buffer_sizes = get_buffer_sizes(data_streams)

    if len(data_streams) == 1 \
            and data_streams[0].encoding == dest_encoding:
        result = PassthroughTranscoder(
            data_streams[0],
            buffer_size=buffer_sizes[0]
        )
        return result

    processes: List[Tuple[
        str,
        Callable[[List[np.ndarray]], List[np.ndarray]]
    ]]
    processes = []

    # is byteswap needed at input?
    swaps = list(
        x.encoding.endianess != system_byte_order
        for x in data_streams
        for _ in range(max(1, x.encoding.num_interleaved_channels))
    )
    if any(swaps):
        if all(swaps):
            processes.append(("swap_input_endianess", swap_endianess))
        else:
            processes.append((
                "swap_input_endianess_multi",
                lambda x: swap_endianess_multi(x, swaps)
            ))

    # is byte swap needed at output?
    if dest_encoding.endianess != system_byte_order:
        processes.append(("swap_output_endianess", swap_endianess))

    dest_dtype = dest_encoding.dtype

    f_decode_frame = lambda x: decode_frame(x, buffer_sizes=buffer_sizes)
    f_encode_frame = lambda x: encode_frame(x, dest_dtype=dest_dtype)
    pipeline = TranscodePipelineStruct(
        f_decode_frame,
        processes,
        f_encode_frame
    )

    result = PipelineTranscoder(data_streams, pipeline)
    return result


IMPLEMENTATIONS = (make_transcoder, orig_make_transcoder)
FAILURES = []
MAX_BLOCKS = 2000


def check(condition, label):
    if not condition:
        FAILURES.append(label)
        if len(FAILURES) <= 20:
            print("MISMATCH:", label)


def make_data(n, seed):
    return random.Random(seed).randbytes(n)


def drain(transcoder, limit=MAX_BLOCKS):
    blocks = []
    try:
        for block in transcoder:
            blocks.append(bytes(block))
            if len(blocks) >= limit:
                blocks.append("LIMIT")
                break
    except Exception as e:  # noqa - every exception is part of the behaviour
        blocks.append(("exc", type(e).__name__, str(e)))
    return blocks


def describe(transcoder, data_streams):
    """Everything a caller can see of the returned object."""
    if type(transcoder) is PassthroughTranscoder:
        holder = [i for i, x in enumerate(data_streams) if x is transcoder.data_stream]
        head = ("passthrough", holder, transcoder.buffer_size)
    elif type(transcoder) is PipelineTranscoder:
        head = (
            "pipeline",
            transcoder.data_streams is data_streams,
            type(transcoder.pipeline).__name__,
            [name for name, _ in transcoder.pipeline.processes],
            [f is swap_endianess for _, f in transcoder.pipeline.processes],
        )
    else:
        head = ("other", type(transcoder).__name__)
    return head


def outcome(f, data_streams, dest_encoding, run=True):
    try:
        transcoder = f(data_streams, dest_encoding)
    except Exception as e:  # noqa
        return ("exc", type(e).__name__, str(e))
    head = describe(transcoder, data_streams)
    if not run:
        return ("ok", head)
    try:
        first = next(iter(transcoder), None)
    except Exception as e:  # noqa
        first = ("exc", type(e).__name__, str(e))
    # a second transcoder over the same sources rewinds them again
    again = f(data_streams, dest_encoding)
    return ("ok", head, first, describe(again, data_streams), drain(again), drain(transcoder))


# ---------------------------------------------------------------- part 1
def all_encodings():
    result = []
    for endianess in (Endianess.LITTLE, Endianess.BIG):
        for width in (1, 2, 3, 4):
            for channels in (0, 1, 2, 3, 4):
                for signed in (True, False):
                    result.append(StreamEncoding(endianess, width, channels, signed))
    return result


def positions(data_streams):
    return [x.stream.tell() for x in data_streams]


def part_values():
    count = 0
    encodings = all_encodings()
    rng = random.Random(25)

    def build(spec):
        return [
            DataStream(io.BytesIO(make_data(n, 100 + i)), e)
            for i, (e, n, _) in enumerate(spec)
        ]

    def compare(spec, dest, label):
        results = []
        for f in IMPLEMENTATIONS:
            data_streams = build(spec)
            for x, (_, _, start) in zip(data_streams, spec):
                x.stream.seek(start)
            got = outcome(f, data_streams, dest)
            results.append((got, positions(data_streams)))
        check(results[0] == results[1], label)

    # one source against every target: passthrough or pipeline
    lengths = (0, 1, 7, 96, 4096 + 10, 9000)
    for k, source in enumerate(encodings):
        for dest in encodings:
            n = lengths[(k + count) % len(lengths)]
            compare([(source, n, (count * 7) % 13)], dest, f"single {source} -> {dest} n={n}")
            count += 1

    # several sources
    for _ in range(600):
        k = rng.randrange(0, 5)
        spec = [
            (rng.choice(encodings), rng.choice((0, 5, 96, 1000, 5000)), rng.randrange(0, 20))
            for _ in range(k)
        ]
        total = sum(max(1, e.num_interleaved_channels) for e, _, _ in spec)
        dest = rng.choice(encodings)
        if rng.random() < 0.7:
            dest = StreamEncoding(dest.endianess, dest.sample_width, total, dest.is_signed)
        compare(spec, dest, f"multi {spec} -> {dest}")
        count += 1

    # junk arguments
    mono = StreamEncoding(Endianess.LITTLE, 2, 1, True)
    junk_cases = [
        (None, mono), ((), mono), ([], None), ([None], mono), ([object()], mono),
        (5, mono), ("ab", mono), ({}, mono), ([DataStream(io.BytesIO(b"1234"), mono)], None),
        ([DataStream(io.BytesIO(b"1234"), mono)], 1),
        ([DataStream(None, mono)], mono),  # type: ignore
        ((DataStream(io.BytesIO(b"123456"), mono),), mono),
        ([DataStream(io.BytesIO(b"123456"), mono)] * 2, StreamEncoding(Endianess.LITTLE, 2, 2, True)),
    ]
    for data_streams, dest in junk_cases:
        results = [outcome(f, data_streams, dest) for f in IMPLEMENTATIONS]
        check(results[0] == results[1], f"junk {data_streams!r} {dest!r}")
        count += 1
    return count


# ---------------------------------------------------------------- part 2
class Boom(Exception):
    pass


class RecordingEncoding:
    def __init__(self, log, name, encoding, fail=None):
        self._log, self._name, self._encoding, self._fail = log, name, encoding, fail

    def _get(self, attribute):
        self._log.append((self._name, attribute))
        if self._fail == attribute:
            raise Boom(f"{self._name}.{attribute}")
        return getattr(self._encoding, attribute)

    num_interleaved_channels = property(lambda self: self._get("num_interleaved_channels"))
    endianess = property(lambda self: self._get("endianess"))
    dtype = property(lambda self: self._get("dtype"))
    sample_width = property(lambda self: self._get("sample_width"))
    is_signed = property(lambda self: self._get("is_signed"))
    is_interleaved = property(lambda self: self._get("is_interleaved"))

    def __eq__(self, other):
        self._log.append((self._name, "==", getattr(other, "_name", type(other).__name__)))
        if self._fail == "==":
            raise Boom(f"{self._name} ==")
        return self._encoding == getattr(other, "_encoding", other)

    __hash__ = None  # type: ignore


class RecordingRaw:
    def __init__(self, log, name, data, fail_seek=False):
        self._log, self._name, self._raw, self._fail_seek = log, name, io.BytesIO(data), fail_seek

    def seek(self, *args, **kwargs):
        self._log.append((self._name, "seek", args, kwargs))
        if self._fail_seek:
            raise OSError(f"{self._name} cannot seek")
        return self._raw.seek(*args, **kwargs)

    def read(self, *args, **kwargs):
        self._log.append((self._name, "read", args, kwargs))
        return self._raw.read(*args, **kwargs)

    def tell(self):
        self._log.append((self._name, "tell"))
        return self._raw.tell()


class RecordingDataStream:
    def __init__(self, log, name, data, encoding, fail=None):
        self._log, self._name, self._fail = log, name, fail
        self._encoding = RecordingEncoding(log, name, encoding, fail)
        self._stream = RecordingRaw(log, name, data, fail == "seek")
        self._frame_size = encoding.num_interleaved_channels * encoding.sample_width

    def _get(self, attribute, value):
        self._log.append((self._name, "." + attribute))
        if self._fail == "." + attribute:
            raise Boom(f"{self._name}.{attribute}")
        return value

    encoding = property(lambda self: self._get("encoding", self._encoding))
    stream = property(lambda self: self._get("stream", self._stream))
    frame_size = property(lambda self: self._get("frame_size", self._frame_size))


class RecordingList(list):
    def __init__(self, log, items):
        super().__init__(items)
        self._log = log

    def __len__(self):
        self._log.append(("list", "len"))
        return super().__len__()

    def __iter__(self):
        self._log.append(("list", "iter"))
        return super().__iter__()

    def __getitem__(self, index):
        self._log.append(("list", "getitem", index))
        return super().__getitem__(index)


FAIL_KINDS = (
    None, None, None, None, "seek", "num_interleaved_channels", "endianess",
    ".encoding", ".stream", ".frame_size", "==",
)


def part_order():
    count = 0
    rng = random.Random(2525)
    encodings = [
        StreamEncoding(Endianess.LITTLE, 2, 1, True),
        StreamEncoding(Endianess.BIG, 2, 1, True),
        StreamEncoding(Endianess.LITTLE, 2, 2, True),
        StreamEncoding(Endianess.LITTLE, 1, 0, False),
        StreamEncoding(Endianess.BIG, 4, 3, True),
    ]
    for case in range(700):
        k = rng.randrange(0, 4)
        spec = [
            (rng.choice(encodings), rng.choice((0, 10, 96, 300)), rng.choice(FAIL_KINDS))
            for _ in range(k)
        ]
        total = sum(max(1, e.num_interleaved_channels) for e, _, _ in spec)
        dest = rng.choice(encodings)
        if rng.random() < 0.75:
            dest = StreamEncoding(dest.endianess, dest.sample_width, total, dest.is_signed)
        if k == 1 and rng.random() < 0.5:
            dest = spec[0][0]
        dest_fail = rng.choice((None, None, None, "num_interleaved_channels", "endianess", "dtype"))
        results = []
        for f in IMPLEMENTATIONS:
            log = []
            data_streams = RecordingList(log, [
                RecordingDataStream(log, f"s{i}", make_data(n, i), e, fail)
                for i, (e, n, fail) in enumerate(spec)
            ])
            recorded_dest = RecordingEncoding(log, "dest", dest, dest_fail)
            try:
                transcoder = f(data_streams, recorded_dest)  # type: ignore
                got = ("ok", describe(transcoder, data_streams))
            except Exception as e:  # noqa
                got = ("exc", type(e).__name__, str(e))
            mark = len(log)
            blocks = drain(transcoder, 50) if got[0] == "ok" else None
            results.append((got, log[:mark], blocks, log[mark:]))
        check(results[0] == results[1], f"order case {case}: {spec} -> {dest} fail={dest_fail}")
        count += 1
    return count


# ---------------------------------------------------------------- part 3
class TracedBytesIO(io.BytesIO):
    def __init__(self, data):
        super().__init__(data)
        self.trace = []

    def seek(self, offset, whence=0):
        result = super().seek(offset, whence)
        self.trace.append(("seek", offset, whence, result))
        return result

    def tell(self):
        result = super().tell()
        self.trace.append(("tell", result))
        return result

    def read(self, size=-1):
        result = super().read(size)
        self.trace.append(("read", size, bytes(result)))
        return result


IMAGE = make_data(4096, 2025)
SECTOR = 64
MONO16 = StreamEncoding(Endianess.LITTLE, 2, 1, True)
MONO16BE = StreamEncoding(Endianess.BIG, 2, 1, True)
STEREO16 = StreamEncoding(Endianess.LITTLE, 2, 2, True)
PARTITION = (512, 3072)  # window shared by the sector files
LEFT_SECTORS = [3, 9, 4, 20, 5]
RIGHT_SECTORS = [30, 6, 31, 7, 8]


def sectors_bytes(sectors):
    base = PARTITION[0]
    return b"".join(IMAGE[base + s * SECTOR: base + (s + 1) * SECTOR] for s in sectors)


def build_exports(handle):
    """A = fragmented left/right sector files in one partition window, joined
    to stereo; B = a nested mono window copied as is (passthrough);
    C = a big-endian mono window converted to little endian."""
    partition = StreamOffset(handle, PARTITION[1], PARTITION[0])
    left = FileStream(partition, SECTOR, LEFT_SECTORS)
    right = FileStream(partition, SECTOR, RIGHT_SECTORS)
    outer = StreamOffset(handle, 1000, 3000)
    inner = StreamWrapper(StreamOffset(outer, 300, 50), 250)
    plain = StreamOffset(handle, 400, 100)
    return [
        ([DataStream(left, MONO16), DataStream(right, MONO16)], STEREO16),
        ([DataStream(inner, MONO16)], MONO16),
        ([DataStream(plain, MONO16BE)], MONO16),
    ]


def oracle(export_index):
    if export_index == 0:
        left = np.frombuffer(sectors_bytes(LEFT_SECTORS), dtype="<i2")
        right = np.frombuffer(sectors_bytes(RIGHT_SECTORS), dtype="<i2")
        return np.stack([left, right], axis=1).tobytes()
    if export_index == 1:
        return IMAGE[3050:3300]
    return np.frombuffer(IMAGE[100:500], dtype=">i2").astype("<i2").tobytes()


def run_schedule(f, schedule):
    """schedule: list of export indices; the first occurrence of an index (and
    every occurrence of -index-1) creates the transcoder, the others take one
    block from it."""
    handle = TracedBytesIO(IMAGE)
    exports = build_exports(handle)
    # exhaust part of the streams first so that the rewind matters
    exports[0][0][1].stream.read(70)
    exports[1][0][0].stream.read(33)
    handle.trace.clear()
    transcoders = {}
    output = {i: [[]] for i in range(len(exports))}
    for step in schedule:
        index = step if step >= 0 else -step - 1
        if step < 0 or index not in transcoders:
            transcoders[index] = f(*exports[index])
            if output[index][-1]:
                output[index].append([])
            continue
        try:
            output[index][-1].append(next(transcoders[index]))
        except StopIteration:
            output[index][-1].append("stop")
    heads = {i: describe(t, exports[i][0]) for i, t in transcoders.items()}
    return output, heads, handle.trace


def part_shared_handle():
    count = 0

    def compare(schedule, label):
        live = run_schedule(make_transcoder, schedule)
        orig = run_schedule(orig_make_transcoder, schedule)
        check(live == orig, f"{label}: live != original")
        for index in range(3):
            own = [s for s in schedule if s == index or s == -index - 1]
            alone = run_schedule(make_transcoder, own)[0][index]
            check(live[0][index] == alone, f"{label}: export {index} disturbed")
            for generation in live[0][index]:
                blocks = [b for b in generation if b != "stop"]
                data = b"".join(blocks)
                check(oracle(index).startswith(data), f"{label}: export {index} differs from oracle")

    # complete drains, one export after the other and round robin
    compare([0] * 12 + [1] * 5 + [2] * 5, "sequential")
    compare([0, 1, 2] * 12, "round robin")
    count += 2
    # exhaustive interleavings of create + 2 blocks for two exports
    for pair in ((0, 1), (0, 2), (1, 2)):
        for order in sorted(set(itertools.permutations([0, 0, 0, 1, 1, 1]))):
            compare([pair[i] for i in order], f"schedule {pair} {order}")
            count += 1
    # random, with re-creations in the middle
    rng = random.Random(250)
    for _ in range(300):
        schedule = []
        for index in range(3):
            schedule += [index] * rng.randrange(0, 7)
            schedule += [-index - 1] * rng.randrange(0, 2)
        rng.shuffle(schedule)
        compare(schedule, f"random schedule {schedule}")
        count += 1
    return count


def main():
    n1 = part_values()
    n2 = part_order()
    n3 = part_shared_handle()
    print(f"values: {n1}, order: {n2}, shared handle: {n3}")
    if FAILURES:
        print(f"{len(FAILURES)} mismatches")
        return 1
    print("all agree")
    return 0


if __name__ == "__main__":
    sys.exit(main())
