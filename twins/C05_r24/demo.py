"""Equivalence demo for r24: roland/s7xx/sample_file.py SampleFile.to_generalized
(the loop-mode -> getter dict literal that was rebuilt on every call now is the
module-level table _LOOP_MODE_PARAM_GETTERS looked up with the same .get(...,
_get_forward_end_params); the getter call was joined onto one line; the two
literal 1s for the mono channel count became _NUM_MONO_CHANNELS) versus an
inline copy of the ORIGINAL method.

Traversable.export_samples calls child.to_generalized() on every sample of a
Roland performance and hands the result to ExportManager.add_sample.

1. SampleFile objects with every loop mode (enum members, plain ints, bools,
   floats, unknown values, None, unhashable values) and many loop point sets
   (ordered, degenerate, inverted, zero, odd types): the generalized sample has
   the same fields, the same stream class / window / bytes, same encoding, same
   loop regions, same parent object and path - or the same exception;
2. the read order of the instance attributes is logged through a recording
   subclass: identical sequence;
3. a fake Roland tree (image -> volume -> performance -> SampleFile children
   named like L/R pairs) is exported with ExportManager + combine_stereo_routine
   into a fresh temp dir, once with SampleFile and once with the original
   method: same files, same bytes, same console output; channel counts add up
   to the number of samples and the L sample is channel 0.
Exit 0 when everything agrees, 1 otherwise.
"""
import contextlib
import io
import itertools
import os
import random
import shutil
import struct
import sys
import tempfile

from smpl_extract.data_streams import DataStream
from smpl_extract.data_streams import Endianess
from smpl_extract.data_streams import StreamEncoding
from smpl_extract.generalized.sample import ChannelConfig
from smpl_extract.generalized.sample import Sample
from smpl_extract.roland.s7xx.data_types import RolandLoopMode
from smpl_extract.roland.s7xx.sample_entry import SampleParamLoopPoint
from smpl_extract.roland.s7xx.sample_file import RolandLoopPoints
from smpl_extract.roland.s7xx.sample_file import SampleFile
from smpl_extract.roland.s7xx.sample_file import _get_alternate_params
from smpl_extract.roland.s7xx.sample_file import _get_forward_end_params
from smpl_extract.roland.s7xx.sample_file import _get_forward_oneshot_params
from smpl_extract.roland.s7xx.sample_file import _get_forward_release_params
from smpl_extract.roland.s7xx.sample_file import _get_oneshot_params
from smpl_extract.roland.s7xx.sample_file import _get_reverse_loop_params
from smpl_extract.roland.s7xx.sample_file import _get_reverse_oneshot_params
from smpl_extract.structural import ExportManager
from smpl_extract.structural import Image
from smpl_extract.structural import Traversable
from smpl_extract.util.stream import StreamWrapper


class OriginalSampleFile(SampleFile):
    # verbatim copy of the ORIGINAL method
    def to_generalized(self) -> Sample:

        points = RolandLoopPoints(
            self.start_sample.address,
            self.sustain_loop_start.address,
            self.sustain_loop_end.address,
            self.release_loop_start.address,
            self.release_loop_end.address
        )

        get_params_map = {
            RolandLoopMode.FORWARD_END:       _get_forward_end_params,
            RolandLoopMode.FORWARD_RELEASE:   _get_forward_release_params,
            RolandLoopMode.ONESHOT:           _get_oneshot_params,
            RolandLoopMode.FORWARD_ONESHOT:   _get_forward_oneshot_params,
            RolandLoopMode.ALTERNATE:         _get_alternate_params,
            RolandLoopMode.REVERSE_ONESHOT:   _get_reverse_oneshot_params,
            RolandLoopMode.REVERSE_LOOP:      _get_reverse_loop_params,
        }

        f_get_params = get_params_map.get(
            self.loop_mode,
            _get_forward_end_params
        )

        data_stream, loop_regions = f_get_params(
            self._data_stream,
            points
        )

        stream_encoding = StreamEncoding(
            endianess=Endianess.LITTLE,
            sample_width=self.bytes_per_sample,
            num_interleaved_channels=1
        )
        data_streams = [
            DataStream(stream=data_stream, encoding=stream_encoding)
        ]
        result = Sample(
            name=self.name,
            channel_config=ChannelConfig.MONO,
            sample_rate=self.sampling_frequency,
            num_channels=1,
            midi_note=self.original_key,
            pitch_offset_semi=0,
            pitch_offset_cents=0,
            loop_regions=loop_regions,
            data_streams=data_streams,
            _parent=self.parent,
            _path=self.path,
            _safe_name=self.safe_name,
            _export_name=self.export_name
        )
        return result


failures = []


def check(cond, what):
    if not cond:
        failures.append(what)
        if len(failures) <= 20:
            print("MISMATCH:", what)


def source_bytes(num_samples, seed):
    values = [((seed * 131 + i * 17) % 65536) - 32768
              for i in range(num_samples)]
    return struct.pack("<%dh" % num_samples, *values), values


def describe_stream(stream):
    info = [type(stream).__name__]
    node = stream
    while isinstance(node, StreamWrapper):
        info.append((type(node).__name__, node.end_of_file, node.position,
                     node.buffer_length, getattr(node, "offset", None),
                     getattr(node, "sample_width", None)))
        node = node.substream
    info.append(type(node).__name__)
    try:
        stream.seek(0, 0)
        content = stream.read(-1)
    except Exception as e:  # noqa
        content = ("read exc", type(e).__name__, str(e))
    return info, content


def describe_sample(sample, parent):
    streams = []
    for data_stream in sample.data_streams:
        streams.append((describe_stream(data_stream.stream),
                        data_stream.encoding, repr(data_stream.encoding),
                        data_stream.frame_size))
    return (
        type(sample).__name__, sample.name, type(sample.channel_config).__name__,
        int(sample.channel_config), sample.sample_rate,
        type(sample.num_channels).__name__, sample.num_channels,
        sample.num_audio_samples, repr(sample.midi_note),
        sample.pitch_offset_semi, sample.pitch_offset_cents,
        sample.loop_regions, repr(sample.loop_regions), streams,
        sample._parent is parent, sample._path, sample._safe_name,
        sample._export_name, sample.export_name, sample.export_path(),
    )


def outcome(cls, kwargs, parent, payload):
    try:
        element = cls(_data_stream=io.BytesIO(payload), _parent=parent,
                      **kwargs)
        if "_late_export_name" in extra_state:
            element._export_name = extra_state["_late_export_name"]
        sample = element.to_generalized()
    except Exception as e:  # noqa
        return ("exc", type(e).__name__,
                str(e).replace("OriginalSampleFile", "SampleFile"))
    return ("ok", describe_sample(sample, parent))


extra_state = {}


# --------------------------------------------------------------------------
# 1. loop modes x loop points
# --------------------------------------------------------------------------
class Unhashable:
    __hash__ = None


MODES = list(RolandLoopMode) + [0, 1, 2, 3, 4, 5, 6, 7, -1, 255, True, False,
                                2.0, 6.0, 2.5, None, "ONESHOT", "2", (2,),
                                [2], {}, Unhashable()]
POINT_SETS = [
    (0, 0, 0, 0, 0),
    (0, 10, 40, 50, 90),
    (5, 10, 40, 50, 90),
    (20, 10, 40, 50, 90),      # start after sustain start
    (50, 10, 40, 50, 90),      # start after sustain end
    (0, 40, 10, 90, 50),       # inverted loops
    (0, 0, 99, 0, 99),
    (0, 0, 150, 0, 200),       # beyond the data
    (99, 99, 99, 99, 99),
    (1, 1, 2, 2, 3),
    (0, 10, 40, 50, 4200),
    (3, 7, 2050, 2051, 4100),
]
ODD_POINT_SETS = [
    (0, 10, None, 50, 90),
    (None, 10, 40, 50, 90),
    (0, "10", 40, 50, 90),
    (0.0, 10, 40, 50, 90),
    (0, 10, 40.5, 50, 90),
    (0, 10, 40, 50, None),
    (-5, 10, 40, 50, 90),
    (True, 10, 40, 50, 90),
]
parent = Traversable(lambda context: [], None, ["VOL", "PERF"], None, "Perf")
parent.name = "PERF"
n_cases = 0
for mode, points in itertools.product(MODES, POINT_SETS + ODD_POINT_SETS):
    payload, _ = source_bytes(4300, len(repr(points)))
    kwargs = dict(
        name="PAD L",
        loop_mode=mode,
        sampling_frequency=30000,
        start_sample=SampleParamLoopPoint(0, points[0]),
        sustain_loop_start=SampleParamLoopPoint(1, points[1]),
        sustain_loop_end=SampleParamLoopPoint(2, points[2]),
        release_loop_start=SampleParamLoopPoint(3, points[3]),
        release_loop_end=SampleParamLoopPoint(4, points[4]),
        _path=["VOL", "PERF", "PAD L"],
    )
    a = outcome(SampleFile, kwargs, parent, payload)
    b = outcome(OriginalSampleFile, kwargs, parent, payload)
    check(a == b, f"mode {mode!r} points {points!r}: {a!r} != {b!r}")
    n_cases += 1

# other fields / missing pieces
rng = random.Random(2424)
for _ in range(600):
    addresses = sorted(rng.randrange(0, 4300) for _ in range(5))
    if rng.random() < 0.3:
        rng.shuffle(addresses)
    kwargs = dict(
        name=rng.choice(["PAD L", "PAD R", "", "KICK", "x" * 16]),
        loop_mode=rng.choice(MODES[:16]),
        sampling_frequency=rng.choice([48000, 44100, 24000, 22050, 30000,
                                       15000, 0, None]),
        start_sample=SampleParamLoopPoint(0, addresses[0]),
        sustain_loop_start=SampleParamLoopPoint(0, addresses[1]),
        sustain_loop_end=SampleParamLoopPoint(0, addresses[2]),
        release_loop_start=SampleParamLoopPoint(0, addresses[3]),
        release_loop_end=SampleParamLoopPoint(0, addresses[4]),
        _path=rng.choice([[], ["PAD L"], ["VOL", "PERF", "PAD L"]]),
    )
    if rng.random() < 0.3:
        extra_state["_late_export_name"] = rng.choice(["PAD L", "PAD (2) L",
                                                       "", None])
    else:
        extra_state.clear()
    the_parent = rng.choice([parent, None])
    payload, _ = source_bytes(4300, addresses[0])
    a = outcome(SampleFile, kwargs, the_parent, payload)
    b = outcome(OriginalSampleFile, kwargs, the_parent, payload)
    check(a == b, f"random {kwargs!r}: {a!r} != {b!r}")
    n_cases += 1
extra_state.clear()

for broken in ("start_sample", "sustain_loop_end", "release_loop_end",
               "loop_mode", "_data_stream", "sampling_frequency",
               "original_key"):
    results = []
    for cls in (SampleFile, OriginalSampleFile):
        element = cls(name="B", _data_stream=io.BytesIO(b"\0" * 64))
        if broken in ("start_sample", "sustain_loop_end", "release_loop_end"):
            setattr(element, broken, None)
        else:
            delattr(element, broken)
        try:
            results.append(("ok", describe_sample(element.to_generalized(),
                                                  None)))
        except Exception as e:  # noqa
            # (the message of an AttributeError names the class)
            results.append(("exc", type(e).__name__,
                            str(e).replace("OriginalSampleFile",
                                           "SampleFile")))
    check(results[0] == results[1], f"broken {broken}: {results!r}")
    n_cases += 1


# --------------------------------------------------------------------------
# 2. order of attribute reads on the element
# --------------------------------------------------------------------------
WATCHED = {"start_sample", "sustain_loop_start", "sustain_loop_end",
           "release_loop_start", "release_loop_end", "loop_mode",
           "_data_stream", "bytes_per_sample", "name", "sampling_frequency",
           "original_key", "parent", "path", "safe_name", "export_name"}


def make_logging(cls):
    class Logging(cls):
        reads = []

        def __getattribute__(self, item):
            if item in WATCHED:
                type(self).reads.append(item)
            return object.__getattribute__(self, item)
    return Logging


n_order = 0
for mode in list(RolandLoopMode) + [9]:
    logs = []
    for cls in (SampleFile, OriginalSampleFile):
        logging_cls = make_logging(cls)
        element = logging_cls(
            name="ORD", loop_mode=mode,
            sustain_loop_end=SampleParamLoopPoint(0, 20),
            release_loop_end=SampleParamLoopPoint(0, 30),
            _data_stream=io.BytesIO(b"\1\2" * 64), _path=["ORD"])
        logging_cls.reads.clear()
        element.to_generalized()
        logs.append(list(logging_cls.reads))
    check(logs[0] == logs[1], f"read order mode {mode!r}: {logs!r}")
    n_order += 1


# --------------------------------------------------------------------------
# 3. a fake Roland tree exported to disk
# --------------------------------------------------------------------------
def build_tree(cls, performances):
    """performances: list of (name, [(sample name, mode, seed, length)])"""
    def realize_performance(perf_path, specs):
        def realize(context):
            the_parent = context["_elem_parent"]
            children = []
            for sample_name, mode, seed, length in specs:
                payload, _ = source_bytes(length + 8, seed)
                children.append(cls(
                    name=sample_name,
                    loop_mode=mode,
                    sampling_frequency=44100,
                    start_sample=SampleParamLoopPoint(0, 4),
                    sustain_loop_start=SampleParamLoopPoint(0, 6),
                    sustain_loop_end=SampleParamLoopPoint(0, 4 + length - 1),
                    release_loop_start=SampleParamLoopPoint(0, 6),
                    release_loop_end=SampleParamLoopPoint(0, 4 + length - 1),
                    _data_stream=io.BytesIO(payload),
                    _parent=the_parent,
                    _path=perf_path + [sample_name],
                ))
            return children
        return realize

    def realize_volume(context):
        the_parent = context["_elem_parent"]
        routines = context["_elem_routines"]
        result = []
        for perf_name, specs in performances:
            perf_path = ["VOL", perf_name]
            performance = Traversable(
                realize_performance(perf_path, specs), routines, perf_path,
                the_parent, "Fake performance")
            performance.name = perf_name
            result.append(performance)
        return result

    def realize_image(context):
        volume = Traversable(realize_volume, context["_elem_routines"],
                             ["VOL"], context["_elem_parent"], "Fake volume")
        volume.name = "VOL"
        return [volume]

    image = Image(realize_image)
    image.name = "image"
    return image


def export_tree(cls, performances):
    out_dir = tempfile.mkdtemp(prefix="r24_demo_")
    console = io.StringIO()
    try:
        image = build_tree(cls, performances)
        image.set_routines({
            "make_safe_names": image.make_safe_names_routine,
            "make_export_names": image.make_export_names_routine
        })
        manager = ExportManager(out_dir, {
            "combine_stereo": image.combine_stereo_routine
        })
        status = "ok"
        with contextlib.redirect_stdout(console):
            try:
                image.export_samples(manager)
            except Exception as e:  # noqa
                status = ("exc", type(e).__name__,
                          str(e).replace(out_dir, "<out>"))
        files = {}
        for root, _, names in os.walk(out_dir):
            for file_name in names:
                full = os.path.join(root, file_name)
                with open(full, "rb") as f:
                    files[os.path.relpath(full, out_dir)] = f.read()
        return status, files, console.getvalue()
    finally:
        shutil.rmtree(out_dir, ignore_errors=True)


def parse_wav(data):
    pos = data.index(b"fmt ")
    channels = struct.unpack("<H", data[pos + 10:pos + 12])[0]
    dpos = data.index(b"data")
    size = struct.unpack("<I", data[dpos + 4:dpos + 8])[0]
    pcm = data[dpos + 8:dpos + 8 + size]
    return channels, struct.unpack("<%dh" % (len(pcm) // 2), pcm)


STEMS = ["PAD", "PAD 1", "KICK", "A", "L", "STR-", "PAD (2)"]
SUFFIXES = ["", " L", " R", "-L", "-R", "  L", "  R", "L", " L ", " l"]
ALL_MODES = list(RolandLoopMode)
n_trees = 0
n_summed = 0
for _ in range(60):
    performances = []
    total = 0
    for p in range(rng.randint(1, 2)):
        specs = []
        pool = [rng.choice(STEMS) for _ in range(rng.randint(1, 2))]
        for _ in range(rng.randint(0, 7)):
            specs.append((rng.choice(pool) + rng.choice(SUFFIXES),
                          rng.choice(ALL_MODES + [8]),
                          rng.randrange(1000),
                          rng.choice([1, 10, 2048, 2049, 3000])))
        total += len(specs)
        performances.append((rng.choice(["PERF", "PERF B", "P L"]) + str(p),
                             specs))
    a = export_tree(SampleFile, performances)
    b = export_tree(OriginalSampleFile, performances)
    check(a == b, f"tree {performances!r}: {a[0]!r}/{sorted(a[1])!r} != "
                  f"{b[0]!r}/{sorted(b[1])!r}")
    exported_lines = a[2].count("Exported ")
    if a[0] == "ok" and exported_lines == len(a[1]):
        # (when a merged pair's stem equals another sample's name the second
        # file overwrites the first one - known behaviour, same in both runs -
        # so the sum is only checked when every export went to its own file)
        channel_sum = sum(parse_wav(data)[0] for data in a[1].values())
        check(channel_sum == total,
              f"tree {performances!r}: {channel_sum} channels for {total}")
        n_summed += 1
    n_trees += 1

# fixed tree with known content
fixed = [("PERF", [("PAD R", RolandLoopMode.FORWARD_END, 1, 3000),
                   ("KICK", RolandLoopMode.ONESHOT, 2, 10),
                   ("PAD L", RolandLoopMode.FORWARD_END, 3, 3000)])]
status, files, console = export_tree(SampleFile, fixed)
check(status == "ok" and sorted(files) == sorted([
    os.path.join("VOL", "PERF", "PAD.wav"),
    os.path.join("VOL", "PERF", "KICK.wav")]),
    f"fixed tree: {status!r} {sorted(files)!r}")
pad = files.get(os.path.join("VOL", "PERF", "PAD.wav"))
if pad:
    channels, frames = parse_wav(pad)
    left = source_bytes(3008, 3)[1][4:3004]
    right = source_bytes(3008, 1)[1][4:3004]
    check(channels == 2 and list(frames[0::2]) == left
          and list(frames[1::2]) == right, "fixed tree PAD.wav content")
kick = files.get(os.path.join("VOL", "PERF", "KICK.wav"))
if kick:
    channels, frames = parse_wav(kick)
    check(channels == 1 and list(frames) == source_bytes(18, 2)[1][4:14],
          "fixed tree KICK.wav content")

print(f"to_generalized cases: {n_cases}, read-order cases: {n_order}, "
      f"trees: {n_trees} ({n_summed} with channel sum checked), "
      f"failures: {len(failures)}")
sys.exit(1 if failures else 0)
