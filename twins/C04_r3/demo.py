"""Equivalence demo for r3 (if/elif chain in get_smpl_chunk_data rewritten:
default pre-assignment `play_cnt = 0` turned into an explicit branch, the
compound condition negated with De Morgan and the branches reordered;
smpl_extract/generalized/wav.py).

The module's get_smpl_chunk_data is compared with an inline copy of the
ORIGINAL on a large grid of samples and loop tables: equal returned
containers, equal `smpl` chunk bytes (incl. loop count and chunk size),
equal exceptions, and - using recording proxy objects - the same sequence of
attribute reads on the sample and on every loop region.
Exit 0 = all agree, 1 = difference.
"""
import dataclasses
import itertools
import random
import sys

from smpl_extract.formats.wav import SmpteFormat
from smpl_extract.formats.wav import WavLoopContainer
from smpl_extract.formats.wav import WavLoopType
from smpl_extract.formats.wav import WavSampleChunkContainer
from smpl_extract.formats.wav import WavSampleChunkStruct
from smpl_extract.generalized import wav as G
from smpl_extract.generalized.sample import LoopRegion
from smpl_extract.generalized.sample import LoopType
from smpl_extract.generalized.sample import Sample
from smpl_extract.midi import MidiNote

get_smpl_normalized_pitch = G.get_smpl_normalized_pitch


# --------------------------------------------------------------------------
# ORIGINAL implementation (verbatim)
# --------------------------------------------------------------------------
_DEFAULT_SAMPLE_RATE = 44100
def orig_get_smpl_chunk_data(sample: Sample) -> WavSampleChunkContainer:

    sample_rate = sample.sample_rate
    if sample_rate == 0:
        sample_rate = _DEFAULT_SAMPLE_RATE

    loop_type_mapping = {
        LoopType.FORWARD:       WavLoopType.FORWARD,
        LoopType.ALTERNATING:   WavLoopType.ALTERNATING,
        LoopType.REVERSE:       WavLoopType.REVERSE
    }

    loop_headers = []
    if len(sample.loop_regions):
        for i, loop in enumerate(sample.loop_regions):
            play_cnt = 0
            if loop.play_cnt is not None:
                play_cnt = loop.play_cnt
            elif not loop.repeat_forever and loop.duration is not None:
                loop_duration = loop.duration
                loop_total_duration = (loop.end_sample - loop.start_sample)/sample_rate
                if loop_total_duration == 0:
                    continue
                play_cnt = round(loop_duration/loop_total_duration)

            loop_type = loop_type_mapping.get(
                loop.loop_type,
                WavLoopType.FORWARD
            )

            loop_headers.append(WavLoopContainer(
                cue_id=i,
                loop_type=loop_type,
                start_byte=loop.start_sample,
                end_byte=loop.end_sample,
                fraction=0,
                play_cnt=play_cnt
            ))
    sample_period_nano = (10**9)/sample_rate

    pitch_semi = sample.pitch_offset_semi or 0
    pitch_cents = sample.pitch_offset_cents or 0
    note_pitch_offset, pitch_cents_normalized = get_smpl_normalized_pitch(
        pitch_semi,
        pitch_cents
    )
    midi_note = sample.midi_note or MidiNote.from_string("C4")
    adj_note_pitch = MidiNote.from_midi_byte(
        midi_note.to_midi_byte() + note_pitch_offset
    )
    smpl_header = WavSampleChunkContainer(
        manufacturer=0,
        product=0,
        sample_period=round(sample_period_nano),
        midi_note=adj_note_pitch,
        pitch_fraction=pitch_cents_normalized,
        smpte_format=SmpteFormat.NONE,
        smpte_offset=0,
        sample_loops=loop_headers,
        sampler_data=b""
    )
    return smpl_header


# --------------------------------------------------------------------------
failures = []
checks = 0
n_ok = 0


class Spy:
    """Transparent proxy that records every attribute read."""
    def __init__(self, target, log, tag):
        object.__setattr__(self, "_t", target)
        object.__setattr__(self, "_log", log)
        object.__setattr__(self, "_tag", tag)

    def __getattr__(self, name):
        self._log.append((self._tag, name))
        return getattr(self._t, name)


def spied(sample, log):
    proxy_loops = [Spy(l, log, ("loop", i)) for i, l in enumerate(sample.loop_regions)]
    shadow = dataclasses.replace(sample, loop_regions=proxy_loops)
    return Spy(shadow, log, "sample")


def plain(x):
    if isinstance(x, MidiNote):
        return ("note", x.scale_degree, x.is_sharp, x.octave)
    if dataclasses.is_dataclass(x) and not isinstance(x, type):
        return (type(x).__name__,
                [(f.name, plain(getattr(x, f.name))) for f in dataclasses.fields(x)],
                sorted((k, repr(v)) for k, v in dict(x).items()))
    if isinstance(x, (list, tuple)):
        return [plain(v) for v in x]
    if isinstance(x, float):
        return ("float", repr(x))
    return (type(x).__name__, x)


def run(f, sample):
    log = []
    try:
        res = f(spied(sample, log))
        try:
            raw = WavSampleChunkStruct.build(res)
            size_ok = len(raw) == 36 + 24 * len(res.sample_loops)
            built = ("bytes", raw, size_ok)
        except BaseException as e:  # noqa
            built = ("build-exc", type(e).__name__, str(e))
        return ("ok", plain(res), built, log)
    except BaseException as e:  # noqa
        return ("exc", type(e).__name__, str(e), log)


def check(label, sample):
    global checks, n_ok
    checks += 1
    a = run(G.get_smpl_chunk_data, sample)
    b = run(orig_get_smpl_chunk_data, sample)
    if a[0] == "ok":
        n_ok += 1
    if a != b:
        failures.append((label, a, b))


play_cnts = [None, 0, 1, 7, 0xFFFFFFFF, -1]
forevers = [True, False]
durations = [None, 0, 0.0, 0.5, 1.0, 2.26, 1e-9, 1e9, -1.5, float("inf"), float("nan")]
spans = [(0, 0), (0, 1), (10, 10), (100, 44200), (5, 3), (0, 0xFFFFFFFF)]
loop_types = [LoopType.FORWARD, LoopType.ALTERNATING, LoopType.REVERSE, 99, None]
rates = [0, 1, 8000, 22050, 44100, 48000, 0xFFFF]

# 1. single-loop grid: every combination of the values the branches test
n = 0
for pc, fv, du, (st, en), rate in itertools.product(play_cnts, forevers, durations, spans, rates):
    lt = loop_types[n % len(loop_types)]
    n += 1
    s = Sample(name="x", sample_rate=rate, loop_regions=[
        LoopRegion(start_sample=st, end_sample=en, loop_type=lt,
                   repeat_forever=fv, play_cnt=pc, duration=du)])
    check(("grid", pc, fv, du, st, en, rate, lt), s)

# 2. loop tables of several entries (cue ids / skipped zero-length loops),
#    combined with root key and tuning values
rnd = random.Random(3)
notes = [None] + [MidiNote.from_midi_byte(b) for b in (21, 24, 59, 60, 61, 100, 127)]
for k in range(3000):
    loops = []
    for _ in range(rnd.choice([0, 1, 2, 3, 8])):
        st, en = rnd.choice(spans)
        loops.append(LoopRegion(
            start_sample=st, end_sample=en, loop_type=rnd.choice(loop_types),
            repeat_forever=rnd.choice(forevers), play_cnt=rnd.choice(play_cnts),
            duration=rnd.choice(durations)))
    s = Sample(
        name="y", sample_rate=rnd.choice(rates), loop_regions=loops,
        midi_note=rnd.choice(notes),
        pitch_offset_semi=rnd.choice([None, 0, 1, -1, 12, -50, 50, 127]),
        pitch_offset_cents=rnd.choice([None, 0, 1, -1, 49, -50, 50, 99, 127]))
    check(("table", k), s)

# 3. malformed values: truthy/falsy non-bools, wrong types, missing attributes
class Partial:
    """Loop region lacking some attributes (AttributeError order matters)."""
    def __init__(self, **kw):
        self.__dict__.update(kw)

weird_loops = [
    LoopRegion(0, 100, LoopType.FORWARD, repeat_forever=0, play_cnt=None, duration=1.0),
    LoopRegion(0, 100, LoopType.FORWARD, repeat_forever=1, play_cnt=None, duration=1.0),
    LoopRegion(0, 100, LoopType.FORWARD, repeat_forever=None, play_cnt=None, duration=1.0),
    LoopRegion(0, 100, LoopType.FORWARD, repeat_forever="", play_cnt=None, duration=2),
    LoopRegion(0, 100, LoopType.FORWARD, repeat_forever=[], play_cnt=None, duration=None),
    LoopRegion(0, 100, LoopType.FORWARD, repeat_forever=False, play_cnt=None, duration="1"),
    LoopRegion("a", 100, LoopType.FORWARD, repeat_forever=False, play_cnt=None, duration=1.0),
    LoopRegion("a", 100, LoopType.FORWARD, repeat_forever=True, play_cnt=None, duration=1.0),
    LoopRegion(0, 100, LoopType.FORWARD, repeat_forever=False, play_cnt="3", duration=1.0),
    LoopRegion(0, 100, LoopType.FORWARD, repeat_forever=False, play_cnt=2.5, duration=1.0),
    LoopRegion(0, 100, [], repeat_forever=True, play_cnt=None, duration=None),
    Partial(),
    Partial(play_cnt=None),
    Partial(play_cnt=3),
    Partial(play_cnt=None, repeat_forever=True),
    Partial(play_cnt=None, repeat_forever=False),
    Partial(play_cnt=None, repeat_forever=False, duration=None),
    Partial(play_cnt=None, repeat_forever=False, duration=1.0),
    Partial(play_cnt=None, repeat_forever=False, duration=1.0, end_sample=9),
    Partial(play_cnt=None, repeat_forever=False, duration=1.0, end_sample=9, start_sample=9),
    Partial(play_cnt=None, repeat_forever=False, duration=1.0, end_sample=9, start_sample=1),
    Partial(play_cnt=None, repeat_forever=True, loop_type=LoopType.REVERSE),
    Partial(play_cnt=None, repeat_forever=True, loop_type=LoopType.REVERSE, start_sample=1),
]
for i, wl in enumerate(weird_loops):
    for rate in (0, 44100, None, "44100", 2.5):
        good = LoopRegion(1, 2, LoopType.REVERSE, repeat_forever=False, play_cnt=None, duration=0.25)
        for j, loops in enumerate(([wl], [good, wl], [wl, good])):
            check(("weird", i, rate, j), Sample(name="z", sample_rate=rate, loop_regions=loops))

print(f"{checks} checks ({n_ok} returned a chunk), {len(failures)} differences")
for f in failures[:5]:
    print("DIFF", f)
sys.exit(1 if failures else 0)
