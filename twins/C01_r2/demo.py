"""Equivalence demo for r2: FileAllocationTable.get_path (smpl_extract/util/fat.py).

Compares the module's get_path against an inline copy of the ORIGINAL
implementation on hand-written and random link tables (terminated chains,
loops, out-of-range links, size smaller/larger than the table, size 0,
negative size, negative start sector).
Exit 0 when everything agrees, 1 otherwise.
"""
import random
import sys

from smpl_extract.util.fat import FileAllocationTable
from smpl_extract.util.fat import InvalidFatDefinition
from smpl_extract.util.fat import RequestedInvalidSector
from smpl_extract.util.fat import SectorLink


def original_get_path(self, starting_sector):
    # ---- verbatim copy of the original body ----
    path = []
    current_sector = starting_sector

    loop_cnt = 0
    while loop_cnt < self.size:
        if current_sector >= len(self.sector_links):
            raise RequestedInvalidSector

        path.append(current_sector)
        sector_link = self.sector_links[current_sector]

        if sector_link.end:
            break
        current_sector = sector_link.next
        loop_cnt += 1

    if loop_cnt >= self.size:
        raise InvalidFatDefinition("Broken FAT. Loop? Sector path exceeds size?")

    return path


def run(fn, table, start):
    try:
        return ("ok", fn(table, start))
    except BaseException as e:  # noqa
        return ("exc", type(e).__name__, str(e))


def main():
    rnd = random.Random(4242)
    cases = []

    def L(nxt, end=False):
        return SectorLink(next=nxt, end=end)

    E = SectorLink(next=0, end=True)
    hand = [
        (0, []),
        (0, None),
        (1, [E]),
        (3, [L(1), L(2), E]),
        (3, [L(1), L(2), L(0)]),          # loop, no end
        (2, [L(1), L(2), E]),             # chain longer than size
        (3, [L(2), E, L(1)]),             # head not lowest
        (5, [L(9), E, E, E, E]),          # link out of range
        (4, [L(1), L(1), E, E]),          # self loop
        (-1, [E]),
        (10, [L(1), E]),                  # size larger than table
        (1, [L(0)]),
        (2, [L(1), E]),                   # exactly size entries: last step ends
        (2, [L(1), L(0, True)]),
    ]
    for size, links in hand:
        n = len(links) if links else 0
        for start in range(-2, n + 3):
            cases.append((size, links, start))

    for _ in range(4000):
        n = rnd.randrange(0, 12)
        links = []
        for _ in range(n):
            if rnd.random() < 0.25:
                links.append(SectorLink(next=rnd.randrange(0, n + 2), end=True))
            else:
                links.append(SectorLink(next=rnd.randrange(0, n + 2), end=False))
        size = rnd.choice([n, n, n, n - 1, n + 1, 0, 1, 2, rnd.randrange(0, 15)])
        for start in range(-1, n + 2):
            cases.append((size, links, start))

    # long permutation chains (every ordering of sectors), full-size table
    for n in (50, 500, 11386):
        order = list(range(n))
        rnd.shuffle(order)
        links = [SectorLink()] * n
        for a, b in zip(order, order[1:]):
            links[a] = SectorLink(next=b, end=False)
        links[order[-1]] = SectorLink(next=0, end=True)
        for size in (n, n - 1, n + 1):
            for start in (order[0], order[1], order[-1], order[n // 2]):
                cases.append((size, links, start))

    bad = 0
    for size, links, start in cases:
        table = FileAllocationTable(object(), size, links)
        got = run(FileAllocationTable.get_path, table, start)
        exp = run(original_get_path, table, start)
        if got != exp:
            bad += 1
            if bad < 5:
                print("MISMATCH", size, links, start, got, exp)
    print(f"{len(cases)} cases, {bad} mismatches")
    return 1 if bad else 0


if __name__ == "__main__":
    sys.exit(main())
