"""Equivalence demo for r1: Image.make_export_name (merged conditions).

Compares the live implementation against an inline copy of the ORIGINAL
implementation on many names (edge cases, exhaustive short strings over a
hostile alphabet, random strings, non-string inputs).  Exit 0 on agreement.
"""
import itertools
import random
import re
import sys

from smpl_extract.structural import Image


# ---- inline copy of the ORIGINAL implementation -------------------------
_INVALID_CHARS_REMOVE = re.compile(r"[\'\"\`]+")
_INVALID_CHARS_REPLACE = re.compile(r"([^\w\-=\:.@#&+ ]+|(?<!\w)\:+)")


def orig_make_safe_name(name, is_file=True):
    del is_file
    safe_name = _INVALID_CHARS_REMOVE.sub("", name)
    safe_name = _INVALID_CHARS_REPLACE.sub(" ", safe_name)
    safe_name = safe_name.strip()
    return safe_name


_SAFE_ENDING = re.compile(r"(.+?)\s*\.?\s*$")
_INVALID_FILE_NAME = re.compile(r"[^\w\-\.# ]+")


def orig_make_export_name(name, is_file=True):
    export_name = orig_make_safe_name(name)
    export_name = _INVALID_FILE_NAME.sub(" ", name).strip()
    match = _SAFE_ENDING.match(export_name)
    if match:
        export_name = match.group(1)
    if len(export_name) <= 0:
        export_name = "0"
    match = re.match(r"\w", export_name)
    if not match:
        export_name = "0" + export_name
    if not is_file:
        if export_name[-1] in (".", "-"):
            export_name = export_name + "0"
    return export_name
# -------------------------------------------------------------------------


def outcome(f, *args, **kwargs):
    try:
        return ("ok", f(*args, **kwargs))
    except Exception as e:  # noqa: BLE001
        return ("exc", type(e).__name__, str(e))


def main():
    image = Image(lambda ctx: [])
    names = [
        "", " ", ".", "..", "...", "-", "--", "#", "(", ")", "()", "(2)",
        "a", "a.", "a .", "a. ", "a . ", "a-", "a -", "-a", ".a", "#a", " a ",
        "../..", "../../etc/passwd", "..\\..\\x", "/", "\\", "a/b", "a\\b",
        "C:", "C:\\x", "CON", "nul.", "name L", "name-L", "name -R", "L", "R",
        "STRINGS  -L", "piano (2)", "piano (2) L", "a\x00b", "a\nb", "\t",
        "\x7f", "caf\u00e9", "\u00e9", "\u3042", "\u0663", "_", "__x__",
        "'quoted'", '"dq"', "`bt`", "a:b", ":a", "a=b", "a@b", "a&b", "a+b",
        "a" * 300, "." * 50, "-" * 50, " - ", " . ", ".-", "-.", "a.-", "a-.",
        "x.wav", "x.WAV.", "\u2028", "\ufeff", "\U0001f600", "a\u0301",
    ]
    alphabet = "aZ0_ .-#()/\\'\":\x00\u00e9"
    for n in range(0, 4):
        for tup in itertools.product(alphabet, repeat=n):
            names.append("".join(tup))
    rng = random.Random(606)
    pool = alphabet + "LR\t\n*?<>|=@&+`~\u3042"
    for _ in range(20000):
        names.append("".join(rng.choice(pool) for _ in range(rng.randint(0, 14))))

    flags = [True, False, None, 0, 1, "", "x", [], [0]]
    bad = 0
    total = 0
    for name in names:
        for flag in flags:
            total += 1
            a = outcome(image.make_export_name, name, flag)
            b = outcome(orig_make_export_name, name, flag)
            if a != b:
                bad += 1
                if bad < 10:
                    print("MISMATCH", repr(name), repr(flag), a, b)
        total += 1
        if outcome(image.make_export_name, name) != outcome(orig_make_export_name, name):
            bad += 1
            print("MISMATCH default flag", repr(name))
        if outcome(image.make_safe_name, name) != outcome(orig_make_safe_name, name):
            bad += 1
            print("MISMATCH safe", repr(name))

    # non-string inputs must fail identically
    for weird in (None, 5, b"abc", 1.5, ["a"], ("a",)):
        for flag in (True, False):
            total += 1
            a = outcome(image.make_export_name, weird, flag)
            b = outcome(orig_make_export_name, weird, flag)
            if a != b:
                bad += 1
                print("MISMATCH weird", repr(weird), flag, a, b)

    print(f"r1: {total} comparisons, {bad} mismatches")
    return 1 if bad else 0


if __name__ == "__main__":
    sys.exit(main())
