"""Equivalence demo for r23: Image.make_export_name
(smpl_extract/structural.py).

The live method is compared with an inline copy of the ORIGINAL
implementation (original regular expressions included) on
  * every string of length 0..4 over an alphabet of the characters that
    matter to the patterns (word chars, '_', '-', '.', '#', ' ', tab, newline,
    '/', ':', a quote, non-ASCII letter/digit, NBSP, backslash, ']' , '^'),
  * every single code point U+0000..U+FFFF (alone and embedded),
  * 60000 random strings mixing ASCII punctuation, whitespace and Unicode,
  * is_file given as True / False / default / other truthy-falsy objects,
  * non-string names (None, bytes, int, list) - the exception type and
    message must agree,
and, end to end, through Image.make_export_names_routine on lists of
colliding element names (the `_export_name` every element ends up with).
The call of make_safe_name that the method makes first is observed too
(a subclass counts the calls and their arguments).
"""
import io
import itertools
import random
import re
import sys

from smpl_extract.akai.image import AkaiImageParser
from smpl_extract.base import ElementTypes
from smpl_extract.structural import Image


# --------------------------------------------------------------------------
# inline copy of the ORIGINAL implementation
# --------------------------------------------------------------------------
class OrigMixin:

    _SAFE_ENDING = re.compile(r"(.+?)\s*\.?\s*$")
    _INVALID_FILE_NAME = re.compile(r"[^\w\-\.# ]+")
    def make_export_name(self, name, is_file=True) -> str:
        export_name = self.make_safe_name(name)
        export_name = self._INVALID_FILE_NAME.sub(" ", name).strip()
        match = self._SAFE_ENDING.match(export_name)
        if match:
            export_name = match.group(1)
        if len(export_name) <= 0:
            export_name = "0"
        match = re.match(r"\w", export_name)
        if not match:
            export_name = "0" + export_name
        if not is_file:
            if export_name[-1] in (".", "-"):
                export_name = export_name + "0"
        return export_name


SAFE_CALLS = []


class CountingMixin:
    def make_safe_name(self, name, is_file=True):
        SAFE_CALLS.append((repr(name), repr(is_file)))
        return super().make_safe_name(name, is_file)


class LiveImage(CountingMixin, Image):
    pass


class OrigImage(CountingMixin, OrigMixin, Image):
    pass


class OrigAkai(OrigMixin, AkaiImageParser):
    pass


def call(image, *args, **kwargs):
    del SAFE_CALLS[:]
    try:
        value = image.make_export_name(*args, **kwargs)
        outcome = ("value", value, type(value).__name__)
    except Exception as e:  # noqa: BLE001 - compare whatever comes
        outcome = ("error", type(e).__name__, str(e))
    return outcome, list(SAFE_CALLS)


class Flag:
    def __init__(self, value):
        self.value = value

    def __bool__(self):
        return self.value

    def __repr__(self):
        return "Flag(%r)" % self.value


IS_FILE_VALUES = [True, False, 0, 1, None, "", "x", [], [0], Flag(True),
                  Flag(False)]


class Element:
    def __init__(self, name, type_id):
        self.name = name
        self.type_id = type_id
        self._export_name = None
        self._safe_name = None


def routine_outcome(image, spec):
    elements = [Element(n, t) for n, t in spec]
    try:
        result = image.make_export_names_routine(elements)
        same = result is elements
        return ("value", same, [e._export_name for e in elements],
                [e._safe_name for e in elements])
    except Exception as e:  # noqa: BLE001
        return ("error", type(e).__name__, str(e),
                [e._export_name for e in elements])


def main():
    live = LiveImage(lambda context: [])
    orig = OrigImage(lambda context: [])
    live_akai = AkaiImageParser(io.BytesIO(b""))
    orig_akai = OrigAkai(io.BytesIO(b""))

    failures = 0
    checked = 0

    def compare(name, flags=(True, False)):
        nonlocal failures, checked
        for flag in flags:
            a = call(live, name, flag)
            b = call(orig, name, flag)
            checked += 1
            if a != b:
                failures += 1
                if failures <= 10:
                    print("MISMATCH", repr(name), repr(flag), a, b)

    # 1. exhaustive short strings over the significant alphabet
    alphabet = ["a", "Z", "7", "_", "-", ".", "#", " ", "\t", "\n", "/", ":",
                "'", "é", "٣", " ", "\\", "]", "^"]
    for length in range(0, 5):
        for chars in itertools.product(alphabet, repeat=length):
            compare("".join(chars))

    # 2. every BMP code point, alone and embedded
    for cp in range(0x10000):
        ch = chr(cp)
        compare(ch)
        compare("ab" + ch + "-L")
        compare(ch + ".")
    for cp in (0x10000, 0x1F600, 0x10FFFF, 0x1D7D8, 0x2FA1D):
        compare(chr(cp))
        compare("x" + chr(cp) + " .")

    # 3. random strings
    rng = random.Random(2323)
    pools = [
        "abcXYZ019_",
        " \t\n\r\x0b\x0c  　",
        "-.#-.#",
        "/\\:*?\"<>|'`~!@$%^&()+={}[];,",
        "éßЖ中٣²①ẞ́​﻿",
    ]
    for _ in range(60000):
        n = rng.randrange(0, 14)
        weights = [rng.random() for _ in pools]
        s = "".join(
            rng.choice(rng.choices(pools, weights)[0]) for _ in range(n)
        )
        compare(s)

    # 4. realistic sampler names
    for s in ["STRINGS -L", "STRINGS -R", "PIANO C3 .", "...", "---", " - ",
              "A:", "VOLUME 001", "BASS#1", "BASS #1.", ". hidden", "-dash",
              "trail-", "trail.", "trail. ", "trail -", "a\x00b", "\x00",
              "name.wav", "CON", "  ", "#", "# ", "_", "_.", "x" * 300]:
        compare(s, IS_FILE_VALUES)

    # 5. default argument, keyword argument
    for s in ["dir.", "dir-", "", "."]:
        for image_pair in ((live, orig), (live_akai, orig_akai)):
            a1 = call(image_pair[0], s)
            b1 = call(image_pair[1], s)
            a2 = call(image_pair[0], s, is_file=False)
            b2 = call(image_pair[1], s, is_file=False)
            a3 = call(image_pair[0], name=s, is_file=True)
            b3 = call(image_pair[1], name=s, is_file=True)
            checked += 3
            if (a1, a2, a3) != (b1, b2, b3):
                failures += 1
                print("MISMATCH (defaults)", repr(s))

    # 6. non-string names: same exception type and message
    for bad in [None, b"bytes", b"", 5, ["a"], ("a",), 1.5, bytearray(b"x"),
                object]:
        for flag in (True, False):
            a = call(live, bad, flag)
            b = call(orig, bad, flag)
            checked += 1
            if a != b:
                failures += 1
                print("MISMATCH (bad input)", repr(bad), a, b)

    # 7. end to end through the naming routine (in-place renaming)
    name_pool = ["KICK", "KICK ", "KICK.", "kick", "SNARE -L", "SNARE -R",
                 "SNARE  -L", "", " ", ".", "-", "..", "A/B", "A\\B", "A:B",
                 "A B", "A (2)", "A", "A (3)", "dir.", "dir-", "dir"]
    types = [ElementTypes.SampleEntry, ElementTypes.ProgramEntry,
             ElementTypes.DirectoryEntry]
    for _ in range(3000):
        spec = [(rng.choice(name_pool), rng.choice(types))
                for _ in range(rng.randrange(0, 9))]
        a = routine_outcome(live, spec)
        b = routine_outcome(orig, spec)
        c = routine_outcome(live_akai, spec)
        d = routine_outcome(orig_akai, spec)
        checked += 2
        if a != b or c != d or a != c:
            failures += 1
            if failures <= 10:
                print("MISMATCH (routine)", spec, a, b, c, d)

    # 8. the class still exposes the two pattern attributes it had
    for attr in ("_SAFE_ENDING", "_INVALID_FILE_NAME", "_STEREO_FILENAME",
                 "_INVALID_CHARS_REMOVE", "_INVALID_CHARS_REPLACE"):
        if not isinstance(getattr(Image, attr, None), re.Pattern):
            failures += 1
            print("missing pattern attribute", attr)

    if failures:
        print("FAILED: %d mismatches out of %d comparisons"
              % (failures, checked))
        return 1
    print("OK: %d comparisons agree" % checked)
    return 0


if __name__ == "__main__":
    sys.exit(main())
