"""Equivalence demo for r2: CompactDiskAudioImageAdapter.from_bin_cue.

Runs the (possibly refactored) classmethod and an inline copy of the original
implementation on many cue sheets / bin lengths and compares the produced
track windows, the track PCM, and the sequence of calls made on the shared
bin stream.  Exit 0 when everything agrees, 1 otherwise.
"""
import io
import random
import sys
from io import SEEK_END
from io import SEEK_SET

from smpl_extract.cdda.image import AudioTrack
from smpl_extract.cdda.image import BYTES_PER_FRAME
from smpl_extract.cdda.image import CompactDiskAudioImage
from smpl_extract.cdda.image import CompactDiskAudioImageAdapter
from smpl_extract.cdda.image import SAMPLES_PER_FRAME
from smpl_extract.cuesheet import CueSheetFile
from smpl_extract.cuesheet import CueSheetIndex
from smpl_extract.cuesheet import CueSheetTrack
from smpl_extract.util.stream import StreamOffset


def original_from_bin_cue(bin_file_stream, cue_file):
    image = CompactDiskAudioImage()
    element_path = image.path

    bin_file_stream.seek(0, SEEK_END)
    end_of_file = bin_file_stream.tell()
    bin_file_stream.seek(0, SEEK_SET)

    audio_tracks = []
    cue_track_list = [x for x in cue_file.tracks if x.mode.lower() == "audio"]
    if len(cue_track_list):

        cue_track_iter = iter(cue_track_list)
        i = 0
        cur_cue_track = next(cue_track_iter)
        while True:
            try:
                next_cue_track = next(cue_track_iter)
            except StopIteration:
                break

            if len(cur_cue_track.indices) and len(next_cue_track.indices):
                title = cur_cue_track.title or f"Untitled Track {i+1}"

                cur_index = cur_cue_track.indices[0]
                cur_n_frames = cur_index.get_total_audio_frames()
                next_index = next_cue_track.indices[0]
                next_n_frames = next_index.get_total_audio_frames()
                total_n_frames = next_n_frames - cur_n_frames

                offset_bytes = BYTES_PER_FRAME*cur_n_frames
                size_bytes = BYTES_PER_FRAME*total_n_frames

                total_num_samples = SAMPLES_PER_FRAME*total_n_frames

                data_stream = StreamOffset(
                    bin_file_stream,
                    size_bytes,
                    offset_bytes
                )

                track_path = element_path + [title]

                audio_track = AudioTrack(
                    title=title,
                    num_audio_samples=total_num_samples,
                    _data_stream=data_stream,
                    _parent=image,
                    _path=track_path
                )
                audio_tracks.append(audio_track)

                i += 1
                cur_cue_track = next_cue_track

        if len(cur_cue_track.indices):
            title = cur_cue_track.title or f"Untitled Track {i+1}"

            cur_index = cur_cue_track.indices[0]
            cur_n_frames = cur_index.get_total_audio_frames()
            offset_bytes = BYTES_PER_FRAME*cur_n_frames
            size_bytes = end_of_file - offset_bytes

            total_n_frames = (size_bytes // BYTES_PER_FRAME)
            total_num_samples = SAMPLES_PER_FRAME*total_n_frames

            data_stream = StreamOffset(
                    bin_file_stream,
                    size_bytes,
                    offset_bytes
                )

            track_path = element_path + [title]

            audio_track = AudioTrack(
                title=title,
                num_audio_samples=total_num_samples,
                _data_stream=data_stream,
                _parent=image,
                _path=track_path
            )
            audio_tracks.append(audio_track)

    image.tracks = audio_tracks
    return image


class RecordingStream(io.BytesIO):
    """BytesIO that logs every seek/tell/read made on it."""

    def __init__(self, data):
        super().__init__(data)
        self.log = []

    def seek(self, *args):
        result = super().seek(*args)
        self.log.append(("seek", args, result))
        return result

    def tell(self):
        result = super().tell()
        self.log.append(("tell", result))
        return result

    def read(self, *args):
        result = super().read(*args)
        self.log.append(("read", args, len(result)))
        return result


class ExplodingIndex(CueSheetIndex):
    """Index whose frame computation raises, to compare error propagation."""

    def __init__(self, exc_type):
        super().__init__(1, 0, 0, 0)
        self.exc_type = exc_type

    def get_total_audio_frames(self):
        raise self.exc_type("boom")


def describe(image, stream):
    tracks = []
    for t in image.tracks:
        ds = t._data_stream
        generalized = t.to_generalized()
        tracks.append((
            type(t).__name__,
            t.title,
            t.name,
            t.num_audio_samples,
            t.num_channels,
            t.sample_rate,
            t.bytes_per_sample,
            list(t.path),
            t.parent is image,
            type(ds).__name__,
            ds.substream is stream,
            ds.offset,
            ds.end_of_file,
            ds.position,
            generalized.name,
            generalized.num_audio_samples,
        ))
    # read PCM of every track through its window, in order
    pcm = []
    for t in image.tracks:
        ds = t._data_stream
        ds.seek(0, SEEK_SET)
        chunks = []
        while True:
            chunk = ds.read(0x1000)
            if len(chunk) < 1:
                break
            chunks.append(chunk)
        pcm.append(b"".join(chunks))
    return (
        type(image).__name__,
        list(image.path),
        [c.title for c in image.children],
        tracks,
        pcm,
    )


def run(fn, data, cue):
    stream = RecordingStream(data)
    try:
        image = fn(stream, cue)
    except BaseException as e:  # noqa: BLE001
        return ("exc", type(e), str(e), list(stream.log))
    construct_log = list(stream.log)
    desc = describe(image, stream)
    return ("ok", desc, construct_log, list(stream.log))


failures = 0
checked = 0


def check(data, cue, label):
    global failures, checked
    checked += 1
    got = run(CompactDiskAudioImageAdapter.from_bin_cue, data, cue)
    want = run(original_from_bin_cue, data, cue)
    if got != want:
        failures += 1
        print("MISMATCH", label)


def msf(total):
    return total // (60*75), (total // 75) % 60, total % 75


def make_track(rng, number, start, mode="AUDIO", n_extra=0, titled=None,
               pregap=False, no_index=False):
    indices = []
    if not no_index:
        if pregap:
            indices.append(CueSheetIndex(0, *msf(start)))
            extra_start = start + rng.randrange(0, 3)
            indices.append(CueSheetIndex(1, *msf(extra_start)))
        else:
            indices.append(CueSheetIndex(1, *msf(start)))
        for k in range(n_extra):
            indices.append(CueSheetIndex(2 + k, *msf(start + 1 + k)))
    title = titled
    return CueSheetTrack(number, mode, title, indices, [])


rng = random.Random(303)

# 1. empty / degenerate sheets
for size in (0, 1, 3, 4, 2351, 2352, 2353, 5000):
    data = bytes(rng.randrange(256) for _ in range(size))
    check(data, CueSheetFile("a.bin", []), "no tracks")
    check(data, CueSheetFile("a.bin", [CueSheetTrack(1, "MODE1/2352")]),
          "only data track")
    check(data, CueSheetFile("a.bin", [CueSheetTrack(1, "AUDIO")]),
          "one track without index")
    check(data, CueSheetFile("a.bin", [
        CueSheetTrack(1, "AUDIO"), CueSheetTrack(2, "audio")
    ]), "two tracks without index")

# 2. random well-formed and ill-formed sheets
for case in range(1500):
    n_tracks = rng.randrange(1, 9)
    n_sectors = rng.randrange(0, 40)
    tail = rng.choice([0, 0, 1, 2, 3, 4, 5, 587, 588, 2348, 2351])
    data = bytes(rng.randrange(256) for _ in range(n_sectors*2352 + tail))

    style = rng.random()
    if style < 0.6:
        # strictly increasing starts inside the file
        pool = list(range(0, max(n_sectors, 1) + 1))
        starts = sorted(rng.sample(pool, min(n_tracks, len(pool))))
    elif style < 0.8:
        # arbitrary (possibly equal / decreasing / beyond EOF) starts
        starts = [rng.randrange(0, n_sectors + 10) for _ in range(n_tracks)]
    else:
        # large MSF values
        starts = sorted(rng.randrange(0, 99*60*75) for _ in range(n_tracks))

    tracks = []
    for k, start in enumerate(starts):
        mode = rng.choice(["AUDIO"]*6 + ["audio", "Audio", "MODE1/2352"])
        tracks.append(make_track(
            rng, k + 1, start,
            mode=mode,
            n_extra=rng.randrange(0, 3),
            titled=rng.choice([None, None, "", f"Song {k}", "dup"]),
            pregap=rng.random() < 0.2,
            no_index=rng.random() < 0.15,
        ))
    check(data, CueSheetFile("a.bin", tracks), f"random {case}")

# 3. every pattern of indexed / unindexed tracks up to 6 tracks
data = bytes(rng.randrange(256) for _ in range(12*2352 + 7))
for n_tracks in range(1, 7):
    for mask in range(1 << n_tracks):
        tracks = []
        for k in range(n_tracks):
            tracks.append(make_track(
                rng, k + 1, 2*k,
                titled=None if k % 2 else f"T{k}",
                no_index=bool(mask >> k & 1),
            ))
        check(data, CueSheetFile("a.bin", tracks), f"mask {n_tracks}/{mask}")

# 4. exceptions raised inside the pairwise walk propagate identically
for exc_type in (StopIteration, ValueError, KeyError, RuntimeError):
    for n_tracks in range(1, 5):
        for bad in range(n_tracks):
            tracks = [make_track(rng, k + 1, k) for k in range(n_tracks)]
            tracks[bad].indices[0] = ExplodingIndex(exc_type)
            check(data, CueSheetFile("a.bin", tracks),
                  f"explode {exc_type.__name__} {n_tracks}/{bad}")

print(f"checked {checked} cases, {failures} mismatches")
sys.exit(1 if failures else 0)
