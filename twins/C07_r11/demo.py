"""Equivalence demo for r11: StreamWrapper.seek (smpl_extract/util/stream.py),
the seek used by every sector stream (SectorStream, FileStream, Segment,
RolandFile) that is laid over a resolved allocation chain.

The module's seek is compared with an inline copy of the ORIGINAL on twin
objects of every stream class:

 * exhaustively over offset x whence x position x end_of_file on small
   numbers, including whence values outside {0, 1, 2}, negative / zero / None
   end_of_file, bool, float (-0.0, nan, inf) and ill-typed offsets;
 * returned value (with its type), position, true_size afterwards, the raised
   exception and the trace of calls made on the parent stream all have to
   agree;
 * random seek/read/tell sessions on Segment and RolandFile streams built from
   chains that add_to_sector_links + get_path produce.
"""
import io
import random
import sys
from io import SEEK_CUR
from io import SEEK_END
from io import SEEK_SET

from smpl_extract.akai.data_types import AKAI_SECTOR_SIZE
from smpl_extract.akai.sat import Segment
from smpl_extract.akai.sat import SegmentAllocationTable
from smpl_extract.roland.s7xx.data_types import ROLAND_CLUSTER_SIZE
from smpl_extract.roland.s7xx.fat import RolandFile
from smpl_extract.roland.s7xx.fat import RolandFileAllocationTable
from smpl_extract.util.fat import FileStream
from smpl_extract.util.fat import SectorLink
from smpl_extract.util.fat import add_to_sector_links
from smpl_extract.util.sector import SectorStream
from smpl_extract.util.stream import StreamOffset
from smpl_extract.util.stream import StreamReversed
from smpl_extract.util.stream import StreamWrapper


# ---------------------------------------------------------------- original
def original_seek(self, offset: int, whence: int = SEEK_CUR):
    starting_position = 0
    if whence == SEEK_CUR:
        starting_position = self.position
    elif whence == SEEK_END:
        starting_position = self.end_of_file

    new_position = starting_position + offset
    if new_position > self.end_of_file:
        new_position = self.end_of_file
    elif new_position < 0:
        new_position = 0

    self.true_size = 0
    self._seek(new_position)
    self.position = new_position
    return new_position


# ---------------------------------------------------------------- harness
class RecordingParent(io.BytesIO):
    def __init__(self, data=b""):
        super().__init__(data)
        self.trace = []

    def seek(self, *args):
        self.trace.append(("seek",) + tuple(map(repr, args)))
        return super().seek(*args)

    def read(self, *args):
        self.trace.append(("read",) + tuple(map(repr, args)))
        return super().read(*args)


def twin(base):
    class Old(base):
        seek = original_seek
    Old.__name__ = base.__name__
    Old.__qualname__ = base.__qualname__
    return Old


BASES = (StreamWrapper, StreamOffset, StreamReversed, SectorStream,
         FileStream, Segment, RolandFile)
OLD = {base: twin(base) for base in BASES}


def construct(cls, base, parent):
    if base is StreamWrapper:
        return cls(parent, 40)
    if base is StreamOffset:
        return cls(parent, 40, 7)
    if base is StreamReversed:
        return cls(parent, 40, 2)
    if base is SectorStream:
        return cls(parent, 40, 8)
    if base is FileStream:
        return cls(parent, 8, [3, 1, 4, 0, 2])
    return cls(parent, [3, 1, 4, 0, 2])


def tag(value):
    return (type(value).__name__, repr(value))


def outcome(fn):
    try:
        return ("ret", tag(fn()))
    except BaseException as exc:  # noqa
        return ("exc", type(exc).__name__, str(exc))


def state(stream):
    return (tag(stream.position), tag(stream.true_size),
            tag(stream.end_of_file), stream.substream.trace)


checked = 0
bad = 0


def compare(label, new_stream, old_stream, script):
    global checked, bad
    got = outcome(lambda: script(new_stream))
    want = outcome(lambda: script(old_stream))
    checked += 1
    if got != want or state(new_stream) != state(old_stream):
        bad += 1
        if bad <= 10:
            print("MISMATCH", label)
            print("   new:", got, state(new_stream))
            print("   old:", want, state(old_stream))


NO_WHENCE = object()


def exhaustive():
    data = bytes(range(64))
    offsets = list(range(-7, 8)) + [40, 41, -41, 10 ** 9, -10 ** 9, True,
                                    False, 1.5, -0.0, 0.0, float("nan"),
                                    float("inf"), float("-inf"), None, "3"]
    whences = [SEEK_SET, SEEK_CUR, SEEK_END, 3, -1, None, "1", 1.0, 2.0,
               True, False, NO_WHENCE]
    eofs = [-3, 0, 1, 5, 40, None, 2.5]
    positions = [-2, 0, 1, 4, 5, 6, 40, 45]
    for base in BASES:
        for eof in eofs:
            for position in positions:
                for whence in whences:
                    for offset in offsets:
                        pair = []
                        for cls in (base, OLD[base]):
                            stream = construct(cls, base,
                                               RecordingParent(data))
                            stream.end_of_file = eof
                            stream.position = position
                            stream.true_size = 6
                            pair.append(stream)
                        if whence is NO_WHENCE:
                            script = lambda s: s.seek(offset)
                        else:
                            script = lambda s: s.seek(offset, whence)
                        compare((base.__name__, eof, position,
                                 "default" if whence is NO_WHENCE else whence,
                                 offset), pair[0], pair[1], script)


def sessions(rng, base, table_cls, unit, rounds):
    for _ in range(rounds):
        n_entries = rng.randint(1, 12)
        sector_links = [SectorLink()] * n_entries
        chain = rng.sample(range(n_entries), rng.randint(1, min(n_entries, 8)))
        add_to_sector_links(chain, sector_links)
        path = table_cls(None, n_entries, sector_links).get_path(chain[0])
        assert path == chain
        data = (bytes(rng.getrandbits(8) for _ in range(251))
                * ((unit * n_entries) // 251 + 1))[:unit * n_entries]
        span = unit * len(chain)
        ops = []
        for _ in range(rng.randint(2, 10)):
            pick = rng.random()
            if pick < 0.55:
                ops.append(("seek", rng.choice(
                    (0, 1, -1, unit, -unit, span, span + 1, -span - 1,
                     rng.randint(-span - 5, span + 5))),
                    rng.choice((SEEK_SET, SEEK_CUR, SEEK_END, SEEK_CUR, 7))))
            elif pick < 0.9:
                ops.append(("read", rng.choice(
                    (0, 1, unit - 1, unit, unit + 1, rng.randint(0, span + 3),
                     None))))
            else:
                ops.append(("tell",))

        def script(stream):
            out = []
            for op in ops:
                if op[0] == "seek":
                    out.append(stream.seek(op[1], op[2]))
                elif op[0] == "read":
                    out.append(stream.read(op[1]))
                else:
                    out.append(stream.tell())
            return out

        compare((base.__name__, chain, ops),
                base(RecordingParent(data), list(path)),
                OLD[base](RecordingParent(data), list(path)), script)


def main():
    exhaustive()
    rng = random.Random(111111)
    sessions(rng, Segment, SegmentAllocationTable, AKAI_SECTOR_SIZE, 200)
    sessions(rng, RolandFile, RolandFileAllocationTable, ROLAND_CLUSTER_SIZE,
             200)
    print(f"checked {checked} cases, {bad} mismatches")
    return 1 if bad else 0


if __name__ == "__main__":
    sys.exit(main())
