"""Equivalence demo for the CdXtractRolandDeemphFilter refactoring (common.py).

The edit splits the CDXtract Roland de-emphasis preset (FirFilter with delay
offset 0, the plain 'history carried between blocks' path) into a private
base class `_KernelPresetFirFilter`, whose __init__ asks the subclass for
(kernel, delay offset), and the public class, which only names the module
constants; the delay offset that used to be FirFilter's default argument is
now the named constant `_cdxtract_roland_deemph_delay_offset = 0`.

The live class from smpl_extract.filters.common is compared against an inline
copy of the ORIGINAL class (and of the original kernel table) on: constructor
results (attributes, types, the very kernel object stored), rejected
constructor arguments, late binding of the module constant, every composition
of short signals, random splits of long / extreme-valued signals in several
dtypes, the state after every block, flush, reset (with and without a
history), reuse after flush, and awkward blocks (empty, 2-D, 0-d, lists).

Exit 0 when everything agrees, 1 otherwise.
"""
import itertools
import random
import struct
import sys
import warnings

import numpy as np

from smpl_extract.filters import common
from smpl_extract.filters.fir import FirFilter

warnings.simplefilter("ignore")


# ---- inline copy of the ORIGINAL implementation ---------------------------
def _orig_bytes_to_double(x: bytes) -> float:
    y = struct.unpack(">d", x)[0]
    return y


_orig_cdxtract_roland_deemph_h = np.asarray(
    [
        _orig_bytes_to_double(b"\x3F\x74\xC0\x29\x80\x53\x00\xA6"),
        _orig_bytes_to_double(b"\x3F\xD4\x32\xA8\x65\x50\xCA\xA2"),
        _orig_bytes_to_double(b"\x3F\xE3\x50\xE6\xA1\xCD\x43\x9B"),
        _orig_bytes_to_double(b"\x3F\xB3\x62\x26\xC4\x4D\x88\x9B"),
        0.0,
        0.0,
        0.0,
        0.0
    ],
    dtype=np.double
)


class OrigCdXtractRolandDeemphFilter(FirFilter):
    def __init__(self) -> None:
        super().__init__(_orig_cdxtract_roland_deemph_h)
# ---------------------------------------------------------------------------


New = common.CdXtractRolandDeemphFilter
Old = OrigCdXtractRolandDeemphFilter

failures = []
checks = 0


def describe(v):
    if isinstance(v, np.ndarray):
        return ("nd", str(v.dtype), v.shape, v.tobytes(), v.flags.writeable)
    if isinstance(v, (list, tuple)):
        return (type(v).__name__,) + tuple(describe(e) for e in v)
    return (type(v).__name__, repr(v))


def outcome(fn):
    try:
        return ("ok", describe(fn()))
    except BaseException as exc:  # noqa: BLE001 - compared, not swallowed
        return ("exc", type(exc).__name__, str(exc))


def check(label, a, b):
    global checks
    checks += 1
    if a != b:
        failures.append(label)
        print("MISMATCH", label, "\n  new:", str(a)[:300], "\n  old:", str(b)[:300])


def state(f):
    d = vars(f)
    return tuple((k, describe(d[k])) for k in sorted(d))


def run(cls, blocks, flush=True):
    f = cls()
    trace = [state(f)]
    for b in blocks:
        trace.append(outcome(lambda: f.process(b)))
        trace.append(state(f))
    if flush:
        trace.append(outcome(f.get_remaining))
        trace.append(state(f))
    return trace


def compositions(n):
    for mask in range(1 << (n - 1)):
        parts, start = [], 0
        for i in range(n - 1):
            if mask >> i & 1:
                parts.append((start, i + 1))
                start = i + 1
        parts.append((start, n))
        yield parts


def main():
    rng = random.Random(1921)
    nprng = np.random.default_rng(1921)

    # --- constructor -------------------------------------------------------
    check("kernel table", describe(common._cdxtract_roland_deemph_h),
          describe(_orig_cdxtract_roland_deemph_h))
    fn, fo = New(), Old()
    check("fresh state", state(fn), state(fo))
    check("attribute names", sorted(vars(fn)), ["N", "h", "m0", "m1", "x_prev"])
    check("kernel identity", fn.h is common._cdxtract_roland_deemph_h,
          fo.h is _orig_cdxtract_roland_deemph_h)
    check("delay offset", (fn.m0, type(fn.m0), fn.m1, fn.N), (0, int, 7, 8))
    check("is FirFilter", isinstance(fn, FirFilter) and issubclass(New, FirFilter), True)
    check("class name", (New.__name__, New.__qualname__, New.__module__),
          ("CdXtractRolandDeemphFilter", "CdXtractRolandDeemphFilter",
           "smpl_extract.filters.common"))
    check("two instances share the kernel, not the history",
          (New().h is New().h, New().x_prev is New().x_prev), (True, False))
    for args, kwargs in [((1,), {}), ((), {"h": 1}), ((), {"delay_offset": 0}),
                         ((None, None), {}), ((), {"x_prev": None})]:
        a = outcome(lambda: New(*args, **kwargs))
        b = outcome(lambda: Old(*args, **kwargs))
        # the message names the class-qualified __init__; compare type and arity text
        check("ctor rejects %r %r" % (args, kwargs), a[:2], b[:2])
        check("ctor rejects (is TypeError) %r %r" % (args, kwargs), a[1], "TypeError")

    # late binding of the module constant (read when an instance is built)
    saved = common._cdxtract_roland_deemph_h
    try:
        other = np.asarray([0.5, 0.25, 0.25])
        common._cdxtract_roland_deemph_h = other
        g = New()
        check("late binding", (g.h is other, g.N, g.m0, g.m1, describe(g.x_prev)),
              (True, 3, 0, 2, describe(np.zeros(2))))
    finally:
        common._cdxtract_roland_deemph_h = saved
    check("binding restored", New().h is saved, True)

    # --- every composition of short signals --------------------------------
    for n in range(1, 11):
        sig = nprng.integers(-32768, 32768, size=n).astype(np.int16)
        for parts in compositions(n):
            blocks = [sig[a:b] for a, b in parts]
            check("compositions n=%d %r" % (n, parts), run(New, blocks), run(Old, blocks))

    # --- random splits of longer signals, several dtypes -------------------
    extremes = np.asarray([32767, -32768, 32767, 32767, -32768, -32768, 0, 1, -1], dtype=np.int16)
    for trial in range(300):
        n = rng.randint(1, 400)
        kind = trial % 5
        if kind == 0:
            sig = nprng.integers(-32768, 32768, size=n).astype(np.int16)
        elif kind == 1:
            sig = extremes[nprng.integers(0, len(extremes), size=n)]
        elif kind == 2:
            sig = nprng.standard_normal(n) * 1e4
        elif kind == 3:
            sig = (nprng.standard_normal(n) * 1e3).astype(np.float32)
        else:
            sig = nprng.integers(-2**31, 2**31, size=n).astype(np.int32)
        cuts = sorted(set(rng.sample(range(1, n), min(n - 1, rng.randint(0, 12))))) if n > 1 else []
        edges = [0] + cuts + [n]
        blocks = [sig[a:b] for a, b in zip(edges, edges[1:])]
        check("random split %d" % trial, run(New, blocks), run(Old, blocks))
        check("one block %d" % trial, run(New, [sig]), run(Old, [sig]))

    # --- reset / flush / reuse --------------------------------------------
    def scenario(cls):
        f = cls()
        sig = np.arange(-20, 20, dtype=np.int16) * 1500
        t = [outcome(lambda: f.process(sig[:5])), state(f)]
        t += [outcome(lambda: f.reset_state()), state(f)]
        t += [outcome(lambda: f.process(sig[5:30])), outcome(f.get_remaining), state(f)]
        t += [outcome(lambda: f.process(sig[30:])), outcome(f.get_remaining), state(f)]
        t += [outcome(lambda: f.reset_state(x_prev=None)), state(f)]
        t += [outcome(lambda: f.reset_state(x_prev=np.asarray([3.0]))), state(f)]
        t += [outcome(lambda: f.process(sig[:9])), state(f)]
        t += [outcome(lambda: f.reset_state(x_prev=np.ones(7))), state(f)]
        t += [outcome(lambda: f.reset_state(x_prev=[1, 2, 3, 4, 5, 6, 7])), state(f)]
        t += [outcome(lambda: f.process(sig[:9])), state(f)]
        t += [outcome(lambda: f.reset_state(y_prev=1, other=2)), state(f)]
        t += [outcome(f.get_remaining), outcome(f.get_remaining), state(f)]
        return t
    check("reset/flush/reuse", scenario(New), scenario(Old))

    # --- awkward blocks ----------------------------------------------------
    awkward = [
        np.zeros(0, dtype=np.int16), np.zeros(0), np.zeros((2, 3), dtype=np.int16),
        np.asarray(5, dtype=np.int16), [1, 2, 3], None, "abc",
        np.arange(20, dtype=np.int16)[::2], np.arange(20, dtype=np.int16)[::-1],
        np.asarray([1 + 2j, 3, 4, 5, 6, 7, 8, 9, 10]), np.asarray([True, False] * 6),
        np.asarray([np.nan, np.inf, -np.inf, 1.0] * 4),
    ]
    for i, blk in enumerate(awkward):
        check("awkward %d" % i, run(New, [blk]), run(Old, [blk]))
        head = np.arange(12, dtype=np.int16)
        check("awkward after head %d" % i, run(New, [head, blk, head]), run(Old, [head, blk, head]))

    print("checks:", checks, "failures:", len(failures))
    return 1 if failures else 0


if __name__ == "__main__":
    sys.exit(main())
