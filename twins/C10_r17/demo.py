"""Equivalence demo for r17 (how field values are turned into the nested
text items that `ls` renders for a leaf: util.dataclass.process_value, called
by itemize_general for every value of LeafElement.itemize / get_info).

The function as currently in the tree is compared with an inline copy of the
ORIGINAL implementation (the original itemize_general is pasted as well, so
that the original world recurses into the original process_value only):
  * on several hundred values: str / str subclasses, ints, floats, None,
    bools, bytes, bytearray, enums, lists, tuples, dicts, sets, ranges,
    generators, nested mixes, construct Containers (with private keys),
    dataclass instances AND dataclass classes, objects with `itemize`
    (method, non-callable attribute, raising method, raising property),
    IOBase streams (BytesIO, StringIO, raw IOBase(), a real file), objects
    that are Iterable and IOBase at once, str subclasses that iterate,
    objects whose __iter__ / __str__ raise, objects with a class-level
    __iter__ = None, pseudo-random nested structures: same result (value and
    types throughout) or the same exception type and message, and the same
    sequence of hooks called on instrumented values;
  * end to end: ls_action on a synthetic Image tree whose leaves carry such
    values, on a CDDA bin/cue image (its tracks are LeafElements) and on an
    AKAI image, for found and not-found paths, with the original function
    patched into the module versus the tree's function: same stdout.
Exit 0 when all agree, else 1.
"""
from collections.abc import Iterable
import contextlib
from dataclasses import dataclass
from dataclasses import field
from dataclasses import fields
from dataclasses import is_dataclass
import enum
import io
from io import IOBase
import os
import random
import re
import shutil
import sys
import tempfile
from typing import Any

from construct.lib.containers import Container
from construct.lib.containers import ListContainer

import smpl_extract.actions as actions
from smpl_extract.akai.data_types import AKAI_PARTITION_MAGIC
from smpl_extract.akai.data_types import AKAI_SAT_ENTRY_CNT
from smpl_extract.akai.data_types import AKAI_SECTOR_SIZE
from smpl_extract.akai.data_types import AKAI_VOLUME_ENTRY_CNT
from smpl_extract.akai.data_types import FILE_TABLE_END_FLAG
from smpl_extract.base import ElementTypes
from smpl_extract.elements import LeafElement
from smpl_extract.structural import Image
from smpl_extract.structural import Traversable
import smpl_extract.util.dataclass as dc_module
from smpl_extract.util.constructs import sanitize_container


# ---- ORIGINAL implementations (verbatim, cross references renamed) --------
def orig_process_value(value):
    if hasattr(value, "itemize"):
        result = value.itemize()
    elif is_dataclass(value):
        result = orig_itemize_general(value)
    elif not isinstance(value, str) and not isinstance(value, IOBase) \
            and isinstance(value, Iterable):

        result = orig_itemize_general(value)  # type: ignore
    else:
        result = str(value)
        return result

    return result


def orig_itemize_general(self):
    if isinstance(self, Container):
        sanitized = sanitize_container(self)
        result = {
            k: orig_process_value(v) for k, v in sanitized.items()
        }
    elif isinstance(self, dict):
        result = {
            k: orig_process_value(v) for k, v in self.items()
        }
    elif is_dataclass(self):
        result = {
            k.name: orig_process_value(getattr(self, k.name))
            for k in fields(self)
        }
    else:
        result = tuple(orig_process_value(v) for v in self)
    return result


@contextlib.contextmanager
def original_world():
    saved = dc_module.process_value
    dc_module.process_value = orig_process_value
    try:
        yield
    finally:
        dc_module.process_value = saved


def new_process_value(value):
    # looked up at call time: the tree's function
    return dc_module.process_value(value)


# ---- values ----------------------------------------------------------------
LOG = []


class Boom(Exception):
    pass


class Colour(enum.IntEnum):
    RED = 1
    BLUE = 2


class Flag(enum.Enum):
    ON = "on"


class StrSub(str):
    pass


class IterStr(str):
    def __iter__(self):
        LOG.append("IterStr.__iter__")
        return iter(["x", "y"])


@dataclass
class Point:
    x: int = 1
    y: Any = "two"
    _hidden: int = 3


@dataclass
class Nested:
    label: str = "n"
    point: Point = field(default_factory=Point)
    points: Any = field(default_factory=lambda: [Point(5, [6, "7"]), Point()])
    table: Any = field(default_factory=lambda: {"k": (1, 2), "e": []})


@dataclass
class ItemizingData:
    a: int = 1

    def itemize(self):
        LOG.append("ItemizingData.itemize")
        return {"custom": "yes"}


@dataclass
class IterData:
    a: int = 1

    def __iter__(self):
        LOG.append("IterData.__iter__")
        return iter([9, 8])


class WithItemize:
    def __init__(self, result):
        self._result = result

    def itemize(self):
        LOG.append("WithItemize.itemize")
        return self._result


class ItemizeAttr:
    itemize = "not callable"


class ItemizeRaises:
    def itemize(self):
        LOG.append("ItemizeRaises.itemize")
        raise Boom("itemize failed")


class ItemizeProperty:
    """hasattr() swallows AttributeError only."""
    def __init__(self, exc):
        self._exc = exc

    @property
    def itemize(self):
        LOG.append("ItemizeProperty.get")
        raise self._exc


class ItemizeList(list):
    def itemize(self):
        LOG.append("ItemizeList.itemize")
        return ("from", "itemize")


class ItemizeStream(io.BytesIO):
    def itemize(self):
        return "stream-with-itemize"


class IterRaises:
    def __iter__(self):
        LOG.append("IterRaises.__iter__")
        raise Boom("iter failed")

    def __str__(self):
        LOG.append("IterRaises.__str__")
        return "never"


class IterNone:
    __iter__ = None

    def __str__(self):
        LOG.append("IterNone.__str__")
        return "iter-none"


class GetItemOnly:
    """Old style sequence: not an `Iterable` for isinstance."""
    def __getitem__(self, index):
        if index > 2:
            raise IndexError
        return index

    def __str__(self):
        LOG.append("GetItemOnly.__str__")
        return "getitem-only"


class StrRaises:
    def __str__(self):
        LOG.append("StrRaises.__str__")
        raise Boom("str failed")


class StrNotStr:
    def __str__(self):
        return 5


class IterableStream(IOBase):
    """IOBase is itself iterable (readline protocol)."""
    def __str__(self):
        LOG.append("IterableStream.__str__")
        return "<iterable stream>"


class RegisteredIterable:
    def __str__(self):
        return "registered"


class MetaProbe(type):
    def __instancecheck__(cls, instance):
        LOG.append("MetaProbe.__instancecheck__")
        return False


class ClassProbe:
    """Reports a different __class__."""
    @property
    def __class__(self):
        LOG.append("ClassProbe.__class__")
        return str

    def __str__(self):
        return "class-probe"


class Lying:
    """Pretends to be a list through __class__ but cannot be iterated."""
    @property
    def __class__(self):
        return list

    def __str__(self):
        return "lying"


def one_shot():
    LOG.append("generator started")
    yield 1
    yield "two"
    yield [3]


def simple_values(tmp_root):
    real_path = os.path.join(tmp_root, "real.bin")
    with open(real_path, "wb") as handle:
        handle.write(b"line1\nline2\n")

    makers = [
        lambda: "", lambda: "text", lambda: " padded ", lambda: "☃",
        lambda: StrSub("sub"), lambda: IterStr("iterstr"),
        lambda: 0, lambda: -17, lambda: 3.5, lambda: float("nan"),
        lambda: None, lambda: True, lambda: False, lambda: 1 + 2j,
        lambda: b"", lambda: b"bytes", lambda: bytearray(b"ab"),
        lambda: memoryview(b"mv"),
        lambda: Colour.RED, lambda: Flag.ON, lambda: Colour, lambda: Flag,
        lambda: [], lambda: (), lambda: {}, lambda: set(), lambda: frozenset(),
        lambda: [1, "a", None], lambda: ("x", ("y", ("z",))),
        lambda: {"a": 1, "b": [2, 3], "": {}, "_p": "kept in plain dicts"},
        lambda: {1: "int key", (2, 3): "tuple key"},
        lambda: {"only"}, lambda: frozenset([7]),
        lambda: range(0), lambda: range(3), lambda: iter([1, 2]),
        one_shot, lambda: (n * n for n in range(4)),
        lambda: map(str, [1, 2]), lambda: zip("ab", "cd"),
        lambda: {"a": 1}.keys(), lambda: {"a": 1}.values(),
        lambda: {"a": [1]}.items(),
        lambda: Container(), lambda: Container(a=1, _b=2, c=[1, 2]),
        lambda: Container(a=Container(_x=1, y="z"), _io=io.BytesIO(b"q")),
        lambda: ListContainer([1, Container(k="v")]),
        lambda: Point(), lambda: Point(y=[1, {"k": Point()}]),
        lambda: Nested(), lambda: Point, lambda: Nested,
        lambda: ItemizingData(), lambda: ItemizingData, lambda: IterData(),
        lambda: IterData,
        lambda: WithItemize("plain"), lambda: WithItemize({"a": ("b",)}),
        lambda: WithItemize(None), lambda: WithItemize(WithItemize("inner")),
        lambda: WithItemize, lambda: ItemizeAttr(), lambda: ItemizeRaises(),
        lambda: ItemizeProperty(AttributeError("hidden")),
        lambda: ItemizeProperty(Boom("property failed")),
        lambda: ItemizeProperty(KeyError("k")),
        lambda: ItemizeList([1, 2]), lambda: ItemizeStream(b"zz"),
        lambda: IterRaises(), lambda: IterNone(), lambda: GetItemOnly(),
        lambda: StrRaises(), lambda: StrNotStr(),
        lambda: io.BytesIO(b"a\nb\n"), lambda: io.StringIO("a\nb\n"),
        lambda: io.BytesIO(), lambda: IOBase(), lambda: IterableStream(),
        lambda: io.BufferedReader(io.BytesIO(b"r1\nr2")),
        lambda: open(real_path, "rb"), lambda: open(real_path, "r"),
        lambda: RegisteredIterable(), lambda: ClassProbe(), lambda: Lying(),
        lambda: MetaProbe("Probed", (), {})(),
        lambda: object(), lambda: object, lambda: len, lambda: Ellipsis,
        lambda: NotImplemented, lambda: Boom("as value"), lambda: type,
        lambda: [IterRaises()], lambda: [1, StrRaises(), 3],
        lambda: {"a": ItemizeRaises()}, lambda: (io.BytesIO(b"x"), "s", [b"y"]),
        lambda: [WithItemize("w"), Point(), Container(z=1), {"d": 1}, (2,)],
        lambda: Container(p=Point(y=Container(_h=1, v=(1, 2)))),
        lambda: [[[[[["deep"]]]]]],
    ]
    try:
        import numpy as np
        makers += [
            lambda: np.arange(4), lambda: np.zeros((2, 2)),
            lambda: np.int16(7), lambda: np.array(5), lambda: np.array([]),
        ]
    except ImportError:
        pass
    return makers


Iterable.register(RegisteredIterable)


def random_value(rng, depth=0):
    leafs = [
        lambda: rng.choice(["", "s", "longer text", "é"]),
        lambda: rng.randint(-5, 500), lambda: None, lambda: rng.random(),
        lambda: bytes(rng.randrange(256) for _ in range(rng.randint(0, 3))),
        lambda: io.BytesIO(b"io"), lambda: Colour.BLUE,
        lambda: WithItemize("leaf-itemize"), lambda: IterNone(),
    ]
    if depth > 3 or rng.random() < 0.35:
        return rng.choice(leafs)()
    kind = rng.randrange(6)
    size = rng.randint(0, 4)
    if kind == 0:
        return [random_value(rng, depth + 1) for _ in range(size)]
    if kind == 1:
        return tuple(random_value(rng, depth + 1) for _ in range(size))
    if kind == 2:
        return {
            rng.choice(["a", "b", "_c", "", "d e"]) + str(n):
                random_value(rng, depth + 1)
            for n in range(size)
        }
    if kind == 3:
        return Container(**{
            rng.choice(["a", "_b", "c"]) + str(n): random_value(rng, depth + 1)
            for n in range(size)
        })
    if kind == 4:
        return Point(rng.randint(0, 9), random_value(rng, depth + 1))
    return (random_value(rng, depth + 1) for _ in range(size))


_ADDRESS = re.compile(r" at 0x[0-9a-fA-F]+")


def no_address(text):
    """Default reprs carry the object's address, which differs between the
    two separately made (but identically built) input values."""
    return _ADDRESS.sub(" at 0x?", text)


def describe(value):
    """Value plus the exact types all the way down."""
    if isinstance(value, dict):
        return ("dict", type(value).__name__,
                [(describe(k), describe(v)) for k, v in value.items()])
    if isinstance(value, tuple):
        return ("tuple", type(value).__name__, [describe(v) for v in value])
    if isinstance(value, list):
        return ("list", type(value).__name__, [describe(v) for v in value])
    if isinstance(value, (WithItemize, Container)):
        return ("object", type(value).__name__)
    return (type(value).__name__, no_address(repr(value)))


def run(func, make):
    del LOG[:]
    value = make()
    try:
        outcome = ("ok", describe(func(value)))
    except BaseException as exc:  # noqa: B902
        outcome = ("exc", type(exc).__name__, no_address(str(exc)))
    if hasattr(value, "close") and isinstance(value, IOBase):
        try:
            position = ("closed", value.closed)
        except BaseException:  # noqa: B902
            position = None
        value.close()
    else:
        position = None
    return outcome, list(LOG), position


# ---- end to end ------------------------------------------------------------
@dataclass
class FakeLeaf(LeafElement):
    name: str = ""
    type_name: str = "Leaf"
    size: int = 7
    payload: Any = None
    _private: Any = "hidden"
    type_id = ElementTypes.SampleEntry


class FakeImage(Image):
    name = "Fake Image"
    type_name = "Fake Image"
    type_id = ElementTypes.DirectoryEntry

    def __init__(self, makers):
        Traversable.__init__(self, lambda ctx: self._make(makers))

    @staticmethod
    def _make(makers):
        return [
            FakeLeaf(name=f"LEAF {n}", payload=make())
            for n, make in enumerate(makers)
        ]


def akai_name(text):
    out = []
    for ch in text.ljust(12)[:12]:
        if ch.isdigit():
            out.append(ord(ch) - ord("0"))
        elif "A" <= ch <= "Z":
            out.append(0x0B + ord(ch) - ord("A"))
        else:
            out.append({" ": 0x0A, "#": 0x25, "+": 0x26, "-": 0x27,
                        ".": 0x28}[ch])
    return bytes(out)


def make_partition(sectors, volumes=()):
    header = (
        sectors.to_bytes(2, "little") + b"\x00\x00" + AKAI_PARTITION_MAGIC
        + bytes([0x55, 0xBA]) + b"\x2f\x00"
    )
    sat = [0] * AKAI_SAT_ENTRY_CNT
    entries = b""
    bodies = {}
    next_sector = 4
    for n in range(AKAI_VOLUME_ENTRY_CNT):
        if n < len(volumes):
            name, vtype = volumes[n]
            entries += (
                akai_name(name) + vtype.to_bytes(2, "little")
                + next_sector.to_bytes(2, "little")
            )
            sat[next_sector] = 0xC000
            body = bytearray(AKAI_SECTOR_SIZE)
            body[8:10] = FILE_TABLE_END_FLAG.to_bytes(2, "little")
            bodies[next_sector] = bytes(body)
            next_sector += 1
        else:
            entries += bytes([0x0A] * 12) + b"\x00\x00\x00\x00"
    for s in range(4):
        sat[s] = 0x4000
    sat_bytes = b"".join(v.to_bytes(2, "little") for v in sat)
    blob = bytearray(sectors * AKAI_SECTOR_SIZE)
    head = header + entries + sat_bytes
    blob[:len(head)] = head
    for sector, body in bodies.items():
        blob[sector * AKAI_SECTOR_SIZE:(sector + 1) * AKAI_SECTOR_SIZE] = body
    return bytes(blob)


def write_files(root):
    vols_a = (("VOLUME 001", 1), ("VOLUME 002", 3), ("VOLUME 001", 1))
    files = {
        "akai.img": make_partition(8, vols_a),
        "audio.bin": bytes(2352 * 75 * 3),
        "audio.cue": (
            b"FILE \"audio.bin\" BINARY\n  TRACK 01 AUDIO\n"
            b"    TITLE \"First\"\n    INDEX 01 00:00:00\n"
            b"  TRACK 02 AUDIO\n    INDEX 01 00:01:00\n"
            b"  TRACK 03 AUDIO\n    TITLE \"First\"\n    INDEX 01 00:02:00\n"
        ),
    }
    for name, data in files.items():
        with open(os.path.join(root, name), "wb") as handle:
            handle.write(data)


LS_PATHS = [
    "", "/", "First", " First ", "First/", "first", "First (2)",
    "First (2)\\", "First (3)", "Untitled Track 2", "Untitled Track 2/x",
    "Untitled Track 9", "A", "A/VOLUME 001", "A/VOLUME 001 (2)/", "nope",
    "☃",
]


def run_ls(target, path):
    buf = io.StringIO()
    del LOG[:]
    try:
        with contextlib.redirect_stdout(buf):
            actions.ls_action(target, path)
        return ("ok", no_address(buf.getvalue()), list(LOG))
    except BaseException as exc:  # noqa: B902
        return ("exc", type(exc).__name__, no_address(str(exc)),
                no_address(buf.getvalue()), list(LOG))


def main():
    failures = 0
    checked = 0
    raised = 0
    root = tempfile.mkdtemp()
    try:
        makers = simple_values(root)
        rng = random.Random(1701)
        seeds = [rng.randrange(10 ** 9) for _ in range(600)]
        makers += [
            (lambda seed: lambda: random_value(random.Random(seed)))(seed)
            for seed in seeds
        ]
        for n, make in enumerate(makers):
            expected = run(orig_process_value, make)
            actual = run(new_process_value, make)
            checked += 1
            if expected[0][0] == "exc":
                raised += 1
            if expected != actual:
                failures += 1
                if failures <= 5:
                    print("MISMATCH value", n)
                    print("  expected", expected)
                    print("  actual  ", actual)
        if raised < 8:
            print("too few raising values:", raised)
            failures += 1

        # end to end: synthetic leaves carrying the values that render
        renderable = []
        for make in makers[:len(makers) - len(seeds)] + makers[-60:]:
            probe = run(orig_process_value, make)
            if probe[0][0] == "ok":
                renderable.append(make)
        saw_tree = 0
        for n in range(len(renderable)):
            for path in (f"LEAF {n}", f" leaf {n}/", f"LEAF {n}/x"):
                with original_world():
                    expected = run_ls(FakeImage(renderable), path)
                actual = run_ls(FakeImage(renderable), path)
                checked += 1
                if expected[0] == "ok" and "payload:" in expected[1]:
                    saw_tree += 1
                if expected != actual:
                    failures += 1
                    if failures <= 5:
                        print("MISMATCH fake ls", n, repr(path))
                        print("  expected", expected)
                        print("  actual  ", actual)
        if saw_tree < 80:
            print("too few leaf trees rendered:", saw_tree)
            failures += 1

        write_files(root)
        saw_leaf = False
        for name in ("audio.cue", "akai.img"):
            target = os.path.join(root, name)
            for path in LS_PATHS:
                with original_world():
                    expected = run_ls(target, path)
                actual = run_ls(target, path)
                checked += 1
                if expected[0] == "ok" and "num_channels:" in expected[1] \
                        and "-" * 80 in expected[1]:
                    saw_leaf = True
                if expected != actual:
                    failures += 1
                    if failures <= 5:
                        print("MISMATCH ls", name, repr(path))
                        print("  expected", expected)
                        print("  actual  ", actual)
        if not saw_leaf:
            print("fixtures never rendered a leaf info tree")
            failures += 1
    finally:
        shutil.rmtree(root, ignore_errors=True)

    print(f"checked {checked} cases, {failures} mismatches")
    return 1 if failures else 0


if __name__ == "__main__":
    sys.exit(main())
