"""Equivalence demo for InfoTable.print_table (smpl_extract/info.py).

Compares the live implementation against an inline copy of the ORIGINAL
implementation on a few hundred tables (edge cases and malformed inputs
included).  Return values, exception types/messages, attribute access order
and absence of mutation / carried-over state are compared.
Exit status 0 when everything agrees, 1 otherwise.
"""
import copy
import random
import sys
from io import StringIO
from typing import Mapping
from typing import Tuple

from smpl_extract.info import InfoTable


# ---------------------------------------------------------------- original
def orig_print_table(self):

    # if empty
    if len(self.rows) <= 0:
        result = "(*empty*)"
        return result

    str_buffer = StringIO(newline="\n")

    # calc total number of columns and the widths of each
    num_columns = 0
    column_widths: Mapping[int, int] = {}
    rows = self.rows + [self.header]
    for row in rows:
        for i, column_value in enumerate(row):
            # total number of cols
            if i + 1 > num_columns:
                num_columns = i + 1
            # width of ith column
            width = len(column_value)
            if i not in column_widths.keys():
                column_widths[i] = max(width, self.column_width)
            elif width > column_widths[i]:
                column_widths[i] = width

    # total width is sum of column widths and the number of delimiters
    total_width = sum(column_widths.values()) + num_columns - 1

    def make_line(
            row: Tuple[str, ...],
            column_widths: Mapping[int, int] = column_widths
    ) -> str:
        result = self.column_delimiter.join(map(
            lambda i: row[i].ljust(column_widths[i]),
            range(len(row))
        ))
        return result

    # print the table
    str_buffer.write(make_line(self.header) + "\n")  # header
    str_buffer.write(("-" * total_width) + "\n")  # divider
    for row in self.rows:
        str_buffer.write(make_line(row) + "\n")

    result = str_buffer.getvalue()
    return result


class OrigTable(InfoTable):
    print_table = orig_print_table


# ------------------------------------------------------- tracing variants
def traced(base):
    """Subclass of `base` recording every instance attribute read."""
    class Traced(base):
        def __init__(self, *a, **k):
            object.__setattr__(self, "log", [])
            super().__init__(*a, **k)

        def __getattribute__(self, name):
            if name in ("header", "rows", "column_width", "column_delimiter"):
                object.__getattribute__(self, "log").append(name)
            return object.__getattribute__(self, name)
    return Traced


TracedNew = traced(InfoTable)
TracedOld = traced(OrigTable)


class OddCell:
    """Cell with a length but whose ljust returns a non-string."""
    def __init__(self, n):
        self.n = n

    def __len__(self):
        return self.n

    def ljust(self, w):
        return w

    def __repr__(self):
        return f"OddCell({self.n})"


class OneShot:
    """Single-use iterable without len() (like a generator), stable repr."""
    def __init__(self, items):
        self.items = list(items)

    def __iter__(self):
        return self

    def __next__(self):
        if not self.items:
            raise StopIteration
        return self.items.pop(0)

    def __repr__(self):
        return f"OneShot({self.items!r})"


class Seq:
    """Row whose iteration and indexing disagree."""
    def __init__(self, it, idx):
        self.it, self.idx = it, idx

    def __iter__(self):
        return iter(self.it)

    def __len__(self):
        return len(self.idx)

    def __getitem__(self, i):
        return self.idx[i]

    def __repr__(self):
        return f"Seq({self.it!r}, {self.idx!r})"


def outcome(cls, args, kwargs, drop=None):
    try:
        t = cls(*args, **kwargs)
        if drop:
            object.__delattr__(t, drop)
    except Exception as e:  # constructor never fails, but be safe
        return ("ctor", type(e).__name__, str(e))
    res = []
    for _ in range(2):  # second call: nothing may be carried over
        try:
            res.append(("ok", t.print_table()))
        except BaseException as e:
            res.append(("exc", type(e).__name__, str(e)))
    res.append(("log", tuple(object.__getattribute__(t, "log"))))
    try:
        res.append(("rows", repr(object.__getattribute__(t, "rows"))))
    except AttributeError:
        res.append(("rows", None))
    try:
        res.append(("header", repr(object.__getattribute__(t, "header"))))
    except AttributeError:
        res.append(("header", None))
    return res


def rand_str(rng, maxlen):
    alphabet = "abcXYZ 019-_.\té中"
    return "".join(rng.choice(alphabet) for _ in range(rng.randint(0, maxlen)))


def cases():
    rng = random.Random(160025)
    out = []
    # --- hand written edge cases
    out += [
        ((("a", "b"), []), {}),
        ((("a", "b"), [("1", "2")]), {}),
        (((), [()]), {}),
        (((), [(), ()]), {}),
        ((("h",), [()]), {}),
        (((), [("x",)]), {}),
        ((("a", "b", "c"), [("1",), ("1", "2", "3", "4")]), {}),
        ((("a" * 30, "b"), [("1", "2" * 40)]), {}),
        ((("a", "b"), [("1", "2")]), {"column_width": 0}),
        ((("a", "b"), [("1", "2")]), {"column_width": -5}),
        ((("a", "b"), [("1", "2")]), {"column_width": 3, "column_delimiter": " | "}),
        ((("a", "b"), [("1", "2")]), {"column_delimiter": ""}),
        ((("a", "b"), [("1", "2")]), {"column_width": 2.5}),
        ((("a", "b"), [("1", "2")]), {"column_width": "x"}),
        ((("a", "b"), [("1", "2")]), {"column_width": None}),
        ((("a", "b"), [("1", "2")]), {"column_delimiter": None}),
        ((("a", "b"), [("1", "2")]), {"column_delimiter": 5}),
        ((("a", "b"), [("1", "2")]), {"column_delimiter": b","}),
        ((["a", "b"], [["1", "2"]]), {}),
        (("ab", ["cd", "efg"]), {}),
        ((("a", "b"), (("1", "2"),)), {}),          # rows a tuple -> TypeError
        ((("a", "b"), None), {}),                   # len(None)
        ((None, [("1",)]), {}),                     # header not iterable
        ((("a",), [None]), {}),
        ((("a",), [("1",), None]), {}),
        ((("a", 5), [("1", "2")]), {}),             # len(int)
        ((("a", "b"), [("1", 2)]), {}),
        ((("a", None), [("1", "2")]), {}),
        ((("a", b"b"), [("1", "2")]), {}),          # bytes cell: join TypeError
        ((("a", "b"), [("1", b"22")]), {}),
        ((("a", ["x", "y"]), [("1", "2")]), {}),    # list cell: no ljust
        ((("a", "b"), [("1", ("x",))]), {}),
        ((("a", OddCell(3)), [("1", "2")]), {}),
        ((("a", "b"), [(OddCell(50), "2")]), {}),
        (({"ab": 1}, [("1",)]), {}),                # dict header: KeyError in make_line
        ((("a",), [{"ab": 1}]), {}),
        ((("a",), [{0: "x"}]), {}),
        ((("a",), [{"k": 1, "kk": 2}, ("z",)]), {}),
        ((Seq(["aa", "bb"], ["aa"]), [("1", "2")]), {}),
        ((Seq(["aa"], ["aa", "bb"]), [("1",)]), {}),       # KeyError on widths
        ((("h", "i"), [Seq(["aa"], ["aa", "bb", "cc"])]), {}),  # KeyError col 2
        ((("h",), [Seq(["aa", "bb"], [])]), {}),
        ((OneShot(("a", "b")), [("1", "2")]), {}),  # iterator header: len fails later
        ((("a", "b"), [OneShot(("1", "2"))]), {}),
        ((("a", "b"), {1: 2}), {}),                 # rows a dict
        ((("a", "b"), "xy"), {}),                   # rows a str
    ]
    # --- random well-formed and ragged tables
    for _ in range(300):
        ncol = rng.randint(0, 6)
        header = tuple(rand_str(rng, 26) for _ in range(ncol))
        rows = []
        for _ in range(rng.randint(0, 8)):
            n = ncol if rng.random() < 0.6 else rng.randint(0, 8)
            rows.append(tuple(rand_str(rng, 30) for _ in range(n)))
        kw = {}
        if rng.random() < 0.5:
            kw["column_width"] = rng.choice([0, 1, 5, 8, 20, 33, -1])
        if rng.random() < 0.5:
            kw["column_delimiter"] = rng.choice(["", " ", "  ", "|", " | ", "\t"])
        out.append(((header, rows), kw))
    # --- random tables with a poisoned cell
    poison = [None, 7, b"zz", ["q"], OddCell(4), ("t",), 3.5]
    for _ in range(80):
        ncol = rng.randint(1, 4)
        header = [rand_str(rng, 10) for _ in range(ncol)]
        rows = [[rand_str(rng, 25) for _ in range(ncol)]
                for _ in range(rng.randint(1, 4))]
        target = rng.choice([header] + rows)
        target[rng.randrange(ncol)] = rng.choice(poison)
        out.append(((tuple(header), [tuple(r) for r in rows]), {}))
    return out


def main():
    bad = 0
    n = 0
    for args, kwargs in cases():
        for drop in (None, "header", "column_width", "column_delimiter", "rows"):
            # single-use rows: build separate but identical inputs
            a1 = copy.deepcopy(args)
            a2 = copy.deepcopy(args)
            new = outcome(TracedNew, a1, dict(kwargs), drop)
            old = outcome(TracedOld, a2, dict(kwargs), drop)
            n += 1
            if new != old:
                bad += 1
                if bad <= 10:
                    print("MISMATCH", args, kwargs, "drop=", drop)
                    print("   new:", new)
                    print("   old:", old)
    # known expected values (independent of the inline copy)
    t = InfoTable(("a", "bb"), [("1", "2"), ("333", "4")], column_width=3,
                  column_delimiter="|")
    exp = "a  |bb \n-------\n1  |2  \n333|4  \n"
    if t.print_table() != exp:
        bad += 1
        print("MISMATCH fixed expectation", repr(t.print_table()))
    if InfoTable(("a",), []).print_table() != "(*empty*)":
        bad += 1
        print("MISMATCH empty")
    if InfoTable(("a",), [("b",)]).to_string() != "a".ljust(20) + "\n" + "-" * 20 + "\n" + "b".ljust(20) + "\n":
        bad += 1
        print("MISMATCH default width")
    print(f"{n} cases compared, {bad} mismatches")
    return 1 if bad else 0


if __name__ == "__main__":
    sys.exit(main())
