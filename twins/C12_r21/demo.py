"""Equivalence demo for r21: smpl_extract.util.stream.StreamWrapper.seek
(the rewind `data_stream.stream.seek(0, SEEK_SET)` done by make_transcoder
before the per-stream block decode, inherited by StreamOffset, StreamReversed,
SectorStream and FileStream).

The live seek() is compared with an inline copy of the ORIGINAL seek() that is
mounted on twin subclasses of every stream class:

  1. random scripts of seek / read / tell calls (all whence values, also
     unknown ones, offsets far outside the stream, sizes 0 / negative /
     None end_of_file) - return values, exceptions (type and text), the
     position / true_size attributes after every call and the complete log of
     seek/read/tell calls that reached the underlying stream must agree;
  2. complete transcodings through make_transcoder (1..3 streams, mono and
     interleaved, both byte orders, equal and unequal lengths, partial
     trailing frames, streams left at a random position before the call),
     byte for byte.

Exit 0 when everything agrees, 1 otherwise.
"""
from io import BytesIO
from io import SEEK_CUR
from io import SEEK_END
from io import SEEK_SET
import random
import sys

from smpl_extract.data_streams import DataStream
from smpl_extract.data_streams import Endianess
from smpl_extract.data_streams import StreamEncoding
from smpl_extract.transcoder import make_transcoder
from smpl_extract.util.fat import FileStream
from smpl_extract.util.sector import SectorStream
from smpl_extract.util.stream import StreamOffset
from smpl_extract.util.stream import StreamReversed
from smpl_extract.util.stream import StreamWrapper


# ---------------------------------------------------------------- ORIGINAL
def seek_ORIG(self, offset, whence=SEEK_CUR):
    starting_position = 0
    if whence == SEEK_CUR:
        starting_position = self.position
    elif whence == SEEK_END:
        starting_position = self.end_of_file

    new_position = starting_position + offset
    if new_position > self.end_of_file:
        new_position = self.end_of_file
    elif new_position < 0:
        new_position = 0

    self.true_size = 0
    self._seek(new_position)
    self.position = new_position
    return new_position


def twin(cls):
    return type(cls.__name__ + "ORIG", (cls,), {"seek": seek_ORIG})


# ------------------------------------------------------------------ helpers
class LoggedBytesIO(BytesIO):
    def __init__(self, data):
        super().__init__(data)
        self.log = []

    def seek(self, *args):
        result = super().seek(*args)
        self.log.append(("seek", args, result))
        return result

    def read(self, *args):
        result = super().read(*args)
        self.log.append(("read", args, result))
        return result

    def tell(self):
        result = super().tell()
        self.log.append(("tell", result))
        return result


def outcome(f, *args, **kwargs):
    try:
        return ("ok", f(*args, **kwargs))
    except Exception as e:  # noqa
        return ("exc", type(e).__name__, str(e))


failures = []


def check(label, a, b):
    if a != b:
        failures.append(label)
        if len(failures) <= 10:
            print("MISMATCH", label, repr(a)[:200], repr(b)[:200])


def state(stream):
    return (stream.position, stream.true_size, stream.end_of_file)


# ------------------------------------------------------- 1. random scripts
def builders(rng):
    """Yield (label, factory(cls_transform) -> (stream, raw)) pairs."""
    data = bytes(rng.randrange(256) for _ in range(rng.choice([0, 1, 7, 64, 300])))
    size_choices = [len(data), len(data) // 2, len(data) + 5, 0, -3]
    size = rng.choice(size_choices)
    position = rng.choice([0, 0, 3, size, -2])
    offset = rng.choice([0, 1, 5, 40])
    width = rng.choice([1, 2, 4])
    sector_length = rng.choice([1, 4, 16, 100])
    sectors = [rng.randrange(0, 12) for _ in range(rng.choice([0, 1, 3, 8]))]

    def wrapper(t):
        raw = LoggedBytesIO(data)
        return t(StreamWrapper)(raw, size, position=position), raw

    def wrapper_none(t):
        raw = LoggedBytesIO(data)
        return t(StreamWrapper)(raw, None, position=max(0, position)), raw

    def offs(t):
        raw = LoggedBytesIO(data)
        return t(StreamOffset)(raw, size, offset, position=position), raw

    def rev(t):
        raw = LoggedBytesIO(data)
        return t(StreamReversed)(raw, size, sample_width=width,
                                 position=position), raw

    def sect(t):
        raw = LoggedBytesIO(data)
        return t(SectorStream)(raw, size, sector_length,
                               position=max(0, position)), raw

    def fat(t):
        raw = LoggedBytesIO(data)
        return t(FileStream)(raw, sector_length, sectors,
                             position=max(0, position)), raw

    def nested(t):
        raw = LoggedBytesIO(data)
        inner = t(StreamOffset)(raw, max(0, len(data) - offset), offset)
        return t(StreamReversed)(inner, size, sample_width=width), raw

    return [("wrapper", wrapper), ("wrapper_none", wrapper_none),
            ("offset", offs), ("reversed", rev), ("sector", sect),
            ("nested", nested), ("fat", fat)]


def run_scripts():
    rng = random.Random(2101)
    n = 0
    for case in range(700):
        for label, build in builders(rng):
            live, raw_live = build(lambda c: c)
            orig, raw_orig = build(twin)
            script = []
            for _ in range(rng.randrange(1, 14)):
                kind = rng.choice(["seek", "seek", "seek", "read", "tell"])
                if kind == "seek":
                    off = rng.choice([0, 0, 1, -1, 2, 4, -4, 9, 33, -50, 500,
                                      10 ** 12, -10 ** 12])
                    wh = rng.choice([SEEK_SET, SEEK_SET, SEEK_CUR, SEEK_END,
                                     None, 3, -1, True, 1.0, "x"])
                    script.append(("seek", off, wh))
                elif kind == "read":
                    script.append(("read", rng.choice([0, 1, 2, 4, 8, 24, 999])))
                else:
                    script.append(("tell",))
            for step_no, step in enumerate(script):
                where = f"script {case}/{label}/{step_no} {step}"
                if step[0] == "seek":
                    if step[2] is None:
                        a = outcome(live.seek, step[1])
                        b = outcome(orig.seek, step[1])
                    else:
                        a = outcome(live.seek, step[1], step[2])
                        b = outcome(orig.seek, step[1], step[2])
                elif step[0] == "read":
                    a = outcome(live.read, step[1])
                    b = outcome(orig.read, step[1])
                else:
                    a = outcome(live.tell)
                    b = outcome(orig.tell)
                check(where + " result", a, b)
                check(where + " state", state(live), state(orig))
                n += 1
            check(f"script {case}/{label} substream log",
                  raw_live.log, raw_orig.log)
    return n


# -------------------------------------------------- 2. complete transcodings
def run_transcodings():
    rng = random.Random(2102)
    n = 0
    for case in range(400):
        width = rng.choice([1, 2, 4])
        num_streams = rng.choice([1, 1, 2, 3])
        specs = []
        base_frames = rng.choice([0, 1, 5, 100, 1500])
        for _ in range(num_streams):
            nch = 0 if rng.random() < 0.03 else rng.choice([1, 1, 2, 3])
            endian = rng.choice([Endianess.LITTLE, Endianess.BIG])
            frames = base_frames if rng.random() < 0.5 \
                else rng.choice([0, 1, 3, 77, 1100])
            length = frames * max(1, nch) * width + rng.choice([0, 0, 1])
            lead = rng.choice([0, 3])
            data = bytes(rng.randrange(256) for _ in range(lead + length))
            kind = rng.choice(["offset", "reversed", "sector", "wrapper"])
            start = rng.choice([0, 1, length, 10 ** 6])
            specs.append((nch, endian, data, lead, length, kind, start))
        total = sum(max(1, s[0]) for s in specs)
        dest = StreamEncoding(
            endianess=rng.choice([Endianess.LITTLE, Endianess.LITTLE,
                                  Endianess.BIG]),
            sample_width=width,
            num_interleaved_channels=total if rng.random() < 0.95 else total + 1
        )

        def build(t):
            streams = []
            for nch, endian, data, lead, length, kind, start in specs:
                raw = BytesIO(data)
                if kind == "offset":
                    s = t(StreamOffset)(raw, length, lead)
                elif kind == "reversed":
                    whole = length - length % width
                    s = t(StreamReversed)(
                        t(StreamOffset)(raw, whole, lead), whole,
                        sample_width=width)
                elif kind == "sector":
                    s = t(SectorStream)(raw, length, 16)
                else:
                    s = t(StreamWrapper)(raw, length)
                outcome(s.seek, start, SEEK_SET)
                enc = StreamEncoding(endianess=endian, sample_width=width,
                                     num_interleaved_channels=nch)
                streams.append(DataStream(s, enc))
            return streams

        def transcode(streams):
            transcoder = make_transcoder(streams, dest)
            blocks = list(transcoder)
            return (type(transcoder).__name__, blocks,
                    [(d.stream.position, d.stream.true_size) for d in streams])

        a = outcome(transcode, build(lambda c: c))
        b = outcome(transcode, build(twin))
        check(f"transcoding {case}", a, b)
        n += 1
    return n


if __name__ == "__main__":
    n1 = run_scripts()
    n2 = run_transcodings()
    print(f"{n1} scripted calls, {n2} transcodings compared; "
          f"{len(failures)} mismatches")
    sys.exit(1 if failures else 0)
