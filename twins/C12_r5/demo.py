"""Equivalence demo for r5: make_transcoder (swap flags / processes list).

Compares smpl_extract.transcoder.make_transcoder with an inline copy of the
ORIGINAL implementation over many stream configurations, both host byte
orders (patched), both destination byte orders, and error cases.
Exit 0 when everything agrees, 1 otherwise.
"""
from io import BytesIO, SEEK_SET
import itertools
import sys
from typing import Callable, List, Tuple
from unittest.mock import patch

import numpy as np

import smpl_extract.transcoder as T
from smpl_extract.data_streams import DataStream
from smpl_extract.data_streams import Endianess
from smpl_extract.data_streams import IncompatibleNumberOfChannels
from smpl_extract.data_streams import NoDataStream
from smpl_extract.data_streams import StreamEncoding


def make_transcoder_ORIG(data_streams, dest_encoding):
    # verbatim copy of the original, with module globals spelled T.<name>
    if len(data_streams) <= 0:
        raise NoDataStream("No data streams given")

    total_num_channels = 0
    for data_stream in data_streams:
        num_channels = max(1, data_stream.encoding.num_interleaved_channels)
        total_num_channels += num_channels
    expected_num_channels = dest_encoding.num_interleaved_channels
    if total_num_channels != expected_num_channels:
        raise IncompatibleNumberOfChannels(
            f"Expected {expected_num_channels} fourd {total_num_channels}."
        )

    for data_stream in data_streams:
        data_stream.stream.seek(0, SEEK_SET)
    buffer_sizes = T.get_buffer_sizes(data_streams)

    if len(data_streams) == 1 \
            and data_streams[0].encoding == dest_encoding:
        result = T.PassthroughTranscoder(
            data_streams[0],
            buffer_size=buffer_sizes[0]
        )
        return result

    processes: List[Tuple[
        str,
        Callable[[List[np.ndarray]], List[np.ndarray]]
    ]]
    processes = []

    swaps = list(
        x.encoding.endianess != T.system_byte_order
        for x in data_streams
        for _ in range(max(1, x.encoding.num_interleaved_channels))
    )
    if any(swaps):
        if all(swaps):
            processes.append(("swap_input_endianess", T.swap_endianess))
        else:
            processes.append((
                "swap_input_endianess_multi",
                lambda x: T.swap_endianess_multi(x, swaps)
            ))

    if dest_encoding.endianess != T.system_byte_order:
        processes.append(("swap_output_endianess", T.swap_endianess))

    dest_dtype = dest_encoding.dtype

    f_decode_frame = lambda x: T.decode_frame(x, buffer_sizes=buffer_sizes)
    f_encode_frame = lambda x: T.encode_frame(x, dest_dtype=dest_dtype)
    pipeline = T.TranscodePipelineStruct(
        f_decode_frame,
        processes,
        f_encode_frame
    )

    result = T.PipelineTranscoder(data_streams, pipeline)
    return result


class SpyIO(BytesIO):
    """BytesIO that logs every seek/read so the order of stream accesses
    can be compared as well."""

    def __init__(self, data, log, tag):
        super().__init__(data)
        self._log = log
        self._tag = tag

    def seek(self, *a):
        self._log.append((self._tag, "seek", a))
        return super().seek(*a)

    def read(self, *a):
        self._log.append((self._tag, "read", a))
        return super().read(*a)


def describe(fn, specs, dest, payloads):
    """Run fn on freshly built streams; return a fully comparable summary."""
    log = []
    streams = [
        DataStream(SpyIO(payload, log, i), enc)
        for i, (enc, payload) in enumerate(zip(specs, payloads))
    ]
    try:
        tc = fn(streams, dest)
    except Exception as e:  # noqa
        return ("EXC", type(e).__name__, str(e), log)

    out = [type(tc).__name__]
    if isinstance(tc, T.PassthroughTranscoder):
        out.append(("buffer_size", tc.buffer_size, tc.data_stream is streams[0]))
    else:
        names = [p[0] for p in tc.pipeline.processes]
        out.append(("names", names))
        out.append(("same_streams", tc.data_streams is streams))
        # which callable is used for the plain swap steps
        out.append(("plain_is_swap_endianess", [
            (p[1] is T.swap_endianess)
            for p in tc.pipeline.processes if not p[0].endswith("_multi")
        ]))
        # apply each process individually to a probe channel list
        nch = dest.num_interleaved_channels
        for n_probe in (nch, nch + 2, max(0, nch - 1)):
            probe = [
                np.arange(1 + 3 * c, 1 + 3 * c + 5, dtype=np.int16)
                for c in range(n_probe)
            ]
            for name, f in tc.pipeline.processes:
                res = f(probe)
                out.append((name, n_probe, [r.tobytes() for r in res]))
    try:
        blocks = list(tc)
        out.append(("bytes", blocks))
    except Exception as e:  # noqa
        out.append(("ITER_EXC", type(e).__name__, str(e)))
    out.append(("log", log))
    return out


def payload_for(enc, nframes, extra, seed):
    rng = np.random.RandomState(seed)
    n = nframes * max(1, enc.num_interleaved_channels) * enc.sample_width + extra
    return rng.randint(0, 256, size=n, dtype=np.uint8).tobytes()


def main():
    mismatches = 0
    cases = 0
    ends = (Endianess.LITTLE, Endianess.BIG)

    configs = []
    # exhaustive over small shape space
    for nstreams in (1, 2, 3):
        for chans in itertools.product((1, 2, 3), repeat=nstreams):
            if nstreams == 3 and max(chans) == 3 and chans.count(3) > 1:
                continue
            for width in (1, 2, 4):
                for orders in itertools.product(ends, repeat=nstreams):
                    configs.append((chans, width, orders))

    length_sets = {
        1: [(0,), (1,), (7,), (2100,)],
        2: [(5, 5), (0, 4), (9, 3), (1100, 1100)],
        3: [(4, 4, 4), (6, 0, 2), (3, 8, 5)],
    }

    for host in ends:
        with patch.object(T, "system_byte_order", host):
            for chans, width, orders in configs:
                specs = [
                    StreamEncoding(o, width, c, True)
                    for o, c in zip(orders, chans)
                ]
                total = sum(chans)
                for dest_end in ends:
                    for dest_width in (width, 2):
                        dest = StreamEncoding(dest_end, dest_width, total, True)
                        for li, lens in enumerate(length_sets[len(chans)]):
                            for extra in (0, 1):
                                payloads = [
                                    payload_for(e, n, extra if i == 0 else 0,
                                                seed=li * 31 + i)
                                    for i, (e, n) in enumerate(zip(specs, lens))
                                ]
                                a = describe(T.make_transcoder, specs, dest, payloads)
                                b = describe(make_transcoder_ORIG, specs, dest, payloads)
                                cases += 1
                                if a != b:
                                    mismatches += 1
                                    if mismatches <= 5:
                                        print("MISMATCH", host, chans, width,
                                              orders, dest, lens, extra)

            # zero-interleaved-channel encodings count as one channel
            for orders in itertools.product(ends, repeat=2):
                specs = [StreamEncoding(orders[0], 2, 0, True),
                         StreamEncoding(orders[1], 2, 2, True)]
                dest = StreamEncoding(Endianess.LITTLE, 2, 3, True)
                payloads = [b"\x01\x02" * 6, b"\x03\x04\x05\x06" * 6]
                a = describe(T.make_transcoder, specs, dest, payloads)
                b = describe(make_transcoder_ORIG, specs, dest, payloads)
                cases += 1
                if a != b:
                    mismatches += 1
                    print("MISMATCH zero-chan", host, orders)

            # error cases
            for specs, dest in (
                ([], StreamEncoding(Endianess.LITTLE, 2, 1, True)),
                ([StreamEncoding(Endianess.BIG, 2, 2, True)],
                 StreamEncoding(Endianess.LITTLE, 2, 1, True)),
                ([StreamEncoding(Endianess.BIG, 2, 1, True)] * 2,
                 StreamEncoding(Endianess.LITTLE, 2, 3, True)),
            ):
                payloads = [b"\x00" * 8 for _ in specs]
                a = describe(T.make_transcoder, specs, dest, payloads)
                b = describe(make_transcoder_ORIG, specs, dest, payloads)
                cases += 1
                if a != b or a[0] != "EXC":
                    mismatches += 1
                    print("MISMATCH error-case", host, specs, dest)

    print(f"{cases} cases, {mismatches} mismatches")
    return 1 if mismatches else 0


if __name__ == "__main__":
    sys.exit(main())
