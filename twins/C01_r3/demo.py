"""Equivalence demo for r3: SectorStream._read (smpl_extract/util/sector.py).

Runs the module's SectorStream / FileStream and subclasses carrying an inline
copy of the ORIGINAL _read over a logging parent stream, and compares returned
bytes, raised exceptions, final position and the exact sequence of
seek/read/tell calls made on the parent stream.
Exit 0 when everything agrees, 1 otherwise.
"""
import io
import random
import sys

from smpl_extract.util.fat import FileStream
from smpl_extract.util.sector import SectorStream
from smpl_extract.util.stream import SectorReadError


def original_read(self, size):
    # ---- verbatim copy of the original body ----
    if size <= 0:
        return bytes()

    remaining_size = size

    initial_sector_index    = self.position // self.sector_length
    initial_sector_offset   = self.position % self.sector_length

    # read partial initial sector
    if initial_sector_offset + size <= self.sector_length:
        initial_read_size = size
    else:
        initial_read_size = self.sector_length - initial_sector_offset
    result = self._read_sector(
        initial_sector_index,
        initial_sector_offset,
        initial_read_size
    )
    remaining_size -= initial_read_size

    # read full size middle sectors
    i = 1
    while remaining_size > self.sector_length:
        result += self._read_sector(
            initial_sector_index + i,
            0,
            self.sector_length
        )
        remaining_size -= self.sector_length
        i += 1

    # read partial final sector
    final_sector_index = initial_sector_index + i
    if remaining_size > 0:
        result += self._read_sector(
            final_sector_index,
            0,
            remaining_size
        )

    if len(result) != size:
        raise SectorReadError(f"Wanted {size}, read {len(result)}.")

    return result


class OrigSectorStream(SectorStream):
    _read = original_read


class OrigFileStream(FileStream):
    _read = original_read


class LoggingBytesIO(io.BytesIO):
    def __init__(self, data):
        super().__init__(data)
        self.log = []

    def seek(self, *a):
        self.log.append(("seek",) + a)
        return super().seek(*a)

    def read(self, *a):
        self.log.append(("read",) + a)
        return super().read(*a)

    def tell(self):
        self.log.append(("tell",))
        return super().tell()


def script(stream, ops):
    out = []
    for op, arg in ops:
        try:
            if op == "seek":
                out.append(("seek", stream.seek(arg, io.SEEK_SET)))
            elif op == "read":
                out.append(("read", stream.read(arg)))
            elif op == "_read":
                out.append(("_read", stream._read(arg)))
            elif op == "pos":
                stream.position = arg
                out.append(("pos", arg))
        except BaseException as e:  # noqa
            out.append(("exc", type(e).__name__, str(e)))
        out.append(("at", stream.position))
    return out


def main():
    rnd = random.Random(777)
    bad = 0
    cnt = 0

    def compare(make_new, make_old, data, ops):
        nonlocal bad, cnt
        pa, pb = LoggingBytesIO(data), LoggingBytesIO(data)
        a, b = make_new(pa), make_old(pb)
        ra, rb = script(a, ops), script(b, ops)
        cnt += 1
        if ra != rb or pa.log != pb.log:
            bad += 1
            if bad < 5:
                print("MISMATCH", ops)

    for sector_length in (1, 2, 3, 4, 8, 16):
        nsect = 9
        data = bytes(rnd.randrange(256) for _ in range(sector_length * nsect))
        # plain SectorStream, full and truncated parent
        for parent in (data, data[: len(data) - sector_length - 1], b""):
            for size_total in (sector_length * nsect, sector_length * 4, 0):
                ops = []
                for pos in range(0, sector_length * nsect + 2):
                    for sz in list(range(-1, 3 * sector_length + 2)) + [sector_length * nsect]:
                        ops.append(("seek", pos))
                        ops.append(("read", sz))
                        ops.append(("pos", pos))
                        ops.append(("_read", sz))
                compare(
                    lambda p: SectorStream(p, size_total, sector_length),
                    lambda p: OrigSectorStream(p, size_total, sector_length),
                    parent, ops,
                )
        # FileStream with every kind of sector ordering
        for _ in range(30):
            k = rnd.randrange(0, nsect + 1)
            sector_list = rnd.sample(range(nsect + 2), k)  # may point past parent
            ops = []
            for _ in range(400):
                r = rnd.random()
                if r < 0.3:
                    ops.append(("seek", rnd.randrange(0, sector_length * (k + 1) + 1)))
                elif r < 0.8:
                    ops.append(("read", rnd.choice([
                        0, 1, sector_length - 1, sector_length, sector_length + 1,
                        2 * sector_length, 2 * sector_length + 1, 3 * sector_length,
                        rnd.randrange(0, sector_length * (k + 1) + 2), None, -1,
                    ])))
                elif r < 0.9:
                    ops.append(("pos", rnd.randrange(0, sector_length * (k + 2))))
                else:
                    ops.append(("_read", rnd.randrange(-1, sector_length * (k + 2))))
            compare(
                lambda p: FileStream(p, sector_length, list(sector_list)),
                lambda p: OrigFileStream(p, sector_length, list(sector_list)),
                data, ops,
            )

    # AKAI-sized sectors: lengths that end exactly on a sector boundary
    S = 0x2000
    nsect = 6
    data = bytes(rnd.randrange(256) for _ in range(S * nsect))
    for _ in range(20):
        sector_list = rnd.sample(range(nsect), rnd.randrange(1, nsect + 1))
        k = len(sector_list)
        ops = []
        for pos in (0, 1, 140, 150, S - 1, S, S + 1, k * S - 140, k * S - 1, k * S):
            for sz in (0, 1, 140, S - 140, S - 1, S, S + 1, 2 * S, k * S - 140, k * S, k * S + 1, 0x1000):
                ops += [("seek", pos), ("read", sz), ("pos", pos), ("_read", sz)]
        ops += [("seek", 0), ("read", None)]
        compare(
            lambda p: FileStream(p, S, list(sector_list)),
            lambda p: OrigFileStream(p, S, list(sector_list)),
            data, ops,
        )

    print(f"{cnt} scripted streams, {bad} mismatches")
    return 1 if bad else 0


if __name__ == "__main__":
    sys.exit(main())
