"""Equivalence demo for FileAllocationTable.get_path (smpl_extract/util/fat.py).

Compares the get_path found in the tree with an inline copy of the ORIGINAL
implementation on exhaustive small tables and many random tables (chains,
cycles, self links, out-of-range links, negative links, size smaller / larger
than the table, size 0 / negative / bool).  Exit 0 when everything agrees.
"""
import itertools
import random
import sys

from smpl_extract.util.fat import FileAllocationTable
from smpl_extract.util.fat import InvalidFatDefinition
from smpl_extract.util.fat import RequestedInvalidSector
from smpl_extract.util.fat import SectorLink


class OriginalFat(FileAllocationTable):
    # verbatim copy of the original method
    def get_path(self, starting_sector):

        path = []
        current_sector = starting_sector

        loop_cnt = 0
        while loop_cnt < self.size:
            if current_sector >= len(self.sector_links):
                raise RequestedInvalidSector

            path.append(current_sector)
            sector_link = self.sector_links[current_sector]

            if sector_link.end:
                break
            current_sector = sector_link.next
            loop_cnt += 1

        if loop_cnt >= self.size:
            raise InvalidFatDefinition("Broken FAT. Loop? Sector path exceeds size?")

        return path


class CountingLinks(list):
    """list that records every access, to compare the order of reads"""

    def __init__(self, items):
        super().__init__(items)
        self.log = []

    def __len__(self):
        self.log.append("len")
        return super().__len__()

    def __getitem__(self, index):
        self.log.append(("get", index))
        return super().__getitem__(index)


def outcome(cls, size, links, start):
    counted = CountingLinks(links)
    fat = cls(None, size, None)
    fat.sector_links = counted
    try:
        value = ("ok", fat.get_path(start))
    except Exception as exc:  # noqa: BLE001 - every exception is compared
        value = ("exc", type(exc), exc.args)
    return value, counted.log


failures = 0
checked = 0


def check(size, links, start):
    global failures, checked
    checked += 1
    expected = outcome(OriginalFat, size, links, start)
    actual = outcome(FileAllocationTable, size, links, start)
    if expected != actual:
        failures += 1
        if failures <= 10:
            print("MISMATCH", size, links, start, expected, actual)


# exhaustive: tables of 0..3 entries, every next in -1..n, every end flag
for n in range(0, 4):
    targets = list(range(-1, n + 1))
    for nexts in itertools.product(targets, repeat=n):
        for ends in itertools.product((False, True), repeat=n):
            links = [SectorLink(next=a, end=b) for a, b in zip(nexts, ends)]
            for size in (-1, 0, 1, 2, n, n + 1, 7, True, False):
                for start in range(-2, n + 2):
                    check(size, links, start)

# random larger tables
rng = random.Random(20260928)
for _ in range(4000):
    n = rng.randrange(0, 40)
    links = []
    for i in range(n):
        kind = rng.random()
        if kind < 0.55:
            nxt = i + 1
        elif kind < 0.85:
            nxt = rng.randrange(0, n + 3)
        elif kind < 0.9:
            nxt = i
        else:
            nxt = rng.randrange(-n - 1, 0)
        links.append(SectorLink(next=nxt, end=rng.random() < 0.15))
    size = rng.choice((0, 1, n // 2, n - 1, n, n + 1, 2 * n, 1000, -5))
    for start in (0, 1, n - 1, n, n + 5, -1, rng.randrange(-3, n + 3)):
        check(size, links, start)

# shared default-link table as built by the adapters ([SectorLink()] * n)
for n in (0, 1, 5, 64):
    links = [SectorLink()] * n
    for size in (0, n, n + 1):
        for start in range(-1, n + 2):
            check(size, links, start)

print(f"checked {checked} cases, {failures} mismatches")
sys.exit(1 if failures else 0)
