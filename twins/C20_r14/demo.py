"""Equivalence evidence for r14: ProgramHeaderConstruct (smpl_extract/akai/program.py).

The refactoring replaces the two inline
`ExprSymmetricAdapter(Int8ul, lambda x,y: AkaiMidiOutput(x))` /
`... AkaiAuxOutput(x)` field parsers ("midi_channel", "aux_output_select") by
calls of a small private factory `_ByteRecastAs(int_type)`.

The live ProgramHeaderConstruct is compared with an inline copy of the ORIGINAL
declaration (pasted below) on
  * 256 headers sweeping every value of the midi_channel byte, 256 sweeping the
    aux_output_select byte, and 1500 fully random 72-byte headers: every field
    value, its type, its str() (what `ls` prints), key order, the stream
    position after parsing, and the bytes produced by building the parsed
    container again;
  * truncated headers of every length 0..71 (same exception type and text);
  * build() of containers carrying ints / AkaiMidiOutput / invalid values in
    the two fields (same exception), and build / parse / sizeof of the two
    touched field parsers on their own for every byte value and many invalid
    values;
  * whole programs (header + 1..5 linked keygroups) parsed through the live
    ProgramParser and through a ProgramParser assembled around the ORIGINAL
    header declaration: item trees and the text `ls` prints.
Exit 0 = all agree, 1 = a difference was found.
"""
import io
import random
import struct
import sys

from construct.core import Default
from construct.core import ExprSymmetricAdapter
from construct.core import If
from construct.core import Int16ul
from construct.core import Int8sl
from construct.core import Int8ul
from construct.core import Padding
from construct.core import Seek
from construct.core import Struct
from construct.expr import this

from smpl_extract.akai.akai_string import AkaiPaddedString
from smpl_extract.akai.data_types import AkaiAuxOutput
from smpl_extract.akai.data_types import AkaiMidiNote
from smpl_extract.akai.data_types import AkaiMidiOutput
from smpl_extract.akai.data_types import AkaiProgramPriority
from smpl_extract.akai.data_types import AkaiTuneCents
from smpl_extract.akai.data_types import AkaiVoiceReassign
from smpl_extract.akai.program import KeygroupLinkConstruct
from smpl_extract.akai.program import ProgramAdapter
from smpl_extract.akai.program import ProgramHeaderConstruct
from smpl_extract.akai.program import ProgramParser
from smpl_extract.akai.program import _has_valid_first_keygroup
from smpl_extract.util.constructs import BoolConstruct
from smpl_extract.util.constructs import EnumWrapper
from smpl_extract.util.constructs import MappingDefault


# --------------------------------------------------------------------------
# inline copy of the ORIGINAL declaration
# --------------------------------------------------------------------------
OrigProgramHeaderConstruct = Struct(
    "program_id"                /\
        Int8ul,
    "first_keygroup_address"    /\
        Default(Int16ul, 150),
    "program_name"              /\
        AkaiPaddedString(12),
    "midi_program_number"       /\
        Int8ul,
    "midi_channel"              /\
        ExprSymmetricAdapter(
            Int8ul,
            lambda x,y: 
            AkaiMidiOutput(x)   # type: ignore
        ),
    "polyphony"                 /\
        Int8ul,
    "priority"                  /\
        EnumWrapper(
            Int8ul, 
            AkaiProgramPriority 
        ),
    "low_key"                   /\
        AkaiMidiNote(Int8ul),
    "high_key"                  /\
        AkaiMidiNote(Int8ul),
    "octave_shift"              /\
        Int8sl,
    "aux_output_select"         /\
        ExprSymmetricAdapter(
            Int8ul,
            lambda x,y: 
            AkaiAuxOutput(x)    # type: ignore
        ),
    "mix_output_level"          /\
        Int8ul,
    "mix_output_pan"            /\
        Int8sl,
    "volume"                    /\
        Int8ul,
    "vel_to_volume"             /\
        Int8sl,
    "key_to_volume"             /\
        Int8sl,
    "pres_to_volume"            /\
        Int8sl,
    "pan_lfo_rate"              /\
        Int8ul,
    "pan_lfo_depth"             /\
        Int8ul,
    "pan_lfo_delay"             /\
        Int8ul,
    "key_to_pan"                /\
        Int8sl,
    "lfo_rate"                  /\
        Int8ul,
    "lfo_depth"                 /\
        Int8ul,
    "lfo_delay"                 /\
        Int8ul,
    "mod_to_lfo_depth"          /\
        Int8ul,
    "pres_to_lfo_depth"         /\
        Int8ul,
    "vel_to_lfo_depth"          /\
        Int8ul,
    "bend_to_pitch"             /\
        Int8ul,
    "pres_to_pitch"             /\
        Int8sl,
    "keygroup_crossfade"        /\
        BoolConstruct(Int8ul),
    "number_of_keygroups"       /\
        Int8ul,
    Padding(1),                 # program number
    "key_temperaments"          /\
        Int8ul[12],
    "fx_output"                 /\
        BoolConstruct(Int8ul),
    "mod_to_pan"                /\
        Int8sl,
    "stereo_coherence"          /\
        BoolConstruct(Int8ul),
    "lfo_desync"                /\
        BoolConstruct(Int8ul), 
    "pitch_law"                 /\
        Int8ul,
    "voice_reassign"            /\
        EnumWrapper(
            Int8ul,
            AkaiVoiceReassign
        ),
    "softped_to_volume"         /\
        Int8ul,
    "softped_to_attack"         /\
        Int8ul,
    "softped_to_filter"         /\
        Int8ul,
    "tune_cents"                /\
        AkaiTuneCents(Int8sl),
    "tune_semitones"            /\
        Int8sl,
    "key_to_lfo_rate"           /\
        Int8sl,
    "key_to_lfo_depth"          /\
        Int8sl,
    "key_to_lfo_delay"          /\
        Int8sl,
    "voice_output_scale_db"     /\
        MappingDefault(Int8ul,
            {
                -6: 0,
                0:  1,
                12: 2
            },
            (0, 1) 
        ),
    "stereo_output_scale_db"    /\
        MappingDefault(Int8ul, 
        {
            0: 0,
            6: 1
        },
        (0, 0) 
    )
)


# ProgramParser exactly as in the module, around the ORIGINAL header
OrigProgramParser = ProgramAdapter(Struct(
    "header" / OrigProgramHeaderConstruct,
    If(_has_valid_first_keygroup,
        Seek(this.header.first_keygroup_address)
    ),
    "keygroups" / KeygroupLinkConstruct[this.header.number_of_keygroups]
))


failures = 0
checked = 0


def fail(*msg):
    global failures
    failures += 1
    if failures <= 5:
        print("MISMATCH", *[repr(m)[:400] for m in msg])


def freeze(value):
    """value with its exact type, str() and (for containers) key order"""
    if isinstance(value, dict):
        return ("dict", type(value).__name__,
                [(k, freeze(v)) for k, v in value.items() if k != "_io"])
    if isinstance(value, (list, tuple)):
        return (type(value).__name__, [freeze(v) for v in value])
    return (type(value).__module__, type(value).__name__, repr(value), str(value))


def observe_parse(con, blob):
    stream = io.BytesIO(blob)
    try:
        parsed = con.parse_stream(stream)
    except Exception as e:  # noqa
        return ("exc", type(e).__name__, str(e), stream.tell()), None
    return ("ok", freeze(parsed), stream.tell()), parsed


def observe_build(con, obj):
    try:
        return ("ok", con.build(obj))
    except Exception as e:  # noqa
        return ("exc", type(e).__name__, str(e))


def compare_header(tag, blob):
    global checked
    checked += 1
    a, parsed_a = observe_parse(ProgramHeaderConstruct, blob)
    b, parsed_b = observe_parse(OrigProgramHeaderConstruct, blob)
    if a != b:
        fail(tag, blob.hex(), a, b)
        return a
    if parsed_a is not None:
        # rebuild what was parsed, crosswise
        ra = observe_build(ProgramHeaderConstruct, parsed_b)
        rb = observe_build(OrigProgramHeaderConstruct, parsed_a)
        if ra != rb:
            fail(tag + " rebuild", blob.hex(), ra, rb)
    return a


def akai_name(rng):
    if rng.random() < 0.3:
        return bytes([0x0A] * 12)
    n = rng.randrange(1, 13)
    return bytes(rng.randrange(0, 0x29) for _ in range(n)) + bytes([0x0A] * (12 - n))


def make_header(rng, num=None, wild=False):
    hdr = bytearray(rng.randrange(256) for _ in range(72))
    hdr[1:3] = struct.pack("<H", 72)
    if not wild:
        hdr[3:15] = akai_name(rng)
        hdr[18] = rng.randrange(0, 4)           # priority
        hdr[19] = rng.randrange(0x18, 0x80)     # low key
        hdr[20] = rng.randrange(0x18, 0x80)     # high key
        hdr[61] = rng.randrange(0, 2)           # voice reassign
    if num is not None:
        hdr[42] = num
    return hdr


rng = random.Random(2014)
ok = 0
# sweep the two bytes whose parsers were touched (offsets 16 and 22)
for offset in (16, 22):
    for value in range(256):
        hdr = make_header(rng)
        hdr[offset] = value
        res = compare_header("sweep@%d" % offset, bytes(hdr))
        ok += res[0] == "ok"
        if res[0] == "ok":
            fields = dict(res[1][2])
            name = "midi_channel" if offset == 16 else "aux_output_select"
            cls = "AkaiMidiOutput" if offset == 16 else "AkaiAuxOutput"
            word = "Omni" if offset == 16 else "Off"
            want = word if value == 255 else str(value)
            got = fields[name]
            if got[1] != cls or got[3] != want:
                fail("unexpected value", name, value, got)
# random headers, valid and wild
for n in range(1500):
    res = compare_header("random", bytes(make_header(rng, wild=(n % 3 == 0))))
    ok += res[0] == "ok"
# extra trailing bytes / both fields at the extremes
for a in (0, 1, 15, 16, 127, 128, 254, 255):
    for b in (0, 1, 7, 8, 127, 128, 254, 255):
        hdr = make_header(rng)
        hdr[16] = a
        hdr[22] = b
        res = compare_header("extremes", bytes(hdr) + bytes(rng.randrange(256) for _ in range(9)))
        ok += res[0] == "ok"
if ok < 1500:
    fail("too few headers parsed", ok)

# truncated headers
base = bytes(make_header(rng))
for length in range(0, 72):
    res = compare_header("truncated", base[:length])
    if res[0] != "exc":
        fail("truncated header parsed?", length)

# building from hand-made containers
good_parsed = ProgramHeaderConstruct.parse(base)
for mc in (0, 5, 255, AkaiMidiOutput(3), AkaiMidiOutput(255), True, -1, 256,
           2.0, 2.5, "7", "x", None, b"1"):
    for ao in (0, 255, AkaiAuxOutput(9), AkaiAuxOutput.OFF, -1, 300, "3", None):
        checked += 1
        obj = dict(good_parsed)
        obj.pop("_io", None)
        obj["midi_channel"] = mc
        obj["aux_output_select"] = ao
        a = observe_build(ProgramHeaderConstruct, obj)
        b = observe_build(OrigProgramHeaderConstruct, obj)
        if a != b:
            fail("build", mc, ao, a, b)

# the two touched field parsers on their own, in both directions (the header
# as a whole cannot be built: EnumWrapper has no encoder)
def field_of(con, name):
    return [sc for sc in con.subcons if sc.name == name][0]


def observe_call(func, *args):
    try:
        res = func(*args)
        return ("ok", type(res).__name__, repr(res), str(res))
    except Exception as e:  # noqa
        return ("exc", type(e).__name__, str(e))


field_builds_ok = 0
for name in ("midi_channel", "aux_output_select"):
    live_field = field_of(ProgramHeaderConstruct, name)
    orig_field = field_of(OrigProgramHeaderConstruct, name)
    for value in list(range(-3, 260)) + [
            AkaiMidiOutput(3), AkaiMidiOutput(255), AkaiAuxOutput(0),
            AkaiAuxOutput.OFF, True, False, 2.0, 2.5, "7", " 7 ", "x", "", None,
            b"1", [], (1,), 1 << 40]:
        checked += 1
        a = observe_call(live_field.build, value)
        b = observe_call(orig_field.build, value)
        if a != b:
            fail("field build", name, value, a, b)
        field_builds_ok += a[0] == "ok"
    for blob in [bytes([v]) for v in range(256)] + [b"", b"\x05\x06"]:
        checked += 1
        a = observe_call(live_field.parse, blob)
        b = observe_call(orig_field.parse, blob)
        if a != b:
            fail("field parse", name, blob, a, b)
    checked += 1
    if observe_call(live_field.sizeof) != observe_call(orig_field.sizeof):
        fail("field sizeof", name)
if field_builds_ok < 500:
    fail("too few field builds succeeded", field_builds_ok)

# sizeof and the layout of the declaration itself
checked += 1
if ProgramHeaderConstruct.sizeof() != OrigProgramHeaderConstruct.sizeof():
    fail("sizeof")
live_names = [(sc.name, type(sc).__name__) for sc in ProgramHeaderConstruct.subcons]
orig_names = [(sc.name, type(sc).__name__) for sc in OrigProgramHeaderConstruct.subcons]
if live_names != orig_names:
    fail("subcons", live_names, orig_names)

# whole programs through ProgramParser
DEFAULT_KEYGROUP = bytes.fromhex(
    "029600187f0000630c000000001e632d000000000032632d0000000000000104ffff"
    + "0a0a0a0a0a0a0a0a0a0a0a0a007f000000000000ffff2c01" * 4
    + "0000010100000000000000000000000000000000"
)


def make_program_blob(rng):
    num = rng.randrange(1, 6)
    out = bytes(make_header(rng, num=num))
    for i in range(num):
        kg = bytearray(DEFAULT_KEYGROUP)
        kg[1:3] = struct.pack("<H", 72 + 150 * (i + 1))
        for off in range(5, 30):
            kg[off] = rng.randrange(256)
        for z in range(4):
            base_off = 34 + 24 * z
            kg[base_off:base_off + 12] = akai_name(rng)
            kg[base_off + 12] = rng.randrange(128)
            kg[base_off + 13] = rng.randrange(128)
        out += bytes(kg)
    return out


def tree(t):
    if isinstance(t, dict):
        return ("dict", [(k, tree(v)) for k, v in t.items()])
    if isinstance(t, tuple):
        return ("tuple", [tree(v) for v in t])
    return (type(t).__name__, t)


def observe_program(parser, blob, name):
    try:
        prog = parser.parse(blob, _elem_name=name)
        info = prog.get_info()
        return ("ok", type(prog.midi_channel).__name__,
                type(prog.aux_output_select).__name__,
                tree(prog.itemize()), info.header, info.to_string())
    except Exception as e:  # noqa
        return ("exc", type(e).__name__, str(e))


programs_ok = 0
for n in range(300):
    blob = make_program_blob(rng)
    checked += 1
    a = observe_program(ProgramParser, blob, "P%d" % n)
    b = observe_program(OrigProgramParser, blob, "P%d" % n)
    if a != b:
        fail("program", blob.hex()[:200], a, b)
    programs_ok += a[0] == "ok"
if programs_ok < 250:
    fail("too few programs parsed", programs_ok)

print("r14 demo: %d comparisons (%d headers ok, %d programs ok), %d failures"
      % (checked, ok, programs_ok, failures))
sys.exit(1 if failures else 0)
