"""Equivalence demo for the preset refactoring in smpl_extract/filters/common.py
(the coefficient triples of the three ChickenSys IIR presets are bound to
module-level constants; the `1.0 * p/q` fractions are spelled `p / q`).

The preset classes of the working tree are compared against inline copies of
the ORIGINAL preset classes (built on the same compiled base classes) and
against precomputed IEEE-754 bit patterns of the coefficients:
  * coefficients / attributes of a fresh instance are bit-identical,
  * process()/get_remaining() outputs are bit-identical for every composition
    (ordered block split) of short signals and random splits of long random
    and extreme-valued int16 signals,
  * reset_state() makes a used filter behave like a new one,
  * instances do not share state arrays.
Exit 0 when everything agrees, 1 otherwise.
"""
import itertools
import random
import struct
import sys
import warnings

import numpy as np

from smpl_extract.filters import common
from smpl_extract.filters.fir import ChickSysCustomFirFilter
from smpl_extract.filters.fir import FirFilter
from smpl_extract.filters.iir import ChickSysCustomIirFilter

warnings.simplefilter("ignore")


# ---------------------------------------------------------------- ORIGINAL
def _bytes_to_double(x: bytes) -> float:
    y = struct.unpack(">d", x)[0]
    return y


_cdxtract_roland_deemph_h = np.asarray(
    [
        _bytes_to_double(b"\x3F\x74\xC0\x29\x80\x53\x00\xA6"),  # 0.005066072573015534
        _bytes_to_double(b"\x3F\xD4\x32\xA8\x65\x50\xCA\xA2"),  # 0.315591906491287
        _bytes_to_double(b"\x3F\xE3\x50\xE6\xA1\xCD\x43\x9B"),  # 0.6036255989257485
        _bytes_to_double(b"\x3F\xB3\x62\x26\xC4\x4D\x88\x9B"),  # 0.07571642200994903
        0.0,
        0.0,
        0.0,
        0.0
    ],
    dtype=np.double
)
class OrigCdXtractRolandDeemphFilter(FirFilter):
    def __init__(self) -> None:
        super().__init__(_cdxtract_roland_deemph_h)


class OrigChickSysStandardDeemphFilter(ChickSysCustomIirFilter):
    def __init__(self) -> None:
        super().__init__((
            0.5923,  # exact coefficient precision
            0.1516,
            0.2560
        ))


class OrigChickSysDarkerDeemphFilter(ChickSysCustomIirFilter):
    def __init__(self) -> None:
        super().__init__((
            0.7071,  # exact coefficient precision
            0.1213,
            0.1716
        ))


class OrigChickSysSpecialDeemphFilter(ChickSysCustomIirFilter):
    def __init__(self) -> None:
        super().__init__((
            1.0 * 22082/32767,  # fractions needed for precision
            1.0 *  4967/32767,
            1.0 *  8411/32767
        ))


_chick_sys_roland_deemph_h = np.asarray(
    [
        1,
       -2,
        5,
      -11,
       25,
      -65,
      176,
     -460,
     9981,
    32767,
     9981,
     -460,
      176,
      -65,
       25,
      -11,
        5,
       -2,
        1
    ],
    dtype=np.int16
)
_chick_sys_roland_deemph_k_gain = 52067  # DC offset -> np.sum(_roland_deemph_h)
_chick_sys_roland_deemph_delay_offset = 7
class OrigChickSysRolandDeemphFilter(ChickSysCustomFirFilter):

    def __init__(self) -> None:
        super().__init__(
            _chick_sys_roland_deemph_h,
            _chick_sys_roland_deemph_delay_offset,
            _chick_sys_roland_deemph_k_gain
        )


PAIRS = [
    (OrigCdXtractRolandDeemphFilter, common.CdXtractRolandDeemphFilter),
    (OrigChickSysStandardDeemphFilter, common.ChickSysStandardDeemphFilter),
    (OrigChickSysDarkerDeemphFilter, common.ChickSysDarkerDeemphFilter),
    (OrigChickSysSpecialDeemphFilter, common.ChickSysSpecialDeemphFilter),
    (OrigChickSysRolandDeemphFilter, common.ChickSysRolandDeemphFilter),
]

# precomputed on the unmodified tree: hex of the float64 B and A arrays of the IIR presets
EXPECTED_BITS = {
    "ChickSysStandardDeemphFilter": ("3fe2f41f212d77323fc367a0f9096bba", "3ff0000000000000bfd0624dd2f1a9fc"),
    "ChickSysDarkerDeemphFilter": ("3fe6a0902de00d1b3fbf0d844d013a93", "3ff0000000000000bfc5f6fd21ff2e49"),
    "ChickSysSpecialDeemphFilter": ("3fe590ab215642ad3fc36726ce4d9c9b", "3ff0000000000000bfd06da0db41b683"),
}

FAILS = []
CHECKS = [0]


def same_value(a, b):
    if isinstance(a, np.ndarray) or isinstance(b, np.ndarray):
        return (isinstance(a, np.ndarray) and isinstance(b, np.ndarray)
                and a.dtype == b.dtype and a.shape == b.shape
                and a.tobytes() == b.tobytes())
    if isinstance(a, float) and isinstance(b, float):
        return struct.pack(">d", a) == struct.pack(">d", b)
    return type(a) is type(b) and a == b


def outcome(fn):
    try:
        return ("ok", fn())
    except BaseException as e:  # noqa
        return ("exc", type(e).__name__, str(e).replace("'Orig", "'"))


def same_outcome(a, b):
    if a[0] != b[0]:
        return False
    if a[0] == "exc":
        return a[1:] == b[1:]
    return same_value(a[1], b[1])


def state(f):
    return {k: (v.copy() if isinstance(v, np.ndarray) else v)
            for k, v in sorted(vars(f).items())}


def same_state(f, g):
    sf, sg = state(f), state(g)
    return sf.keys() == sg.keys() and all(same_value(sf[k], sg[k]) for k in sf)


def check(label, f, fcall, g, gcall):
    CHECKS[0] += 1
    a, b = outcome(fcall), outcome(gcall)
    if not same_outcome(a, b):
        FAILS.append((label, "outcome", a, b))
    elif not same_state(f, g):
        FAILS.append((label, "state", state(f), state(g)))
    return a


def expect(label, cond):
    CHECKS[0] += 1
    if not cond:
        FAILS.append((label,))


rng = random.Random(1908)
nrng = np.random.default_rng(1908)


def compositions(n):
    for bits in itertools.product([0, 1], repeat=max(n - 1, 0)):
        yield [i + 1 for i, b in enumerate(bits) if b] + [n]


def random_cuts(n, how_many):
    for _ in range(how_many):
        k = rng.randint(0, min(n - 1, 12))
        yield sorted(rng.sample(range(1, n), k)) + [n]


def run_stream(f, x, cuts):
    out = []
    lo = 0
    for hi in cuts:
        out.append(f.process(x[lo:hi]))
        lo = hi
    out.append(f.get_remaining())
    return np.concatenate(out)


def short_signals():
    vals = [0, 1, -1, 32767, -32768, 12345, -20000, 255]
    for n in range(1, 9):
        yield np.asarray([vals[(i * 3 + n) % len(vals)] for i in range(n)], dtype=np.int16)
        yield nrng.integers(-32768, 32768, n).astype(np.int16)
    yield np.asarray([32767] * 8, dtype=np.int16)
    yield np.asarray([-32768] * 8, dtype=np.int16)
    yield np.asarray([32767, -32768] * 4, dtype=np.int16)


def long_signals():
    yield np.asarray([32767] * 64, dtype=np.int16)
    yield np.asarray([-32768] * 64, dtype=np.int16)
    yield np.asarray([32767, -32768] * 40, dtype=np.int16)
    yield np.asarray([32767, 32767, -32768, -32768] * 25, dtype=np.int16)
    for _ in range(6):
        yield nrng.integers(-32768, 32768, rng.randint(30, 300)).astype(np.int16)
    for _ in range(3):
        yield nrng.choice(np.asarray([-32768, -32767, -1, 0, 1, 32766, 32767], dtype=np.int16),
                          rng.randint(30, 200))


def main():
    for Orig, New in PAIRS:
        name = New.__name__
        # class shape is untouched
        expect(name + " bases", [b.__name__ for b in New.__mro__[1:]] == [b.__name__ for b in Orig.__mro__[1:]])

        # fresh instances carry bit-identical attributes
        f, g = Orig(), New()
        check(name + " fresh", f, lambda: None, g, lambda: None)
        if name in EXPECTED_BITS:
            expect(name + " B bits", g.B.astype(">f8").tobytes().hex() == EXPECTED_BITS[name][0])
            expect(name + " A bits", g.A.astype(">f8").tobytes().hex() == EXPECTED_BITS[name][1])
            expect(name + " B dtype", g.B.dtype == np.float64 and g.A.dtype == np.float64)

        # two instances never share their state arrays
        g2 = New()
        for attr in ("x_prev", "y_prev"):
            if hasattr(g, attr):
                expect(name + " unshared " + attr, getattr(g, attr) is not getattr(g2, attr))
        if hasattr(g, "B"):
            expect(name + " unshared B", g.B is not g2.B and g.A is not g2.A)

        # every composition of short signals
        for x in short_signals():
            whole = None
            for cuts in compositions(len(x)):
                f, g = Orig(), New()
                r = check(name + " comp", f, lambda: run_stream(f, x, cuts), g, lambda: run_stream(g, x, cuts))
                # used (flushed) filter == new filter
                f2, g2 = Orig(), New()
                check(name + " reuse", f2, lambda: run_stream(f2, x, cuts), g, lambda: run_stream(g, x, cuts))
                if whole is None:
                    whole = r
            CHECKS[0] += 1

        # random splits of long / extreme-valued signals, instance reused throughout
        f, g = Orig(), New()
        for x in long_signals():
            for cuts in random_cuts(len(x), 6):
                check(name + " long", f, lambda: run_stream(f, x, cuts), g, lambda: run_stream(g, x, cuts))
            # explicit reset in mid-stream
            check(name + " half", f, lambda: f.process(x[: len(x) // 2]), g, lambda: g.process(x[: len(x) // 2]))
            check(name + " reset", f, lambda: f.reset_state(), g, lambda: g.reset_state())
            h = New()
            check(name + " reset==new", h, lambda: h.process(x), g, lambda: g.process(x))
            outcome(lambda: f.process(x))   # bring the reference along
            check(name + " flush", f, lambda: f.get_remaining(), g, lambda: g.get_remaining())

        # odd inputs (errors must be the same too)
        for blk in (np.asarray([], dtype=np.int16), np.asarray([1.5, 2.5]), np.asarray([1, 2], dtype=np.int32),
                    np.asarray([[1, 2]], dtype=np.int16), [1, 2, 3], None):
            f, g = Orig(), New()
            check(name + " odd", f, lambda: f.process(blk), g, lambda: g.process(blk))
            check(name + " odd flush", f, lambda: f.get_remaining(), g, lambda: g.get_remaining())

        # constructor takes no arguments
        CHECKS[0] += 1
        a, b = outcome(lambda: Orig(1)), outcome(lambda: New(1))
        if a[:2] != b[:2]:
            FAILS.append((name + " ctor arity", a, b))

    # the float spellings themselves
    for p in (22082, 4967, 8411):
        expect("fraction %d" % p, same_value(1.0 * p / 32767, p / 32767))
    expect("0.2560", same_value(0.2560, 0.256))

    print("checks: %d, failures: %d" % (CHECKS[0], len(FAILS)))
    for f in FAILS[:10]:
        print("FAIL", repr(f)[:600])
    return 1 if FAILS else 0


if __name__ == "__main__":
    sys.exit(main())
