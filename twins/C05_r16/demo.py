"""Equivalence demo for r16: structural.ExportManager.__init__ (bare attribute
annotations merged into the assignments, `routines or {}` spelled as a
conditional expression, annotation uses the T_SAMPLE_ROUTINE alias) and
ExportManager.set_level (the two independent statements swapped) versus inline
copies of the ORIGINAL methods.

1. construction: every kind of `routines` argument (omitted, None, {}, other
   empty / non-empty mappings, positional / keyword) -> same attributes in the
   same creation order, same identity relation to the argument;
2. set_level / add_sample / finish_level driven directly with random call
   sequences: level, the samples list object (identity is kept, it is cleared
   in place) and its contents agree after every call;
3. random directory trees (nested volumes, L/R pairs in every order, duplicate
   and look-alike names, non-sample leaves, entries whose conversion raises,
   sample routines that raise) walked with Traversable.export_samples into
   both managers with the real renaming + pairing routines: the exported
   files (path, channel count, per-channel bytes), what is printed, the
   manager state at every hand-over and the final state / exception agree.
Nothing is written to disk (export_wav is replaced by a recorder).
Exit 0 when everything agrees, 1 otherwise.
"""
import collections
import contextlib
import io
import itertools
import random
import sys
from typing import Callable, Dict, List, Tuple

from smpl_extract import structural
from smpl_extract.base import ElementTypes
from smpl_extract.data_streams import DataStream
from smpl_extract.data_streams import StreamEncoding
from smpl_extract.generalized.sample import Sample
from smpl_extract.structural import ExportManager
from smpl_extract.structural import Image
from smpl_extract.structural import SampleElement
from smpl_extract.structural import Traversable


# --------------------------------------------------------------------------
# ORIGINAL implementations (verbatim bodies) on top of the current class:
# every other method (add_sample, finish_level, export_samples, ...) is
# inherited unchanged.
# --------------------------------------------------------------------------
class OriginalExportManager(ExportManager):

    def __init__(self, output_directory="", routines=None) -> None:
        self.output_directory: str
        self.routines: Dict[str, Callable[[List[Sample]], List[Sample]]]
        self.samples: List[Sample]
        self.level: Tuple[str, ...]

        self.output_directory = output_directory
        self.routines = routines or {}
        self.samples = []
        self.level = ()

    def set_level(self, level):
        self.level = level
        self.samples.clear()


failures = []


def check(cond, what):
    if not cond:
        failures.append(what)
        if len(failures) <= 20:
            print("MISMATCH:", what)


# --------------------------------------------------------------------------
# 1. construction
# --------------------------------------------------------------------------
class EmptyMapping(collections.OrderedDict):
    pass


def identity(samples):
    return samples


def describe_manager(manager, routines_arg):
    attrs = vars(manager)
    return (
        list(attrs),
        manager.output_directory,
        type(manager.routines).__name__,
        list(manager.routines.items())
        if hasattr(manager.routines, "items") else repr(manager.routines),
        manager.routines is routines_arg,
        type(manager.samples).__name__, list(manager.samples),
        manager.level,
    )


MISSING = object()
routine_args = [MISSING, None, {}, {"a": identity}, {"a": identity, "b": len},
                collections.OrderedDict(), collections.OrderedDict(x=identity),
                EmptyMapping(), (), [], 0, "", (("k", identity),)]
n_ctor = 0
for out_dir, arg, keyword in itertools.product(
        [MISSING, "", "out", "/tmp/x/"], routine_args, [False, True]):
    results = []
    for cls in (ExportManager, OriginalExportManager):
        args, kwargs = [], {}
        if keyword:
            if out_dir is not MISSING:
                kwargs["output_directory"] = out_dir
            if arg is not MISSING:
                kwargs["routines"] = arg
        else:
            if out_dir is MISSING and arg is not MISSING:
                kwargs["routines"] = arg
            else:
                if out_dir is not MISSING:
                    args.append(out_dir)
                if arg is not MISSING:
                    args.append(arg)
        manager = cls(*args, **kwargs)
        results.append(describe_manager(manager, arg))
        other = cls(*args, **kwargs)
        # no state shared between two instances
        results[-1] += (manager.samples is not other.samples,)
    check(results[0] == results[1],
          f"constructor {out_dir!r} {arg!r}: {results[0]!r} != {results[1]!r}")
    n_ctor += 1


# --------------------------------------------------------------------------
# 2. direct call sequences
# --------------------------------------------------------------------------
def fake_sample(name, path):
    return Sample(name=name, _path=list(path),
                  data_streams=[DataStream(io.BytesIO(name.encode()),
                                           StreamEncoding(sample_width=1))])


@contextlib.contextmanager
def recording_export(exports):
    def fake_export_wav(sample, total_path):
        exports.append((
            total_path.replace("\\", "/"), sample.name, sample.export_name,
            sample.num_channels, int(sample.channel_config),
            [d.stream.getvalue() for d in sample.data_streams],
        ))
    saved = (structural.export_wav, structural.os.path.exists,
             structural.os.makedirs)
    structural.export_wav = fake_export_wav
    structural.os.path.exists = lambda p: True
    structural.os.makedirs = lambda p: None
    try:
        yield
    finally:
        (structural.export_wav, structural.os.path.exists,
         structural.os.makedirs) = saved


def run_sequence(cls, ops):
    exports = []
    out = io.StringIO()
    trace = []
    with recording_export(exports), contextlib.redirect_stdout(out):
        manager = cls("out", {"id": identity})
        the_list = manager.samples
        for op in ops:
            try:
                if op[0] == "set":
                    r = manager.set_level(op[1])
                elif op[0] == "add":
                    r = manager.add_sample(fake_sample(op[1], op[2]))
                elif op[0] == "finish":
                    r = manager.finish_level()
                else:
                    r = manager.export_samples()
                status = ("ok", r)
            except Exception as e:  # noqa
                status = ("exc", type(e).__name__, str(e))
            trace.append((op[0], status, manager.level,
                          manager.samples is the_list,
                          [s.name for s in manager.samples]))
    return trace, exports, out.getvalue()


rng = random.Random(1616)
n_seq = 0
for _ in range(1500):
    ops = []
    for _ in range(rng.randint(1, 14)):
        kind = rng.choice(["set", "add", "add", "add", "finish", "export"])
        level = rng.choice([(), ("VOL",), ("VOL", "SUB"), ["LIST"], None, "str"])
        if kind == "set":
            ops.append(("set", level))
        elif kind == "add":
            name = rng.choice(["PAD L", "PAD R", "PAD", "KICK", "PAD-L", "X R"])
            ops.append(("add", name, rng.choice([[], ["VOL", name],
                                                 ["VOL", "SUB", name]])))
        else:
            ops.append((kind,))
    got = run_sequence(ExportManager, ops)
    want = run_sequence(OriginalExportManager, ops)
    check(got == want, f"call sequence {ops!r}")
    n_seq += 1


# --------------------------------------------------------------------------
# 3. whole tree walks
# --------------------------------------------------------------------------
class Boom(Exception):
    pass


class FakeSampleEntry(SampleElement):
    type_name = "Fake sample"

    def __init__(self, name, path, parent, fail=False):
        self.name = name
        self._path = path
        self._parent = parent
        self._safe_name = None
        self._export_name = None
        self.fail = fail

    def to_generalized(self):
        if self.fail:
            raise Boom("to_generalized " + self.name)
        return Sample(
            name=self.name, _parent=self._parent, _path=self._path,
            _safe_name=self.safe_name, _export_name=self.export_name,
            data_streams=[DataStream(
                io.BytesIO("/".join(self._path).encode()),
                StreamEncoding(sample_width=1))],
        )


class ProgramLeaf(FakeSampleEntry):
    type_id = ElementTypes.ProgramEntry


def make_realizer(items, path):
    def realize(ctx):
        out = []
        for item in items:
            kind, name = item[0], item[1]
            child_path = path + [name]
            if kind == "dir":
                child = Traversable(
                    make_realizer(item[2], child_path),
                    routines=ctx["_elem_routines"], path=child_path,
                    parent=ctx["_elem_parent"], type_name="Dir")
                child.name = name
            elif kind == "smp":
                child = FakeSampleEntry(name, child_path, ctx["_elem_parent"])
            elif kind == "bad":
                child = FakeSampleEntry(name, child_path, ctx["_elem_parent"],
                                        fail=True)
            else:
                child = ProgramLeaf(name, child_path, ctx["_elem_parent"])
            out.append(child)
        return out
    return realize


def run_tree(cls, spec, raising_routine, twice):
    exports = []
    out = io.StringIO()
    handovers = []
    with recording_export(exports), contextlib.redirect_stdout(out):
        image = Image(make_realizer(spec, []))
        image.name = "image"
        image.set_routines({
            "make_safe_names": image.make_safe_names_routine,
            "make_export_names": image.make_export_names_routine,
        })
        manager = None

        def spy(samples):
            handovers.append((manager.level, samples is manager.samples,
                              [s.export_name for s in samples]))
            if raising_routine and len(handovers) == raising_routine:
                raise Boom("routine")
            return samples

        manager = cls("out", {"spy": spy,
                              "combine_stereo": image.combine_stereo_routine})
        the_list = manager.samples
        results = []
        for _ in range(2 if twice else 1):
            try:
                results.append(("ok", image.export_samples(manager)))
            except Exception as e:  # noqa
                results.append(("exc", type(e).__name__, str(e)))
            results.append((manager.level, manager.samples is the_list,
                            [s.name for s in manager.samples]))
    return results, handovers, exports, out.getvalue()


STEMS = ["PAD", "PAD 1", "STR", "L", "BASS-", "K\"CK", "PAD (2)"]
SUFFIXES = ["", " L", " R", "-L", "-R", "  L", "L", " L ", " l"]


def random_level(depth):
    items = []
    level_stems = rng.sample(STEMS, 2)     # few stems -> many L/R partners
    for _ in range(rng.randint(0, 7)):
        roll = rng.random()
        name = rng.choice(level_stems) + rng.choice(SUFFIXES)
        if roll < 0.12 and depth < 3:
            items.append(("dir", rng.choice(["VOL A", "VOL B", "SUB", name]),
                          random_level(depth + 1)))
        elif roll < 0.17:
            items.append(("prg", name))
        elif roll < 0.19:
            items.append(("bad", name))
        else:
            items.append(("smp", name))
    if items and rng.random() < 0.4:
        items += rng.choices(items, k=rng.randint(1, 3))
    rng.shuffle(items)
    return items


n_tree = 0
n_files = 0
n_stereo = 0
for _ in range(1200):
    spec = random_level(0)
    raising = rng.choice([0, 0, 0, 0, 1, 2])
    twice = rng.random() < 0.3
    got = run_tree(ExportManager, spec, raising, twice)
    want = run_tree(OriginalExportManager, spec, raising, twice)
    check(got == want, f"tree {spec!r} raising={raising} twice={twice}")
    n_tree += 1
    n_files += len(got[2])
    n_stereo += sum(1 for e in got[2] if e[3] == 2)

# every order of one directory holding a pair, a look-alike and a duplicate
base = [("smp", "PAD L"), ("smp", "PAD R"), ("smp", "PAD"), ("smp", "PAD L")]
for perm in set(itertools.permutations(base)):
    spec = [("dir", "VOL", list(perm))]
    got = run_tree(ExportManager, spec, 0, False)
    want = run_tree(OriginalExportManager, spec, 0, False)
    check(got == want, f"tree {spec!r}")
    n_tree += 1
    n_files += len(got[2])
    n_stereo += sum(1 for e in got[2] if e[3] == 2)

print(f"constructor cases: {n_ctor}, call sequences: {n_seq}, trees: {n_tree} "
      f"({n_files} files recorded, {n_stereo} stereo), "
      f"mismatches: {len(failures)}")
sys.exit(1 if failures else 0)
