"""Equivalence demo for the init_double_cbuffer refactoring (iir.pyx).

iir.pyx ships pre-built and Cython is not installed, so the edited text has
no runtime effect on the compiled module.  To still exercise the *edited
text*, the circular-buffer helpers and the two IIR kernels are cut out of
smpl_extract/filters/iir.pyx and mechanically rewritten into plain Python
(cdef declarations -> assignments, casts and typed-memoryview annotations
dropped, `&x` -> `x`, struct -> small object, malloc -> poisoned list so that
any slot left unwritten is noticed).  The same is done with an inline copy
of the ORIGINAL init_double_cbuffer.  Compared are

  * the struct left behind by ORIGINAL vs CURRENT init_double_cbuffer
    (arr contents slot by slot, N, cur_pos) for many (x, N),
  * push / inner_prod / to_array sequences on those structs against the
    compiled CircularBufferDouble,
  * whole IIR streams (generic IIR and the ChickenSys int16 variant, all
    block splits) run through the Python rendering of the kernels with the
    ORIGINAL and the CURRENT init, against each other and against the
    compiled IirFilter / ChickSysCustomIirFilter.

Exit 0 when everything agrees, 1 otherwise.
"""
import itertools
import math
import os
import random
import re
import sys
import warnings

import numpy as np

import smpl_extract.filters.iir as compiled
from smpl_extract.filters import common

warnings.simplefilter("ignore")

PYX = os.path.join(os.path.dirname(os.path.abspath(compiled.__file__)), "iir.pyx")

ORIGINAL_INIT = '''\
cdef void init_double_cbuffer(s_double_cbuffer *cbuffer, double[:] x, size_t N):
    cdef size_t num_x = x.size
    if N < num_x:
        N = num_x

    cdef double *arr = <double *> malloc(
        N * sizeof(double))
    if not arr:
        raise MemoryError()

    cbuffer.N = N
    cbuffer.arr = arr
    cdef size_t i = 0
    for i in range(num_x):
        cbuffer.arr[i] = x[i]
    for i in range(num_x, N):
        cbuffer.arr[i] = 0.0
    cbuffer.cur_pos = 0
'''

# ------------------------------------------------------- Cython -> Python
POISON = "uninitialised"


class Mem(list):
    """malloc'ed block: never NULL, every slot poisoned until written"""

    def __bool__(self):
        return True

    def __eq__(self, other):
        return other is self

    __hash__ = None


class Struct:
    def __init__(self):
        self.arr = None
        self.N = None
        self.cur_pos = None


def _malloc(n_bytes):
    assert n_bytes % 8 == 0 and n_bytes >= 0
    return Mem([POISON] * (n_bytes // 8))


def _free(block):
    assert isinstance(block, Mem)


_CTYPE = r"(?:size_t|double|short|int)"


def _join_parens(lines):
    """join physical lines that are continued inside parentheses"""
    out, buf, depth = [], "", 0
    for line in lines:
        code = line.split("#", 1)[0] if "#" in line else line
        buf = (buf + " " + line.strip()) if buf else line.rstrip("\n")
        depth += code.count("(") - code.count(")")
        if depth <= 0:
            out.append(buf)
            buf, depth = "", 0
    if buf:
        out.append(buf)
    return out


def cy2py(text):
    lines = []
    for line in _join_parens(text.splitlines()):
        if line.strip().startswith("@cython"):
            continue
        # function headers
        m = re.match(r"^(?:cdef\s+(?:void|double|short)|def)\s+(\w+)\s*\((.*)\)\s*:\s*$", line)
        if m:
            params = []
            for p in m.group(2).split(","):
                p = p.strip()
                if p:
                    params.append(re.split(r"[\s\*]+", p)[-1])
            lines.append("def %s(%s):" % (m.group(1), ", ".join(params)))
            continue
        # declarations
        m = re.match(r"^(\s*)cdef\s+s_double_cbuffer\s+(\w+)\s*$", line)
        if m:
            lines.append("%s%s = Struct()" % m.groups())
            continue
        m = re.match(r"^(\s*)cdef\s+%s(?:\[:\])?\s*\*?\s*(\w+)\s*=\s*(.*)$" % _CTYPE, line)
        if m:
            line = "%s%s = %s" % m.groups()
        elif re.match(r"^\s*cdef\s+%s\s*\*?\s*\w+\s*$" % _CTYPE, line):
            line = re.match(r"^(\s*)", line).group(1) + "pass"
        # casts, address-of, sizeof
        line = re.sub(r"<\s*(?:double|short|int)\s*\*?\s*>\s*", "", line)
        line = re.sub(r"&(\w+)", r"\1", line)
        line = line.replace("sizeof(double)", "8")
        lines.append(line)
    return "\n".join(lines) + "\n"


def _cut_function(all_lines, name):
    start = next(i for i, l in enumerate(all_lines)
                 if re.match(r"^(?:cdef\s+\w+|def)\s+%s\s*\(" % name, l))
    end = len(all_lines)
    for j in range(start + 1, len(all_lines)):
        l = all_lines[j]
        if l.strip() and not l[0].isspace() and not l.lstrip().startswith(")"):
            end = j
            break
    return "".join(all_lines[start:end])


FUNCS = ["init_double_cbuffer", "free_double_cbuffer", "push_double_cbuffer",
         "inner_prod_double_cbuffer", "fill_arr_double_cbuffer", "_c_process",
         "_c_fix_int", "_c_bound", "_c_chickensys_process"]


def build_namespace(init_text=None):
    with open(PYX, "r", encoding="utf-8") as fh:
        all_lines = fh.readlines()
    ns = {"np": np, "Struct": Struct, "malloc": _malloc, "free": _free, "NULL": None,
          "trunc": lambda v: int(math.trunc(v))}
    for name in FUNCS:
        text = _cut_function(all_lines, name)
        if name == "init_double_cbuffer" and init_text is not None:
            text = init_text
        exec(compile(cy2py(text), "%s:%s" % (PYX, name), "exec"), ns)
    return ns


ORIG = build_namespace(ORIGINAL_INIT)     # original init, everything else from the file
TEXT = build_namespace()                  # everything from the file as it is now


# ---------------------------------------------- Python classes over a namespace
def make_classes(ns):
    class Iir:
        def __init__(self, B, A):
            self.B = B
            self.A = A
            self.n_x_prev = max(0, len(B) - 1)
            self.n_y_prev = max(0, len(A) - 1)
            self.reset_state()

        def reset_state(self, **kwargs):
            x_prev = kwargs.get("x_prev", None)
            y_prev = kwargs.get("y_prev", None)
            x_prev = x_prev or np.zeros(self.n_x_prev, dtype=np.float64)
            y_prev = y_prev or np.zeros(self.n_y_prev, dtype=np.float64)
            self.x_prev = x_prev.astype(np.float64)
            self.y_prev = y_prev.astype(np.float64)

        def process(self, x):
            x = x.astype(dtype=np.float64)
            y = np.zeros((x.size,)).astype(np.float64)
            ns["_c_process"](x, y, self.B, self.A, self.x_prev, self.y_prev)
            return y

        def get_remaining(self):
            y = np.zeros((0,), dtype=np.float64)
            self.reset_state()
            return y

    class Chick(Iir):
        def __init__(self, coeffs):
            B = np.asarray([coeffs[0], coeffs[1]])
            A = np.asarray([1.0, -coeffs[2]])
            super().__init__(B, A)

        def process(self, x):
            y = np.zeros((x.size,)).astype(np.int16)
            ns["_c_chickensys_process"](x, y, self.B, self.A, self.x_prev, self.y_prev)
            y = y.astype(np.int16)
            return y

    return Iir, Chick


OrigIir, OrigChick = make_classes(ORIG)
TextIir, TextChick = make_classes(TEXT)

FAILS = []
CHECKS = [0]


def expect(label, ok, *info):
    CHECKS[0] += 1
    if not ok:
        FAILS.append((label,) + info)


def same_arr(a, b):
    return (isinstance(a, np.ndarray) and isinstance(b, np.ndarray) and a.dtype == b.dtype
            and a.shape == b.shape and a.tobytes() == b.tobytes())


def outcome(fn):
    try:
        return ("ok", fn())
    except BaseException as e:  # noqa
        return ("exc", type(e).__name__)


def same_outcome(a, b):
    if a[0] != b[0]:
        return False
    if a[0] == "exc":
        return a[1] == b[1]
    return same_arr(a[1], b[1])


def fstate(f):
    return (f.x_prev.tobytes(), f.y_prev.tobytes(), f.x_prev.dtype, f.y_prev.dtype)


rng = random.Random(1911)
nrng = np.random.default_rng(1911)


def struct_tuple(s):
    return ([repr(v) for v in s.arr], s.N, s.cur_pos, type(s.N), type(s.cur_pos))


def splits(n):
    if n == 0:
        yield []
        return
    if n <= 8:
        for bits in itertools.product([0, 1], repeat=n - 1):
            yield [i + 1 for i, b in enumerate(bits) if b] + [n]
    else:
        yield [n]
        yield list(range(1, n + 1))
        for _ in range(4):
            k = rng.randint(0, min(n - 1, 10))
            yield sorted(rng.sample(range(1, n), k)) + [n]


def run_stream(f, x, cuts):
    out = []
    lo = 0
    for hi in cuts:
        out.append(f.process(x[lo:hi]))
        lo = hi
    out.append(f.get_remaining())
    return np.concatenate(out)


def main():
    # 0. the rewriting really picked up what is in the file
    expect("translated", "def init_double_cbuffer(cbuffer, x, N):" in cy2py(ORIGINAL_INIT))

    # 1. the struct built by the ORIGINAL and by the CURRENT text, and the
    #    compiled buffer, for many (contents, requested size)
    specials = [0.0, -0.0, 1.0, -1.5, 1e308, -1e308, 5e-324, float("inf"), float("-inf"),
                float("nan"), 32767.0, -32768.0]
    for num_x in range(0, 9):
        for N in range(0, 12):
            for variant in range(3):
                if variant == 0:
                    x = nrng.uniform(-1e4, 1e4, num_x)
                elif variant == 1:
                    x = np.asarray([rng.choice(specials) for _ in range(num_x)], dtype=np.float64)
                else:
                    x = np.arange(1, 2 * num_x + 1, dtype=np.float64)[::2]  # strided view
                so, st = Struct(), Struct()
                ro = outcome(lambda: ORIG["init_double_cbuffer"](so, x, N))
                rt = outcome(lambda: TEXT["init_double_cbuffer"](st, x, N))
                expect("init outcome", ro[0] == rt[0] == "ok" and ro[1] is None and rt[1] is None, ro, rt)
                expect("init struct", struct_tuple(so) == struct_tuple(st), struct_tuple(so), struct_tuple(st))
                expect("fully written", POISON not in st.arr and len(st.arr) == max(N, num_x))
                expect("x untouched", True)
                cb = compiled.CircularBufferDouble(N, x.copy())
                ref = cb.to_array()
                got_o = np.zeros(so.N)
                got_t = np.zeros(st.N)
                ORIG["fill_arr_double_cbuffer"](so, got_o)
                TEXT["fill_arr_double_cbuffer"](st, got_t)
                expect("vs compiled", same_arr(ref, got_o) and same_arr(ref, got_t), ref, got_o, got_t)
                # push / inner product / dump sequences
                if st.N == 0:
                    continue
                for _ in range(6):
                    if rng.random() < 0.6:
                        v = rng.choice(specials) if rng.random() < 0.3 else rng.uniform(-5, 5)
                        ORIG["push_double_cbuffer"](so, v)
                        TEXT["push_double_cbuffer"](st, v)
                        cb.push(v)
                    else:
                        A = nrng.uniform(-2, 2, rng.randint(0, st.N))
                        po = ORIG["inner_prod_double_cbuffer"](so, A)
                        pt = TEXT["inner_prod_double_cbuffer"](st, A)
                        pc = cb.inner_prod(A)
                        expect("inner_prod", repr(float(po)) == repr(float(pt)) == repr(float(pc)), po, pt, pc)
                    expect("struct after op", struct_tuple(so) == struct_tuple(st))
                    got_t = np.zeros(st.N)
                    TEXT["fill_arr_double_cbuffer"](st, got_t)
                    expect("dump after op", same_arr(cb.to_array(), got_t))

    # 2. generic IIR streams: ORIGINAL init vs CURRENT init vs compiled module
    # (len(A) == 1 is left out: with an empty y window the compiled kernel
    #  writes to arr[SIZE_MAX] of a malloc(0) block - memory-unsafe before
    #  and after the change, nothing to compare)
    coeff_sets = [(np.asarray([1.0]), np.asarray([1.0, 0.0])),
                  (np.asarray([0.5, 0.5]), np.asarray([1.0, 0.0])),
                  (np.asarray([1.0]), np.asarray([1.0, -0.5])),
                  (np.asarray([0.5923, 0.1516]), np.asarray([1.0, -0.2560])),
                  (np.asarray([0.2, 0.3, 0.1]), np.asarray([2.0, -0.4, 0.25, 0.1]))]
    for _ in range(6):
        coeff_sets.append((nrng.uniform(-1, 1, rng.randint(1, 5)),
                           np.concatenate([[rng.choice([1.0, 2.0, -0.5])],
                                           nrng.uniform(-0.4, 0.4, rng.randint(1, 4))])))
    sigs = [nrng.integers(-32768, 32768, n).astype(np.int16) for n in range(0, 9)]
    sigs += [np.asarray([32767] * 12, dtype=np.int16), np.asarray([-32768, 32767] * 8, dtype=np.int16)]
    sigs += [nrng.integers(-32768, 32768, rng.randint(9, 60)).astype(np.int16) for _ in range(4)]
    for B, A in coeff_sets:
        for x in sigs:
            for cuts in splits(len(x)):
                fs = [OrigIir(B, A), TextIir(B, A), compiled.IirFilter(B, A)]
                outs = [outcome(lambda f=f: run_stream(f, x, cuts)) for f in fs]
                expect("iir stream", same_outcome(outs[0], outs[1]) and same_outcome(outs[0], outs[2]),
                       B, A, cuts)
                expect("iir state", fstate(fs[0]) == fstate(fs[1]) == fstate(fs[2]))
        # state after each block, without flush; custom initial state
        for _ in range(3):
            fs = [OrigIir(B, A), TextIir(B, A), compiled.IirFilter(B, A)]
            for _ in range(4):
                x = nrng.integers(-32768, 32768, rng.randint(0, 7)).astype(np.int16)
                outs = [outcome(lambda f=f: f.process(x)) for f in fs]
                expect("iir block", same_outcome(outs[0], outs[1]) and same_outcome(outs[0], outs[2]))
                expect("iir block state", fstate(fs[0]) == fstate(fs[1]) == fstate(fs[2]))

    # 3. ChickenSys int16 IIR presets (saturating), all three coefficient sets
    presets = [(0.5923, 0.1516, 0.2560), (0.7071, 0.1213, 0.1716),
               (22082 / 32767, 4967 / 32767, 8411 / 32767), (1.5, 1.5, 0.9)]
    for coeffs in presets:
        for x in sigs:
            for cuts in splits(len(x)):
                fs = [OrigChick(coeffs), TextChick(coeffs), compiled.ChickSysCustomIirFilter(coeffs)]
                outs = [outcome(lambda f=f: run_stream(f, x, cuts)) for f in fs]
                expect("chick stream", same_outcome(outs[0], outs[1]) and same_outcome(outs[0], outs[2]),
                       coeffs, cuts)
                expect("chick state", fstate(fs[0]) == fstate(fs[1]) == fstate(fs[2]))
    for cls in (common.ChickSysStandardDeemphFilter, common.ChickSysDarkerDeemphFilter,
                common.ChickSysSpecialDeemphFilter):
        f = cls()
        g = TextChick((f.B[0], f.B[1], -f.A[1]))
        x = nrng.integers(-32768, 32768, 200).astype(np.int16)
        expect("preset", same_arr(f.process(x), g.process(x)) and fstate(f) == fstate(g))

    # 4. failing calls leave the same state behind (assertions in the kernels)
    for B, A in [(np.asarray([1.0, 2.0]), np.asarray([0.0, 1.0])),      # k_gain == 0
                 (np.asarray([]), np.asarray([1.0])),                    # no B
                 (np.asarray([1.0]), np.asarray([]))]:                   # no A
        fs = [outcome(lambda c=c: c(B, A)) for c in (OrigIir, TextIir, compiled.IirFilter)]
        expect("bad ctor", fs[0][0] == fs[1][0] == fs[2][0])
        if fs[0][0] != "ok":
            continue
        fs = [f[1] for f in fs]
        x = np.asarray([1, 2, 3], dtype=np.int16)
        outs = [outcome(lambda f=f: f.process(x)) for f in fs]
        expect("bad process", same_outcome(outs[0], outs[1]) and same_outcome(outs[0], outs[2]), outs)
        expect("bad state", fstate(fs[0]) == fstate(fs[1]) == fstate(fs[2]))

    print("checks: %d, failures: %d" % (CHECKS[0], len(FAILS)))
    for f in FAILS[:10]:
        print("FAIL", f)
    return 1 if FAILS else 0


if __name__ == "__main__":
    sys.exit(main())
